#!/usr/bin/env python3
"""Generate MANIFEST.json from the table below (kept in one place so it stays valid)."""
import json, os, subprocess
ROOT = os.path.dirname(os.path.abspath(__file__))

# id -> (level category, technique, text, note, design_ref)
CHECKS = {}
def add(pid, cat, technique, text, note, ref):
    CHECKS[pid] = dict(cat=cat, technique=technique, text=text, note=note, ref=ref)

exec(open(os.path.join(ROOT, "manifest_table.py")).read())

props = [json.loads(l)["id"] for l in open(os.path.join(ROOT, "properties.jsonl"))]
try:
    commits = subprocess.check_output(
        ["git", "-C", "/repo", "log", "--format=%H %s"], text=True).splitlines()
    hook_commits = [c.split()[0] for c in commits if " verif hook" in c]
except Exception:
    hook_commits = []
if os.path.exists(os.path.join(ROOT, "hook_commits.txt")):
    hook_commits = open(os.path.join(ROOT, "hook_commits.txt")).read().split()

manifest = {
    "version": 1,
    "setup_cmd": "./setup.sh",
    "hooks": {
        "guard": "--cfg vls_verif",
        "enable": "RUSTFLAGS='--cfg vls_verif' cargo build (done by ./check for every run; the harness crate /verif/harness has path dependencies on /repo's crates, so every check rebuilds from /repo's working tree)",
        "baseline_off_cmd": "cd /repo && cargo nextest run --workspace --no-fail-fast --test-threads 8 --offline",
        "source_commits": hook_commits,
        "add_only": False,
    },
    "engines": [
        {"name": "vls-verif harness", "path": "harness", "serves_properties": sorted(CHECKS.keys()),
         "kind_free_text": "Rust crate linking the real vls-core / vls-persist / vls-protocol(-signer) / lightning-storage-server crates from /repo; seeded workload generators drive the real code while monitors (ghost state, reference models, snapshot comparison, lock observer) watch; see DESIGN.md"},
    ],
    "checks": [],
    "not_applicable": [],
    "notes": "Runtime monitoring only. exit 0 = held on what was observed, exit 1 = VIOLATION, exit 2 = INCONCLUSIVE (harness problem or too few relevant events). Known findings: known_findings.json.",
}
for pid in props:
    if pid in CHECKS:
        c = CHECKS[pid]
        manifest["checks"].append({
            "property_id": pid,
            "quick_cmd": f"./check {pid} --tier quick",
            "thorough_cmd": f"./check {pid} --tier thorough",
            "evidence_file": f"evidence/{pid}.json",
            "replay_cmd_template": f"./check {pid} --replay {{path}}",
            "engine": "vls-verif harness",
            "level_claimed": {"category": c["cat"], "text": c["text"], "design_ref": c["ref"]},
            "level_note": c["note"],
            "technique": c["technique"],
        })
    else:
        manifest["not_applicable"].append({"property_id": pid, "reason": NOT_YET.get(pid, "check not built yet (runtime-monitoring driver under construction); not claimed")})
json.dump(manifest, open(os.path.join(ROOT, "MANIFEST.json"), "w"), indent=1)
print("checks:", [c["property_id"] for c in manifest["checks"]])
