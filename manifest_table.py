NOT_YET = {}
add("C12", "exploration",
    "runtime monitoring: sliding-window oracle over observed approvals (VelocityControl and real Node with manual clock and restarts)",
    "Random timestamp/amount sequences drive VelocityControl::insert directly and, through a real Node with a manual clock, add_keysend / add_invoice / check_onchain_tx with restarts from the store between approvals; after every acceptance an independent sliding-window sum (u128) over the accepted (time, amount) list is compared with the limit. Held = no acceptance observed that pushed any closed window of length (N-1)*bucket over the limit in the executions produced.",
    "Trusts the harness's list of accepted approvals (taken from return values at the API boundary) and the manual clock. Unlimited controls are exercised but not judged. Says nothing about arrival patterns the generator does not produce.",
    "DESIGN.md 2/C12")
