#!/usr/bin/env bash
# Build the harness (all driver binaries) offline against /repo's working tree.
set -e
cd "$(dirname "$0")/harness"
export CARGO_NET_OFFLINE=true
RUSTFLAGS="--cfg vls_verif" cargo build --offline --release --bins 2>&1 | tail -3
