#!/usr/bin/env bash
# Build the harness (the driver binary of every claimed property) offline against /repo's working tree.
set -u
cd "$(dirname "$0")"
export CARGO_NET_OFFLINE=true
rc=0
for p in $(python3 -c "import json;print(' '.join(c['property_id'] for c in json.load(open('MANIFEST.json'))['checks']))"); do
  ./check "$p" --build-only || rc=1
done
exit $rc
