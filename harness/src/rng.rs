//! Small deterministic PRNG (xoshiro256**, seeded by splitmix64).  No external crates so that
//! every workload is replayable from (seed, shard, history index) alone.

#[derive(Clone, Debug)]
pub struct Rng {
    s: [u64; 4],
}

fn splitmix(x: &mut u64) -> u64 {
    *x = x.wrapping_add(0x9E3779B97F4A7C15);
    let mut z = *x;
    z = (z ^ (z >> 30)).wrapping_mul(0xBF58476D1CE4E5B9);
    z = (z ^ (z >> 27)).wrapping_mul(0x94D049BB133111EB);
    z ^ (z >> 31)
}

impl Rng {
    pub fn new(seed: u64) -> Rng {
        let mut x = seed ^ 0x5851F42D4C957F2D;
        Rng { s: [splitmix(&mut x), splitmix(&mut x), splitmix(&mut x), splitmix(&mut x)] }
    }

    /// Derive an independent stream
    pub fn fork(&mut self, tag: u64) -> Rng {
        Rng::new(self.next_u64() ^ tag.wrapping_mul(0xD6E8FEB86659FD93))
    }

    pub fn next_u64(&mut self) -> u64 {
        let r = self.s[1].wrapping_mul(5).rotate_left(7).wrapping_mul(9);
        let t = self.s[1] << 17;
        self.s[2] ^= self.s[0];
        self.s[3] ^= self.s[1];
        self.s[1] ^= self.s[2];
        self.s[0] ^= self.s[3];
        self.s[2] ^= t;
        self.s[3] = self.s[3].rotate_left(45);
        r
    }

    /// Uniform in [0, n)
    pub fn below(&mut self, n: u64) -> u64 {
        if n == 0 {
            return 0;
        }
        ((self.next_u64() as u128 * n as u128) >> 64) as u64
    }

    /// Uniform in [lo, hi] inclusive
    pub fn range(&mut self, lo: u64, hi: u64) -> u64 {
        if hi <= lo {
            return lo;
        }
        let span = hi - lo;
        if span == u64::MAX {
            return self.next_u64();
        }
        lo + self.below(span + 1)
    }

    pub fn usize(&mut self, n: usize) -> usize {
        self.below(n as u64) as usize
    }

    /// true with probability num/den
    pub fn chance(&mut self, num: u64, den: u64) -> bool {
        self.below(den) < num
    }

    pub fn bool(&mut self) -> bool {
        self.next_u64() & 1 == 1
    }

    pub fn pick<'a, T>(&mut self, xs: &'a [T]) -> &'a T {
        &xs[self.usize(xs.len())]
    }

    /// Weighted choice: returns index
    pub fn weighted(&mut self, weights: &[u32]) -> usize {
        let total: u64 = weights.iter().map(|w| *w as u64).sum();
        let mut x = self.below(total.max(1));
        for (i, w) in weights.iter().enumerate() {
            if x < *w as u64 {
                return i;
            }
            x -= *w as u64;
        }
        weights.len() - 1
    }

    pub fn bytes<const N: usize>(&mut self) -> [u8; N] {
        let mut out = [0u8; N];
        for chunk in out.chunks_mut(8) {
            let v = self.next_u64().to_le_bytes();
            chunk.copy_from_slice(&v[..chunk.len()]);
        }
        out
    }

    pub fn vec(&mut self, len: usize) -> Vec<u8> {
        let mut out = vec![0u8; len];
        for chunk in out.chunks_mut(8) {
            let v = self.next_u64().to_le_bytes();
            chunk.copy_from_slice(&v[..chunk.len()]);
        }
        out
    }

    pub fn shuffle<T>(&mut self, xs: &mut [T]) {
        for i in (1..xs.len()).rev() {
            let j = self.usize(i + 1);
            xs.swap(i, j);
        }
    }

    /// A value near `b`: b-1, b, b+1 mostly, sometimes far
    pub fn near(&mut self, b: u64) -> u64 {
        match self.below(8) {
            0 => b.saturating_sub(1),
            1 => b,
            2 => b.saturating_add(1),
            3 => b.saturating_sub(self.below(10)),
            4 => b.saturating_add(self.below(10)),
            5 => b / 2,
            6 => b.saturating_mul(2),
            _ => b,
        }
    }
}

/// FNV-1a, stable across runs (std's DefaultHasher is too, but this is explicit)
pub fn fnv(data: &[u8]) -> u64 {
    let mut h: u64 = 0xcbf29ce484222325;
    for b in data {
        h ^= *b as u64;
        h = h.wrapping_mul(0x100000001b3);
    }
    h
}

pub fn fnv_str(s: &str) -> u64 {
    fnv(s.as_bytes())
}
