//! Independent reference computations (no vls-core code): HKDF-SHA256, native channel key
//! derivation, BOLT-3 per-commitment secret tree.

use bitcoin::hashes::{sha256, Hash, HashEngine, Hmac, HmacEngine};
use lightning_signer::bitcoin;

pub fn hmac_sha256(key: &[u8], data: &[u8]) -> [u8; 32] {
    let mut e = HmacEngine::<sha256::Hash>::new(key);
    e.input(data);
    Hmac::<sha256::Hash>::from_engine(e).to_byte_array()
}

/// RFC 5869 HKDF-SHA256 extract-and-expand
pub fn hkdf(salt: &[u8], ikm: &[u8], info: &[u8], out_len: usize) -> Vec<u8> {
    let zero = [0u8; 32];
    let salt = if salt.is_empty() { &zero[..] } else { salt };
    let prk = hmac_sha256(salt, ikm);
    let mut out = Vec::with_capacity(out_len);
    let mut t: Vec<u8> = vec![];
    let mut counter = 1u8;
    while out.len() < out_len {
        let mut data = t.clone();
        data.extend_from_slice(info);
        data.push(counter);
        t = hmac_sha256(&prk, &data).to_vec();
        out.extend_from_slice(&t);
        counter = counter.wrapping_add(1);
    }
    out.truncate(out_len);
    out
}

/// Native ("c-lightning") style: commitment seed of the channel with initial id `channel_id0`
pub fn native_commitment_seed(node_seed: &[u8], channel_id0: &[u8]) -> [u8; 32] {
    let keys = native_channel_key_material(node_seed, channel_id0);
    let mut s = [0u8; 32];
    s.copy_from_slice(&keys[160..192]);
    s
}

/// funding, revocation base, htlc base, payment, delayed payment base, commitment seed
pub fn native_channel_key_material(node_seed: &[u8], channel_id0: &[u8]) -> Vec<u8> {
    let channel_seed_base = hkdf(&[], node_seed, b"peer seed", 32);
    let keys_id = hkdf(channel_id0, &channel_seed_base, b"per-peer seed", 32);
    hkdf(&[], &keys_id, b"c-lightning", 192)
}

/// BOLT-3 generate_from_seed with the backwards-counting index I
pub fn bolt3_secret_from_seed(seed: &[u8; 32], index: u64) -> [u8; 32] {
    let mut p = *seed;
    for b in (0..48).rev() {
        if index & (1u64 << b) != 0 {
            p[b / 8] ^= 1 << (b % 8);
            p = sha256::Hash::hash(&p).to_byte_array();
        }
    }
    p
}

pub const INITIAL_COMMITMENT_NUMBER: u64 = (1 << 48) - 1;

/// Secret of (forward counting) commitment number n
pub fn commitment_secret(seed: &[u8; 32], n: u64) -> [u8; 32] {
    bolt3_secret_from_seed(seed, INITIAL_COMMITMENT_NUMBER.wrapping_sub(n) & INITIAL_COMMITMENT_NUMBER)
}

/// Identify which commitment number (among candidates) a disclosed secret belongs to.
pub fn identify_secret(seed: &[u8; 32], secret: &[u8; 32], upper: u64) -> Option<u64> {
    for n in 0..=upper {
        if &commitment_secret(seed, n) == secret {
            return Some(n);
        }
    }
    // the far end of the 48-bit space (wrap-around candidates)
    for j in 0..64u64 {
        let n = INITIAL_COMMITMENT_NUMBER - j;
        if &commitment_secret(seed, n) == secret {
            return Some(n);
        }
    }
    None
}

/// BOLT-3 derive_secret: can `base` at index `base_index` (with `bits` trailing zero bits
/// free) derive the secret at `index`?  Returns the derived secret.
pub fn bolt3_derive(base: &[u8; 32], bits: u32, index: u64) -> [u8; 32] {
    let mut p = *base;
    for b in (0..bits as usize).rev() {
        if index & (1u64 << b) != 0 {
            p[b / 8] ^= 1 << (b % 8);
            p = sha256::Hash::hash(&p).to_byte_array();
        }
    }
    p
}

#[cfg(test)]
mod tests {
    use super::*;
    #[test]
    fn bolt3_vectors() {
        // BOLT-3 appendix D
        let seed = [0u8; 32];
        let s = bolt3_secret_from_seed(&seed, 281474976710655);
        assert_eq!(hex::encode(s), "02a40c85b6f28da08dfdbe0926c53fab2de6d28c10301f8f7c4073d5e42e3148");
        let seed = [0xffu8; 32];
        let s = bolt3_secret_from_seed(&seed, 281474976710655);
        assert_eq!(hex::encode(s), "7cc854b54e3e0dcdb010d7a3fee464a9687be6e8db3be6854c475621e007a5dc");
        let s = bolt3_secret_from_seed(&seed, 0xaaaaaaaaaaa);
        assert_eq!(hex::encode(s), "56f4008fb007ca9acf0e15b054d5c9fd12ee06cea347914ddbaed70d1c13a528");
    }
    #[test]
    fn hkdf_vector() {
        // RFC 5869 test case 1
        let ikm = [0x0bu8; 22];
        let salt: Vec<u8> = (0u8..=0x0c).collect();
        let info: Vec<u8> = (0xf0u8..=0xf9).collect();
        let okm = hkdf(&salt, &ikm, &info, 42);
        assert_eq!(
            hex::encode(okm),
            "3cb25f25faacd57a90434f64d0362f2a2d2d0a90cf1a5a4c5db02d56ecc4c5bf34007208d5b887185865"
        );
    }
}
