//! Whole-signer snapshots for the "refused request changes nothing" (C10) and
//! "acknowledged change is durable" (C11) monitors.
//!
//! A snapshot is a map label -> canonical string.  Everything is read through public API:
//! serialized EnforcementState per channel, ChannelSetup, NodeStateEntry (sorted, velocity
//! controls aged to "now" because bucket ageing is not a state change), routed payments,
//! allowlist, ChainTrackerEntry (tip, height, headers, per-listener monitor State + ListenSlot)
//! and the full store dump.

use crate::world::World;
use lightning_signer::channel::{ChannelId, ChannelSlot};
use lightning_signer::node::Node;
use lightning_signer::util::velocity::VelocityControl as CoreVelocityControl;
use serde_json::Value;
use std::collections::BTreeMap;
use std::sync::Arc;
use vls_persist::model::{ChainTrackerEntry, NodeStateEntry};

pub type Snapshot = BTreeMap<String, String>;

fn sort_array(v: &mut Value, key: &str) {
    if let Some(a) = v.get_mut(key).and_then(|x| x.as_array_mut()) {
        a.sort_by_key(|e| e.to_string());
    }
}

fn aged(vc: vls_persist::model::VelocityControl, now: u64) -> vls_persist::model::VelocityControl {
    let mut core: CoreVelocityControl = vc.into();
    if now >= core.start_sec {
        let _ = core.insert(now, 0);
    }
    core.into()
}

/// Node-level part: node state entry (canonicalised), payments, allowlist
pub fn node_state_parts(node: &Arc<Node>, now: u64, out: &mut Snapshot, with_velocity: bool) {
    let state = node.get_state();
    let mut entry: NodeStateEntry = (&*state).into();
    let vc = std::mem::replace(
        &mut entry.velocity_control,
        CoreVelocityControl::new_unlimited(1, 1).into(),
    );
    let fvc = std::mem::replace(
        &mut entry.fee_velocity_control,
        CoreVelocityControl::new_unlimited(1, 1).into(),
    );
    let vc = aged(vc, now);
    let fvc = aged(fvc, now);
    let mut v = serde_json::to_value(&entry).unwrap_or(Value::Null);
    sort_array(&mut v, "invoices");
    sort_array(&mut v, "issued_invoices");
    sort_array(&mut v, "preimages");
    if let Some(o) = v.as_object_mut() {
        o.remove("velocity_control");
        o.remove("fee_velocity_control");
        for (k, val) in o.iter() {
            out.insert(format!("node.{}", k), val.to_string());
        }
    }
    if with_velocity {
        out.insert("node.velocity_control".into(), serde_json::to_string(&vc).unwrap_or_default());
        out.insert("node.fee_velocity_control".into(), serde_json::to_string(&fvc).unwrap_or_default());
    }
    let mut pays: Vec<String> = state
        .payments
        .iter()
        .map(|(h, p)| format!("{}:{:?}", hex::encode(h.0), p))
        .collect();
    pays.sort();
    out.insert("node.payments".into(), pays.join("|"));
    out.insert("node.excess_amount".into(), state.excess_amount.to_string());
    let network = lightning_signer::wallet::Wallet::network(&**node);
    let mut allow: Vec<String> = state
        .allowlist
        .iter()
        .map(|a| lightning_signer::node::ToStringForNetwork::to_string(a, network))
        .collect();
    allow.sort();
    out.insert("node.allowlist".into(), allow.join("|"));
}

pub fn channel_parts(node: &Arc<Node>, out: &mut Snapshot) {
    let channels: Vec<(ChannelId, Arc<lightning_signer::prelude::Mutex<ChannelSlot>>)> =
        node.get_channels().iter().map(|(k, v)| (k.clone(), v.clone())).collect();
    for (id, slot) in channels {
        let slot = slot.lock().unwrap();
        let label = format!("chan.{}", hex::encode(id.as_slice()));
        match &*slot {
            ChannelSlot::Stub(s) => {
                out.insert(label, format!("stub blockheight={}", s.blockheight));
            }
            ChannelSlot::Ready(c) => {
                out.insert(
                    format!("{}.estate", label),
                    serde_json::to_string(&c.enforcement_state).unwrap_or_default(),
                );
                out.insert(format!("{}.setup", label), format!("{:?}", c.setup));
                out.insert(format!("{}.id", label), format!("{:?}/{:?}", c.id0, c.id));
            }
        }
    }
}

pub fn tracker_parts(node: &Arc<Node>, out: &mut Snapshot) {
    let tracker = node.get_tracker();
    let entry: ChainTrackerEntry = (&*tracker).into();
    let v = serde_json::to_value(&entry).unwrap_or(Value::Null);
    if let Some(o) = v.as_object() {
        for (k, val) in o.iter() {
            if k == "listeners" {
                if let Some(a) = val.as_array() {
                    for l in a {
                        let key = l.get(0).map(|x| x.to_string()).unwrap_or_default();
                        out.insert(format!("tracker.listener.{}", key), l.to_string());
                    }
                    out.insert("tracker.listener_count".into(), a.len().to_string());
                }
            } else {
                out.insert(format!("tracker.{}", k), val.to_string());
            }
        }
    }
}

pub fn store_parts(world: &World, out: &mut Snapshot) {
    for (k, ver, val) in world.store.dump() {
        out.insert(format!("store.{}", k), format!("v{}:{}", ver, String::from_utf8_lossy(&val)));
    }
}

/// Full snapshot of the running signer + its store
pub fn take(world: &World) -> Snapshot {
    let mut s = Snapshot::new();
    let now = world.now();
    node_state_parts(&world.node, now, &mut s, true);
    channel_parts(&world.node, &mut s);
    tracker_parts(&world.node, &mut s);
    store_parts(world, &mut s);
    s
}

/// In-memory state only (for comparing a running node with one restored from its store)
pub fn take_memory(node: &Arc<Node>, now: u64, with_velocity: bool) -> Snapshot {
    let mut s = Snapshot::new();
    node_state_parts(node, now, &mut s, with_velocity);
    channel_parts(node, &mut s);
    tracker_parts(node, &mut s);
    s
}

/// Labels whose value differs (or which exist on one side only)
pub fn diff(a: &Snapshot, b: &Snapshot) -> Vec<(String, String, String)> {
    let mut out = vec![];
    for (k, va) in a {
        match b.get(k) {
            Some(vb) if vb == va => {}
            Some(vb) => out.push((k.clone(), va.clone(), vb.clone())),
            None => out.push((k.clone(), va.clone(), "<absent>".into())),
        }
    }
    for (k, vb) in b {
        if !a.contains_key(k) {
            out.push((k.clone(), "<absent>".into(), vb.clone()));
        }
    }
    out
}

/// Shorten values for witnesses: show the differing region only
pub fn brief(d: &[(String, String, String)]) -> Value {
    let cut = |s: &str| -> String {
        if s.len() > 600 {
            format!("{}…({} bytes)", &s[..s.char_indices().nth(600).map(|x| x.0).unwrap_or(s.len())], s.len())
        } else {
            s.to_string()
        }
    };
    Value::Array(
        d.iter()
            .take(8)
            .map(|(k, a, b)| {
                // common prefix trimmed
                let pre = a.bytes().zip(b.bytes()).take_while(|(x, y)| x == y).count();
                let start = pre.saturating_sub(40);
                let sa = a.get(start..).unwrap_or(a);
                let sb = b.get(start..).unwrap_or(b);
                serde_json::json!({"label": k, "before": cut(sa), "after": cut(sb), "common_prefix_len": pre})
            })
            .collect(),
    )
}
