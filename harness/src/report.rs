//! Verdict discipline, evidence files, known findings, CLI.
//!
//! Three-valued verdicts: exit 0 = held on what was observed, exit 1 = violated
//! (`VIOLATION property=<id> replay=<path>`), exit 2 = inconclusive (harness problem,
//! too few relevant events).  Known findings (committed /verif/known_findings.json) are
//! matched by exact signature and reported as `KNOWN-FINDING:` lines.

use serde_json::{json, Map, Value};
use std::collections::{BTreeMap, BTreeSet, HashSet};
use std::path::PathBuf;
use std::time::Instant;

#[derive(Clone, Copy, Debug, PartialEq, Eq)]
pub enum Tier {
    Quick,
    Thorough,
}

impl Tier {
    pub fn name(&self) -> &'static str {
        match self {
            Tier::Quick => "quick",
            Tier::Thorough => "thorough",
        }
    }
    pub fn is_quick(&self) -> bool {
        *self == Tier::Quick
    }
    /// pick by tier
    pub fn pick<T>(&self, quick: T, thorough: T) -> T {
        match self {
            Tier::Quick => quick,
            Tier::Thorough => thorough,
        }
    }
}

#[derive(Clone, Debug)]
pub struct Cli {
    pub prop: String,
    pub tier: Tier,
    pub seed: u64,
    pub replay: Option<String>,
    pub threads: usize,
    pub profile: String,
    pub append: bool,
    /// scale factor for budgets (percent), for experiments
    pub scale: u64,
    pub extra: BTreeMap<String, String>,
}

pub fn verif_root() -> PathBuf {
    if let Ok(r) = std::env::var("VERIF_ROOT") {
        return PathBuf::from(r);
    }
    let cwd = std::env::current_dir().unwrap_or_else(|_| PathBuf::from("/verif"));
    if cwd.join("MANIFEST.json").exists() || cwd.join("properties.jsonl").exists() {
        return cwd;
    }
    PathBuf::from("/verif")
}

impl Cli {
    pub fn parse(default_prop: &str) -> Cli {
        let mut cli = Cli {
            prop: default_prop.to_string(),
            tier: match std::env::var("VERIF_TIER").ok().as_deref() {
                Some("thorough") => Tier::Thorough,
                _ => Tier::Quick,
            },
            seed: std::env::var("VERIF_SEED").ok().and_then(|s| s.trim().parse::<u64>().ok()).unwrap_or(1),
            replay: None,
            threads: std::thread::available_parallelism().map(|n| n.get()).unwrap_or(8).min(16),
            profile: "release".to_string(),
            append: false,
            scale: 100,
            extra: BTreeMap::new(),
        };
        let args: Vec<String> = std::env::args().skip(1).collect();
        let mut i = 0;
        while i < args.len() {
            let a = args[i].as_str();
            let mut val = || {
                i += 1;
                args.get(i).cloned().unwrap_or_else(|| {
                    eprintln!("INCONCLUSIVE: missing value for {}", a);
                    std::process::exit(2)
                })
            };
            match a {
                "--prop" => cli.prop = val(),
                "--tier" => {
                    cli.tier = match val().as_str() {
                        "thorough" => Tier::Thorough,
                        _ => Tier::Quick,
                    }
                }
                "--seed" => cli.seed = val().parse().unwrap_or(1),
                "--replay" => cli.replay = Some(val()),
                "--threads" => cli.threads = val().parse().unwrap_or(8),
                "--profile" => cli.profile = val(),
                "--scale" => cli.scale = val().parse().unwrap_or(100),
                "--append" => cli.append = true,
                other if other.starts_with("--") => {
                    let k = other.trim_start_matches("--").to_string();
                    let v = val();
                    cli.extra.insert(k, v);
                }
                _ => {}
            }
            i += 1;
        }
        cli
    }

    pub fn scaled(&self, n: u64) -> u64 {
        (n as u128 * self.scale as u128 / 100).max(1) as u64
    }
}

#[derive(Clone, Debug)]
pub struct Violation {
    pub signature: String,
    pub detail: Value,
}

/// Per-run (or per-shard) collector.  Shards are merged with `merge`.
pub struct Report {
    pub prop: String,
    pub evaluations: u64,
    pub distinct: HashSet<u64>,
    pub samples: Vec<Value>,
    pub max_samples: usize,
    pub counters: BTreeMap<String, u64>,
    pub sets: BTreeMap<String, BTreeSet<String>>,
    /// appended to every violation signature while set (see `violation`)
    pub sig_suffix: String,
    pub violations: Vec<Violation>,
    pub notes: BTreeSet<String>,
    pub inconclusive: Vec<String>,
}

impl Report {
    pub fn new(prop: &str) -> Report {
        Report {
            prop: prop.to_string(),
            evaluations: 0,
            distinct: HashSet::new(),
            samples: vec![],
            max_samples: 6,
            counters: BTreeMap::new(),
            sets: BTreeMap::new(),
            violations: vec![],
            notes: BTreeSet::new(),
            inconclusive: vec![],
            sig_suffix: String::new(),
        }
    }

    pub fn eval(&mut self, n: u64) {
        self.evaluations += n;
    }

    pub fn count(&mut self, key: &str) {
        *self.counters.entry(key.to_string()).or_insert(0) += 1;
    }

    pub fn count_n(&mut self, key: &str, n: u64) {
        *self.counters.entry(key.to_string()).or_insert(0) += n;
    }

    pub fn get(&self, key: &str) -> u64 {
        self.counters.get(key).copied().unwrap_or(0)
    }

    /// Record a distinct non-trivial situation by a stable hash
    pub fn distinct_hash(&mut self, h: u64) {
        self.distinct.insert(h);
    }

    pub fn distinct_str(&mut self, s: &str) {
        self.distinct.insert(crate::rng::fnv_str(s));
    }

    /// Small named sets (e.g. error tags seen) reported literally (capped)
    pub fn set_add(&mut self, set: &str, item: &str) {
        let s = self.sets.entry(set.to_string()).or_default();
        if s.len() < 400 {
            s.insert(item.to_string());
        }
    }

    pub fn sample(&mut self, v: Value) {
        if self.samples.len() < self.max_samples {
            self.samples.push(v);
        }
    }

    pub fn note(&mut self, s: &str) {
        if self.notes.len() < 50 {
            self.notes.insert(s.to_string());
        }
    }

    pub fn violation(&mut self, signature: &str, detail: Value) {
        // a driver may qualify every signature raised while a special circumstance (an injected fault) holds
        let qualified = format!("{}{}", signature, self.sig_suffix);
        let signature = qualified.as_str();
        // keep at most a handful per signature
        let same = self.violations.iter().filter(|v| v.signature == signature).count();
        self.count(&format!("violation:{}", signature));
        if same < 3 && self.violations.len() < 200 {
            self.violations.push(Violation { signature: signature.to_string(), detail });
        }
    }

    pub fn inconclusive(&mut self, why: &str) {
        if self.inconclusive.len() < 20 {
            self.inconclusive.push(why.to_string());
        }
    }

    pub fn merge(&mut self, other: Report) {
        self.evaluations += other.evaluations;
        self.distinct.extend(other.distinct);
        for s in other.samples {
            if self.samples.len() < self.max_samples {
                self.samples.push(s);
            }
        }
        for (k, v) in other.counters {
            *self.counters.entry(k).or_insert(0) += v;
        }
        for (k, v) in other.sets {
            let s = self.sets.entry(k).or_default();
            for i in v {
                if s.len() < 400 {
                    s.insert(i);
                }
            }
        }
        for v in other.violations {
            let same = self.violations.iter().filter(|x| x.signature == v.signature).count();
            if same < 3 && self.violations.len() < 200 {
                self.violations.push(v);
            }
        }
        self.notes.extend(other.notes);
        self.inconclusive.extend(other.inconclusive);
    }

    /// Demand a minimum number of observations of a counter, else the run is inconclusive
    pub fn require(&mut self, key: &str, min: u64) {
        let got = self.get(key);
        if got < min {
            self.inconclusive(&format!("counter '{}' = {} < required {}", key, got, min));
        }
    }
}

pub struct KnownFinding {
    pub property: String,
    pub signature: String,
    pub what: String,
}

pub fn load_known_findings() -> Vec<KnownFinding> {
    let path = verif_root().join("known_findings.json");
    let mut out = vec![];
    if let Ok(s) = std::fs::read_to_string(&path) {
        if let Ok(v) = serde_json::from_str::<Value>(&s) {
            if let Some(arr) = v.get("findings").and_then(|f| f.as_array()) {
                for f in arr {
                    out.push(KnownFinding {
                        property: f["property"].as_str().unwrap_or("").to_string(),
                        signature: f["signature"].as_str().unwrap_or("").to_string(),
                        what: f["what"].as_str().unwrap_or("").to_string(),
                    });
                }
            }
        }
    }
    out
}

pub struct FinishSpec<'a> {
    pub cli: &'a Cli,
    pub level: &'a str,
    pub rule: &'a str,
    pub assumptions: Vec<String>,
    pub start: Instant,
    pub extra_coverage: Map<String, Value>,
}

/// Write evidence, print verdict lines, exit.
pub fn finish(report: Report, spec: FinishSpec) -> ! {
    let code = finish_noexit(report, spec);
    std::process::exit(code)
}

pub fn finish_noexit(mut report: Report, spec: FinishSpec) -> i32 {
    let cli = spec.cli;
    let root = verif_root();
    let known = load_known_findings();
    let prop = report.prop.clone();

    // split violations into known / new
    let mut new_violations: Vec<Violation> = vec![];
    let mut known_hits: BTreeMap<String, (String, u64)> = BTreeMap::new();
    for v in report.violations.drain(..) {
        if let Some(k) = known.iter().find(|k| k.property == prop && k.signature == v.signature) {
            let total = report.counters.get(&format!("violation:{}", k.signature)).copied().unwrap_or(1);
            let e = known_hits.entry(k.signature.clone()).or_insert((k.what.clone(), 0));
            e.1 = total;
        } else {
            new_violations.push(v);
        }
    }

    // artifacts for new violations
    let art_dir = root.join("artifacts").join(&prop);
    let _ = std::fs::create_dir_all(&art_dir);
    let mut lines = vec![];
    let mut seen_sigs = BTreeSet::new();
    for (i, v) in new_violations.iter().enumerate() {
        let path = art_dir.join(format!(
            "{}-{}-{}-{:016x}-{}.json",
            cli.tier.name(),
            cli.profile,
            cli.seed,
            crate::rng::fnv_str(&v.signature),
            i
        ));
        let body = json!({
            "property": prop,
            "signature": v.signature,
            "tier": cli.tier.name(),
            "seed": cli.seed,
            "profile": cli.profile,
            "scale": cli.scale,
            "extra": cli.extra,
            "replay_cmd": format!("./check {} --replay {}", prop, path.display()),
            "detail": v.detail,
        });
        let _ = std::fs::write(&path, serde_json::to_string_pretty(&body).unwrap_or_default());
        if seen_sigs.insert(v.signature.clone()) {
            lines.push(format!(
                "VIOLATION property={} replay={} signature={}",
                prop,
                path.display(),
                v.signature
            ));
        }
    }

    let distinct_n = report.distinct.len() as u64;
    if report.evaluations == 0 {
        report.inconclusive("no evaluations were executed");
    }
    if distinct_n < 2 {
        report.inconclusive("fewer than 2 distinct non-trivial situations observed");
    }
    if report.samples.is_empty() {
        report.samples.push(json!("(no sample recorded)"));
    }

    let mut coverage = Map::new();
    coverage.insert("evaluations".into(), json!(report.evaluations));
    coverage.insert("distinct_nontrivial".into(), json!(distinct_n));
    coverage.insert("rule".into(), json!(spec.rule));
    coverage.insert("samples".into(), Value::Array(report.samples.clone()));
    coverage.insert("counters".into(), json!(report.counters));
    coverage.insert("observed_sets".into(), json!(report.sets));
    coverage.insert("profile".into(), json!(cli.profile));
    coverage.insert(
        "known_findings_observed".into(),
        json!(known_hits
            .iter()
            .map(|(s, (w, n))| json!({"signature": s, "what": w, "times": n}))
            .collect::<Vec<_>>()),
    );
    coverage.insert(
        "new_violation_signatures".into(),
        json!(seen_sigs.iter().cloned().collect::<Vec<_>>()),
    );
    coverage.insert("notes".into(), json!(report.notes));
    coverage.insert("inconclusive_reasons".into(), json!(report.inconclusive));
    for (k, v) in spec.extra_coverage {
        coverage.insert(k, v);
    }

    let wall = spec.start.elapsed().as_secs_f64();
    // a replay (./check --replay) writes its evidence elsewhere, so that the evidence of the last full run stays
    let ev_dir = std::env::var("VERIF_EVIDENCE_DIR").map(PathBuf::from).unwrap_or_else(|_| root.join("evidence"));
    let ev_path = ev_dir.join(format!("{}.json", prop));
    let _ = std::fs::create_dir_all(&ev_dir);

    let mut evidence = json!({
        "property_id": prop,
        "tier": cli.tier.name(),
        "seed": cli.seed,
        "level": spec.level,
        "coverage": Value::Object(coverage.clone()),
        "assumptions": spec.assumptions,
        "wall_s": wall,
        "violations": new_violations.len(),
    });

    if cli.append {
        if let Ok(s) = std::fs::read_to_string(&ev_path) {
            if let Ok(prev) = serde_json::from_str::<Value>(&s) {
                if prev["tier"] == json!(cli.tier.name()) && prev["seed"] == json!(cli.seed) {
                    // merge: sum evaluations, max distinct, keep per-run coverages
                    let pc = &prev["coverage"];
                    let mut runs: Vec<Value> =
                        pc.get("runs").and_then(|r| r.as_array()).cloned().unwrap_or_else(|| {
                            let mut c = pc.clone();
                            if let Some(o) = c.as_object_mut() {
                                o.remove("runs");
                            }
                            vec![c]
                        });
                    runs.push(Value::Object(coverage.clone()));
                    let ev_sum: u64 =
                        runs.iter().map(|r| r["evaluations"].as_u64().unwrap_or(0)).sum();
                    let dn_max: u64 = runs
                        .iter()
                        .map(|r| r["distinct_nontrivial"].as_u64().unwrap_or(0))
                        .max()
                        .unwrap_or(0);
                    let mut merged = coverage.clone();
                    merged.insert("evaluations".into(), json!(ev_sum));
                    merged.insert("distinct_nontrivial".into(), json!(dn_max));
                    merged.insert(
                        "rule".into(),
                        json!(format!(
                            "{} [several runs merged: evaluations summed, distinct_nontrivial = max over runs]",
                            spec.rule
                        )),
                    );
                    merged.insert("runs".into(), Value::Array(runs));
                    evidence["coverage"] = Value::Object(merged);
                    evidence["wall_s"] = json!(wall + prev["wall_s"].as_f64().unwrap_or(0.0));
                    evidence["violations"] = json!(
                        new_violations.len() as u64 + prev["violations"].as_u64().unwrap_or(0)
                    );
                }
            }
        }
    }
    if let Err(e) = std::fs::write(&ev_path, serde_json::to_string_pretty(&evidence).unwrap_or_default()) {
        eprintln!("INCONCLUSIVE: cannot write evidence {}: {}", ev_path.display(), e);
        return 2;
    }

    for (sig, (what, n)) in known_hits.iter() {
        println!("KNOWN-FINDING: property={} {} [signature={} observed {}x]", prop, what, sig, n);
    }
    println!(
        "{} {} seed={} profile={}: evaluations={} distinct={} violations={} known={} wall={:.1}s",
        prop,
        cli.tier.name(),
        cli.seed,
        cli.profile,
        report.evaluations,
        distinct_n,
        new_violations.len(),
        known_hits.len(),
        wall
    );
    if !new_violations.is_empty() {
        for l in lines {
            println!("{}", l);
        }
        return 1;
    }
    if !report.inconclusive.is_empty() {
        for r in &report.inconclusive {
            println!("INCONCLUSIVE property={} {}", prop, r);
        }
        return 2;
    }
    0
}

/// Run `shards` closures on up to `threads` OS threads, merging their reports.
pub fn run_sharded<F>(prop: &str, threads: usize, shards: usize, f: F) -> Report
where
    F: Fn(usize, &mut Report) + Sync,
{
    let mut total = Report::new(prop);
    let next = std::sync::atomic::AtomicUsize::new(0);
    let results: std::sync::Mutex<Vec<Report>> = std::sync::Mutex::new(vec![]);
    std::thread::scope(|s| {
        for _ in 0..threads.max(1).min(shards.max(1)) {
            s.spawn(|| loop {
                let i = next.fetch_add(1, std::sync::atomic::Ordering::SeqCst);
                if i >= shards {
                    break;
                }
                let mut r = Report::new(prop);
                let res = std::panic::catch_unwind(std::panic::AssertUnwindSafe(|| f(i, &mut r)));
                if let Err(e) = res {
                    let msg = panic_message(&e);
                    r.inconclusive(&format!("harness panic in shard {}: {}", i, msg));
                }
                results.lock().unwrap().push(r);
            });
        }
    });
    for r in results.into_inner().unwrap() {
        total.merge(r);
    }
    total
}

pub fn panic_message(e: &Box<dyn std::any::Any + Send>) -> String {
    if let Some(s) = e.downcast_ref::<&str>() {
        s.to_string()
    } else if let Some(s) = e.downcast_ref::<String>() {
        s.clone()
    } else {
        "non-string panic".to_string()
    }
}

thread_local! {
    static LAST_PANIC: std::cell::RefCell<Option<String>> = std::cell::RefCell::new(None);
}

/// Install a quiet panic hook that remembers message+location per thread.
pub fn install_quiet_panic_hook() {
    std::panic::set_hook(Box::new(|info| {
        let loc = info.location().map(|l| format!("{}:{}", l.file(), l.line())).unwrap_or_default();
        let msg = if let Some(s) = info.payload().downcast_ref::<&str>() {
            s.to_string()
        } else if let Some(s) = info.payload().downcast_ref::<String>() {
            s.clone()
        } else {
            "?".to_string()
        };
        LAST_PANIC.with(|p| *p.borrow_mut() = Some(format!("{} @ {}", msg, loc)));
        if let Ok(v) = std::env::var("VERIF_SHOW_PANICS") {
            eprintln!("panic: {} @ {}", msg, loc);
            if v == "2" && loc.starts_with("src/") {
                eprintln!("{}", std::backtrace::Backtrace::force_capture());
            }
        }
    }));
}

pub fn take_last_panic() -> Option<String> {
    LAST_PANIC.with(|p| p.borrow_mut().take())
}

/// Run a closure catching panics; returns Err(message @ location) on panic.
pub fn catch<T>(f: impl FnOnce() -> T) -> Result<T, String> {
    match std::panic::catch_unwind(std::panic::AssertUnwindSafe(f)) {
        Ok(v) => Ok(v),
        Err(e) => Err(take_last_panic().unwrap_or_else(|| panic_message(&e))),
    }
}
