//! Runtime-monitoring harness for validating-lightning-signer (see /verif/DESIGN.md).
pub mod chanmodel;
pub mod oracle;
pub mod report;
pub mod rng;
pub mod sched;
pub mod snapshot;
pub mod world;

pub use report::{Cli, FinishSpec, Report, Tier};
pub use rng::Rng;
