//! Cooperative scheduler driven by the lock observer hook (`--cfg vls_verif`,
//! vls-core/src/verif_sync.rs).
//!
//! Real OS threads run the real code, but only the thread holding the baton runs; at every
//! lock attempt and after every unlock the baton may pass to another runnable thread chosen
//! by a seeded strategy.  The scheduler knows who owns which lock and who wants which, so
//! "every unfinished thread waits for a lock owned by another waiting thread" is detected
//! exactly (wait-for cycle) — that, not a timeout, is the deadlock verdict.
//!
//! Several schedules can run in parallel in one process: the association thread -> schedule is
//! thread-local, unmanaged threads are not affected.

use crate::rng::Rng;
use lightning_signer::verif_sync::{set_lock_observer, LockObserver};
use std::cell::RefCell;
use std::collections::HashMap;
use std::sync::{Arc, Condvar, Mutex};
use std::time::{Duration, Instant};

#[derive(Clone, Debug, PartialEq)]
enum St {
    NotStarted,
    Ready,
    Wants(usize, &'static str),
    Running,
    Finished,
}

#[derive(Clone, Copy, Debug, PartialEq, Eq)]
pub enum Strategy {
    RandomWalk,
    /// PCT-like: fixed random priorities with `d` priority change points
    Pct(u32),
    /// run thread 0 to completion, then 1, ... (sanity)
    Sequential,
}

pub struct Deadlock {
    /// (thread, wanted lock class, owner thread)
    pub waits: Vec<(usize, String, usize)>,
    /// per thread: classes of the locks it holds
    pub holds: Vec<Vec<String>>,
}

struct State {
    st: Vec<St>,
    baton: Option<usize>,
    owner: HashMap<usize, (usize, &'static str)>,
    rng: Rng,
    strategy: Strategy,
    prio: Vec<u64>,
    change_points: Vec<u64>,
    steps: u64,
    trace_hash: u64,
    trace: Vec<(usize, char, &'static str)>,
    deadlock: Option<Deadlock>,
    aborted: bool,
    edges: Vec<(String, String)>,
}

pub struct Sched {
    state: Mutex<State>,
    cv: Condvar,
    started: Instant,
    pub budget: Duration,
}

thread_local! {
    static CURRENT: RefCell<Option<(Arc<Sched>, usize)>> = RefCell::new(None);
}

pub const ABORT_MSG: &str = "VERIF_SCHED_ABORT";

struct Obs;

impl LockObserver for Obs {
    fn before_lock(&self, class: &'static str, addr: usize) {
        let cur = CURRENT.with(|c| c.borrow().clone());
        if let Some((s, i)) = cur {
            s.before_lock(i, class, addr);
        }
    }
    fn after_lock(&self, class: &'static str, addr: usize) {
        let cur = CURRENT.with(|c| c.borrow().clone());
        if let Some((s, i)) = cur {
            s.after_lock(i, class, addr);
        }
    }
    fn after_unlock(&self, class: &'static str, addr: usize) {
        let cur = CURRENT.with(|c| c.borrow().clone());
        if let Some((s, i)) = cur {
            s.after_unlock(i, class, addr);
        }
    }
}

pub fn install_observer() {
    set_lock_observer(Some(Arc::new(Obs)));
}

fn short(class: &'static str) -> String {
    // type names are long: keep the last path segments of the outermost type
    let c = class.replace("lightning_signer::", "").replace("alloc::", "").replace("collections::btree::map::", "");
    c.chars().take(60).collect()
}

impl Sched {
    pub fn new(n: usize, seed: u64, strategy: Strategy) -> Arc<Sched> {
        let mut rng = Rng::new(seed);
        let prio: Vec<u64> = (0..n).map(|_| rng.next_u64() | 1 << 40).collect();
        let change_points = match strategy {
            Strategy::Pct(d) => (0..d).map(|_| rng.below(60)).collect(),
            _ => vec![],
        };
        Arc::new(Sched {
            state: Mutex::new(State {
                st: vec![St::NotStarted; n],
                baton: None,
                owner: HashMap::new(),
                rng,
                strategy,
                prio,
                change_points,
                steps: 0,
                trace_hash: 0xcbf29ce484222325,
                trace: vec![],
                deadlock: None,
                aborted: false,
                edges: vec![],
            }),
            cv: Condvar::new(),
            started: Instant::now(),
            budget: Duration::from_secs(20),
        })
    }

    fn runnable(st: &State) -> Vec<usize> {
        let mut v = vec![];
        for (i, s) in st.st.iter().enumerate() {
            match s {
                St::Ready => v.push(i),
                St::Wants(a, _) => {
                    if !st.owner.contains_key(a) {
                        v.push(i)
                    }
                }
                _ => {}
            }
        }
        v
    }

    /// choose the next thread to run; returns false on deadlock/finish
    fn pass_baton(&self, st: &mut State) {
        st.steps += 1;
        if st.st.iter().any(|s| *s == St::NotStarted) {
            // wait until all threads registered, the last one to register passes the baton
            st.baton = None;
            return;
        }
        let run = Self::runnable(st);
        if run.is_empty() {
            st.baton = None;
            if st.st.iter().all(|s| *s == St::Finished) {
                return;
            }
            // deadlock: every unfinished thread wants an owned lock
            let mut waits = vec![];
            for (i, s) in st.st.iter().enumerate() {
                if let St::Wants(a, class) = s {
                    let owner = st.owner.get(a).map(|o| o.0).unwrap_or(usize::MAX);
                    waits.push((i, short(class), owner));
                }
            }
            let mut holds = vec![vec![]; st.st.len()];
            for (_, (t, class)) in st.owner.iter() {
                holds[*t].push(short(class));
            }
            for h in holds.iter_mut() {
                h.sort();
            }
            st.deadlock = Some(Deadlock { waits, holds });
            st.aborted = true;
            return;
        }
        let next = match st.strategy {
            Strategy::Sequential => run[0],
            Strategy::RandomWalk => run[st.rng.usize(run.len())],
            Strategy::Pct(_) => {
                let step = st.steps;
                if st.change_points.contains(&step) {
                    // lower the priority of the currently highest runnable thread
                    if let Some(&hi) = run.iter().max_by_key(|i| st.prio[**i]) {
                        st.prio[hi] = st.rng.below(1 << 30);
                    }
                }
                *run.iter().max_by_key(|i| st.prio[**i]).unwrap()
            }
        };
        st.baton = Some(next);
    }

    fn wait_for_baton(&self, i: usize, mut st: std::sync::MutexGuard<'_, State>, may_panic: bool) {
        loop {
            if st.aborted {
                drop(st);
                if may_panic {
                    std::panic::panic_any(ABORT_MSG);
                }
                return;
            }
            if st.baton == Some(i) {
                st.st[i] = St::Running;
                return;
            }
            if self.started.elapsed() > self.budget {
                st.aborted = true;
                self.cv.notify_all();
                continue;
            }
            let (g, _) = self.cv.wait_timeout(st, Duration::from_millis(200)).unwrap_or_else(|e| e.into_inner());
            st = g;
        }
    }

    /// Called by a managed thread before it starts issuing requests
    pub fn enter(self: &Arc<Sched>, i: usize) {
        CURRENT.with(|c| *c.borrow_mut() = Some((self.clone(), i)));
        let mut st = self.state.lock().unwrap_or_else(|e| e.into_inner());
        st.st[i] = St::Ready;
        if st.st.iter().all(|s| *s != St::NotStarted) && st.baton.is_none() {
            self.pass_baton(&mut st);
            self.cv.notify_all();
        }
        self.wait_for_baton(i, st, false);
    }

    /// Called by a managed thread when it has finished (also on unwind)
    pub fn leave(self: &Arc<Sched>, i: usize) {
        CURRENT.with(|c| *c.borrow_mut() = None);
        let mut st = self.state.lock().unwrap_or_else(|e| e.into_inner());
        st.st[i] = St::Finished;
        // locks still registered to this thread (unwinding order) are released by their guards
        if !st.aborted {
            self.pass_baton(&mut st);
        }
        self.cv.notify_all();
    }

    fn record(st: &mut State, i: usize, ev: char, class: &'static str) {
        let mut h = st.trace_hash;
        for b in [i as u8, ev as u8].iter().chain(class.as_bytes().iter()) {
            h ^= *b as u64;
            h = h.wrapping_mul(0x100000001b3);
        }
        st.trace_hash = h;
        if st.trace.len() < 400 {
            st.trace.push((i, ev, class));
        }
    }

    fn before_lock(&self, i: usize, class: &'static str, addr: usize) {
        if std::thread::panicking() {
            // a destructor locking during unwinding: never panic again, just let the real lock happen
            return;
        }
        let mut st = self.state.lock().unwrap_or_else(|e| e.into_inner());
        if st.aborted {
            drop(st);
            std::panic::panic_any(ABORT_MSG);
        }
        Self::record(&mut st, i, 'w', class);
        // lock-order edges: every lock held by this thread -> the wanted one
        let held: Vec<String> = st.owner.values().filter(|(t, _)| *t == i).map(|(_, c)| short(c)).collect();
        for hcl in held {
            let e = (hcl, short(class));
            if !st.edges.contains(&e) && st.edges.len() < 200 {
                st.edges.push(e);
            }
        }
        st.st[i] = St::Wants(addr, class);
        self.pass_baton(&mut st);
        self.cv.notify_all();
        self.wait_for_baton(i, st, true);
    }

    fn after_lock(&self, i: usize, class: &'static str, addr: usize) {
        let mut st = self.state.lock().unwrap_or_else(|e| e.into_inner());
        st.owner.insert(addr, (i, class));
        Self::record(&mut st, i, 'a', class);
    }

    fn after_unlock(&self, i: usize, class: &'static str, addr: usize) {
        let mut st = self.state.lock().unwrap_or_else(|e| e.into_inner());
        if st.owner.get(&addr).map(|o| o.0) == Some(i) {
            st.owner.remove(&addr);
        }
        Self::record(&mut st, i, 'r', class);
        if st.aborted || std::thread::panicking() {
            self.cv.notify_all();
            return;
        }
        if st.baton != Some(i) {
            return;
        }
        // a switch point right after a release
        st.st[i] = St::Ready;
        self.pass_baton(&mut st);
        self.cv.notify_all();
        self.wait_for_baton(i, st, false);
    }

    pub fn take_deadlock(&self) -> Option<Deadlock> {
        self.state.lock().unwrap_or_else(|e| e.into_inner()).deadlock.take()
    }

    pub fn timed_out(&self) -> bool {
        let st = self.state.lock().unwrap_or_else(|e| e.into_inner());
        st.aborted && st.deadlock.is_none() && self.started.elapsed() > self.budget
    }

    pub fn trace_hash(&self) -> u64 {
        self.state.lock().unwrap_or_else(|e| e.into_inner()).trace_hash
    }

    pub fn steps(&self) -> u64 {
        self.state.lock().unwrap_or_else(|e| e.into_inner()).steps
    }

    pub fn edges(&self) -> Vec<(String, String)> {
        self.state.lock().unwrap_or_else(|e| e.into_inner()).edges.clone()
    }

    pub fn trace(&self) -> Vec<String> {
        self.state
            .lock()
            .unwrap_or_else(|e| e.into_inner())
            .trace
            .iter()
            .map(|(i, ev, c)| format!("t{}{}:{}", i, ev, short(c)))
            .collect()
    }
}
