//! The signer-under-test world: a real `Node` built the way `HandlerBuilder::build` does,
//! over a real persister, with a manual clock, restart and crash-copy.

use lightning_signer::bitcoin::secp256k1::PublicKey;
use lightning_signer::bitcoin::Network;
use lightning_signer::node::{Node, NodeConfig, NodeServices};
use lightning_signer::persist::Persist;
use lightning_signer::policy::onchain_validator::OnchainValidatorFactory;
use lightning_signer::policy::simple_validator::{
    make_default_simple_policy, SimplePolicy, SimpleValidatorFactory,
};
use lightning_signer::policy::validator::ValidatorFactory;
use lightning_signer::signer::derive::KeyDerivationStyle;
use lightning_signer::signer::StartingTimeFactory;
use lightning_signer::util::clock::{Clock, ManualClock};
use lightning_signer::util::test_utils::FixedStartingTimeFactory;
use std::sync::Arc;
use std::time::Duration;
use vls_persist::kvv::cloud::CloudKVVStore;
use vls_persist::kvv::memory::MemoryKVVStore;
use vls_persist::kvv::{JsonFormat, KVVPersister, KVVStore, KVV};

pub type MemPersister = KVVPersister<FaultyKVV<MemoryKVVStore>, JsonFormat>;

/// Fault injection at the storage backend: a pass-through `KVVStore` whose next `armed` writing calls fail with
/// `Error::Unavailable` ("temporarily unavailable, might work later") without touching the inner store.
/// Never armed unless a driver asks for it.
pub struct FaultyKVV<L: KVVStore> {
    pub inner: L,
    armed: std::sync::atomic::AtomicU64,
    fired: std::sync::atomic::AtomicU64,
    /// writing calls still let through before the armed failures begin
    skip: std::sync::atomic::AtomicU64,
}

impl<L: KVVStore> FaultyKVV<L> {
    pub fn new(inner: L) -> Self {
        FaultyKVV { inner, armed: Default::default(), fired: Default::default(), skip: Default::default() }
    }
    /// after `skip` more writing calls, the next `n` writing calls fail
    pub fn arm(&self, skip: u64, n: u64) {
        self.skip.store(skip, std::sync::atomic::Ordering::SeqCst);
        self.armed.store(n, std::sync::atomic::Ordering::SeqCst);
    }
    /// stop failing; returns how many calls were failed since the last `disarm`
    pub fn disarm(&self) -> u64 {
        self.armed.store(0, std::sync::atomic::Ordering::SeqCst);
        self.skip.store(0, std::sync::atomic::Ordering::SeqCst);
        self.fired.swap(0, std::sync::atomic::Ordering::SeqCst)
    }
    fn trip(&self) -> Result<(), lightning_signer::persist::Error> {
        use std::sync::atomic::Ordering::SeqCst;
        if self.armed.load(SeqCst) > 0 && self.skip.load(SeqCst) > 0 {
            self.skip.fetch_sub(1, SeqCst);
            return Ok(());
        }
        let mut cur = self.armed.load(SeqCst);
        while cur > 0 {
            match self.armed.compare_exchange(cur, cur - 1, SeqCst, SeqCst) {
                Ok(_) => {
                    self.fired.fetch_add(1, SeqCst);
                    return Err(lightning_signer::persist::Error::Unavailable("injected storage failure".into()));
                }
                Err(c) => cur = c,
            }
        }
        Ok(())
    }
}

/// A handle to a store shared with the harness (which keeps it to arm faults, dump and copy it)
pub struct SharedKVV(pub Arc<FaultyKVV<MemoryKVVStore>>);

impl lightning_signer::SendSync for SharedKVV {}

impl KVVStore for SharedKVV {
    type Iter = <MemoryKVVStore as KVVStore>::Iter;
    fn put(&self, key: &str, value: Vec<u8>) -> Result<(), lightning_signer::persist::Error> {
        self.0.put(key, value)
    }
    fn put_with_version(&self, key: &str, version: u64, value: Vec<u8>) -> Result<(), lightning_signer::persist::Error> {
        self.0.put_with_version(key, version, value)
    }
    fn put_batch(&self, kvvs: Vec<KVV>) -> Result<(), lightning_signer::persist::Error> {
        self.0.put_batch(kvvs)
    }
    fn get(&self, key: &str) -> Result<Option<(u64, Vec<u8>)>, lightning_signer::persist::Error> {
        self.0.get(key)
    }
    fn get_version(&self, key: &str) -> Result<Option<u64>, lightning_signer::persist::Error> {
        self.0.get_version(key)
    }
    fn get_prefix(&self, prefix: &str) -> Result<Self::Iter, lightning_signer::persist::Error> {
        self.0.get_prefix(prefix)
    }
    fn delete(&self, key: &str) -> Result<(), lightning_signer::persist::Error> {
        self.0.delete(key)
    }
    fn clear_database(&self) -> Result<(), lightning_signer::persist::Error> {
        self.0.clear_database()
    }
    fn reset_versions(&self) -> Result<(), lightning_signer::persist::Error> {
        self.0.reset_versions()
    }
    fn signer_id(&self) -> lightning_signer::persist::SignerId {
        self.0.signer_id()
    }
}

pub type SharedPersister = KVVPersister<SharedKVV, JsonFormat>;
pub type BackupComposite = vls_persist::backup_persister::BackupPersister<SharedPersister, SharedPersister>;

impl<L: KVVStore> lightning_signer::SendSync for FaultyKVV<L> {}

impl<L: KVVStore> KVVStore for FaultyKVV<L> {
    type Iter = L::Iter;
    fn put(&self, key: &str, value: Vec<u8>) -> Result<(), lightning_signer::persist::Error> {
        self.trip()?;
        self.inner.put(key, value)
    }
    fn put_with_version(&self, key: &str, version: u64, value: Vec<u8>) -> Result<(), lightning_signer::persist::Error> {
        self.trip()?;
        self.inner.put_with_version(key, version, value)
    }
    fn put_batch(&self, kvvs: Vec<KVV>) -> Result<(), lightning_signer::persist::Error> {
        self.trip()?;
        self.inner.put_batch(kvvs)
    }
    fn get(&self, key: &str) -> Result<Option<(u64, Vec<u8>)>, lightning_signer::persist::Error> {
        self.inner.get(key)
    }
    fn get_version(&self, key: &str) -> Result<Option<u64>, lightning_signer::persist::Error> {
        self.inner.get_version(key)
    }
    fn get_prefix(&self, prefix: &str) -> Result<Self::Iter, lightning_signer::persist::Error> {
        self.inner.get_prefix(prefix)
    }
    fn delete(&self, key: &str) -> Result<(), lightning_signer::persist::Error> {
        self.trip()?;
        self.inner.delete(key)
    }
    fn clear_database(&self) -> Result<(), lightning_signer::persist::Error> {
        self.inner.clear_database()
    }
    fn reset_versions(&self) -> Result<(), lightning_signer::persist::Error> {
        self.inner.reset_versions()
    }
    fn signer_id(&self) -> lightning_signer::persist::SignerId {
        self.inner.signer_id()
    }
}
pub type CloudPersister = KVVPersister<CloudKVVStore<MemoryKVVStore>, JsonFormat>;

pub const SIGNER_ID: [u8; 16] = [7u8; 16];

#[derive(Clone)]
pub enum Store {
    Mem(Arc<MemPersister>),
    Cloud(Arc<CloudPersister>),
    /// main + backup composite (vls-persist BackupPersister); the signer restarts from the main store
    Backup { main: Arc<FaultyKVV<MemoryKVVStore>>, backup: Arc<FaultyKVV<MemoryKVVStore>>, persister: Arc<BackupComposite> },
}

pub type Dump = Vec<(String, u64, Vec<u8>)>;

/// What an external (cloud) store holds after receiving every `Mutations` object the signer reported from
/// `prepare()`: per key the highest version seen.  A mutation that does not raise the version of its key is a
/// put conflict there; it is recorded, never applied.
#[derive(Default)]
pub struct External {
    pub kv: std::collections::BTreeMap<String, (u64, Vec<u8>)>,
    pub conflicts: Vec<String>,
    pub batches: u64,
}

impl External {
    pub fn apply(&mut self, muts: &[(String, (u64, Vec<u8>))]) {
        if muts.is_empty() {
            return;
        }
        self.batches += 1;
        for (k, (ver, val)) in muts {
            match self.kv.get(k) {
                Some((have, hv)) if *ver < *have || (*ver == *have && hv != val) =>
                    self.conflicts.push(format!("{} reported at version {} but the external store has version {}", k, ver, have)),
                _ => {
                    self.kv.insert(k.clone(), (*ver, val.clone()));
                }
            }
        }
    }
}

impl Store {
    pub fn new_mem() -> Store {
        Store::Mem(Arc::new(KVVPersister(FaultyKVV::new(MemoryKVVStore::new(SIGNER_ID)), JsonFormat)))
    }
    /// storage faults (in-memory backend only): after `skip` writing calls the next `n` fail
    pub fn arm_faults(&self, skip: u64, n: u64) {
        match self {
            Store::Mem(p) => p.0.arm(skip, n),
            Store::Backup { main, .. } => main.arm(skip, n),
            _ => {}
        }
    }
    /// stop failing; how many writes were failed
    pub fn disarm_faults(&self) -> u64 {
        match self {
            Store::Mem(p) => p.0.disarm(),
            Store::Backup { main, .. } => main.disarm(),
            _ => 0,
        }
    }
    pub fn new_cloud() -> Store {
        Store::Cloud(Arc::new(KVVPersister(
            CloudKVVStore::new(MemoryKVVStore::new(SIGNER_ID)),
            JsonFormat,
        )))
    }
    pub fn new_backup() -> Store {
        Self::backup_from(MemoryKVVStore::new(SIGNER_ID), MemoryKVVStore::new(SIGNER_ID))
    }
    fn backup_from(m: MemoryKVVStore, b: MemoryKVVStore) -> Store {
        let main = Arc::new(FaultyKVV::new(m));
        let backup = Arc::new(FaultyKVV::new(b));
        let persister = Arc::new(BackupComposite::new(
            KVVPersister(SharedKVV(main.clone()), JsonFormat),
            KVVPersister(SharedKVV(backup.clone()), JsonFormat),
        ));
        Store::Backup { main, backup, persister }
    }
    pub fn is_backup(&self) -> bool {
        matches!(self, Store::Backup { .. })
    }
    /// contents of the backup store of a composite
    pub fn dump_backup(&self) -> Dump {
        match self {
            Store::Backup { backup, .. } => backup.get_prefix("").expect("get_prefix").map(|k| (k.0, k.1 .0, k.1 .1)).collect(),
            _ => vec![],
        }
    }
    /// composite only: the next `n` writes to the BACKUP store fail
    pub fn arm_backup_faults(&self, n: u64) {
        if let Store::Backup { backup, .. } = self {
            backup.arm(0, n);
        }
    }
    pub fn disarm_backup_faults(&self) -> u64 {
        match self {
            Store::Backup { backup, .. } => backup.disarm(),
            _ => 0,
        }
    }
    pub fn as_persist(&self) -> Arc<dyn Persist> {
        match self {
            Store::Mem(p) => p.clone(),
            Store::Cloud(p) => p.clone(),
            Store::Backup { persister, .. } => persister.clone(),
        }
    }
    pub fn is_cloud(&self) -> bool {
        matches!(self, Store::Cloud(_))
    }
    /// Full dump of the committed (local) store contents
    pub fn dump(&self) -> Dump {
        let it: Vec<KVV> = match self {
            Store::Mem(p) => p.0.get_prefix("").expect("get_prefix").collect(),
            Store::Cloud(p) => p.0.get_prefix("").expect("get_prefix").collect(),
            Store::Backup { main, .. } => main.get_prefix("").expect("get_prefix").collect(),
        };
        it.into_iter().map(|k| (k.0, k.1 .0, k.1 .1)).collect()
    }
    /// A new independent store with the same committed contents
    pub fn deep_copy(&self) -> Store {
        let d = self.dump();
        let kvvs: Vec<KVV> = d.into_iter().map(|(k, v, vv)| KVV(k, (v, vv))).collect();
        match self {
            Store::Mem(_) => {
                let s = MemoryKVVStore::new(SIGNER_ID);
                s.put_batch(kvvs).expect("copy");
                Store::Mem(Arc::new(KVVPersister(FaultyKVV::new(s), JsonFormat)))
            }
            Store::Cloud(_) => {
                let s = MemoryKVVStore::new(SIGNER_ID);
                s.put_batch(kvvs).expect("copy");
                Store::Cloud(Arc::new(KVVPersister(CloudKVVStore::new(s), JsonFormat)))
            }
            Store::Backup { .. } => {
                let m = MemoryKVVStore::new(SIGNER_ID);
                m.put_batch(kvvs).expect("copy");
                let b = MemoryKVVStore::new(SIGNER_ID);
                let bk: Vec<KVV> = self.dump_backup().into_iter().map(|(k, v, vv)| KVV(k, (v, vv))).collect();
                b.put_batch(bk).expect("copy");
                Self::backup_from(m, b)
            }
        }
    }
}

#[derive(Clone, Copy, Debug, PartialEq, Eq)]
pub enum ValidatorKind {
    Simple,
    Onchain,
}

#[derive(Clone)]
pub struct WorldCfg {
    pub network: Network,
    pub style: KeyDerivationStyle,
    pub seed: [u8; 32],
    pub policy: SimplePolicy,
    pub validator: ValidatorKind,
    pub oracles: Vec<PublicKey>,
    pub cloud: bool,
    /// main + backup composite store (ignored when `cloud`)
    pub backup: bool,
    pub start_time: u64,
}

impl WorldCfg {
    pub fn regtest(seed: [u8; 32]) -> WorldCfg {
        WorldCfg {
            network: Network::Regtest,
            style: KeyDerivationStyle::Native,
            seed,
            policy: make_default_simple_policy(Network::Regtest),
            validator: ValidatorKind::Simple,
            oracles: vec![],
            cloud: false,
            backup: false,
            start_time: 1_700_000_000,
        }
    }

    pub fn factory(&self) -> Arc<dyn ValidatorFactory> {
        let simple = SimpleValidatorFactory::new_with_policy(self.policy.clone());
        match self.validator {
            ValidatorKind::Simple => Arc::new(simple),
            ValidatorKind::Onchain =>
                Arc::new(OnchainValidatorFactory::new_with_simple_factory(simple)),
        }
    }
}

pub struct World {
    pub cfg: WorldCfg,
    pub store: Store,
    pub clock: Arc<ManualClock>,
    pub node: Arc<Node>,
    pub restarts: u64,
    /// cloud mode only: replica built from the reported mutations alone
    pub external: Arc<std::sync::Mutex<External>>,
    /// cloud mode only: keys of the mutations the last `request` prepared
    pub last_mutations: Arc<std::sync::Mutex<Vec<String>>>,
}

fn starting_time_factory() -> Arc<dyn StartingTimeFactory> {
    FixedStartingTimeFactory::new(1, 1)
}

pub fn services(cfg: &WorldCfg, store: &Store, clock: Arc<ManualClock>) -> NodeServices {
    NodeServices {
        validator_factory: cfg.factory(),
        starting_time_factory: starting_time_factory(),
        persister: store.as_persist(),
        clock: clock as Arc<dyn Clock>,
        trusted_oracle_pubkeys: cfg.oracles.clone(),
    }
}

/// Build (new or restored) exactly as HandlerBuilder::build does
pub fn build_node(cfg: &WorldCfg, store: &Store, clock: Arc<ManualClock>) -> Result<Arc<Node>, String> {
    build_node_ext(cfg, store, clock, None)
}

pub fn build_node_ext(
    cfg: &WorldCfg,
    store: &Store,
    clock: Arc<ManualClock>,
    external: Option<&Arc<std::sync::Mutex<External>>>,
) -> Result<Arc<Node>, String> {
    let svc = services(cfg, store, clock);
    let persister = store.as_persist();
    let cloud = store.is_cloud();
    if cloud {
        persister.enter().map_err(|e| format!("enter: {:?}", e))?;
    }
    let nodes = persister.get_nodes().map_err(|e| format!("get_nodes: {:?}", e))?;
    let node = if nodes.is_empty() {
        let config = NodeConfig {
            network: cfg.network,
            key_derivation_style: cfg.style,
            use_checkpoints: true,
            allow_deep_reorgs: false,
        };
        let node = Arc::new(Node::new(config, &cfg.seed, vec![], svc));
        persister
            .new_node(&node.get_id(), &config, &*node.get_state())
            .map_err(|e| format!("new_node: {:?}", e))?;
        persister
            .new_tracker(&node.get_id(), &node.get_tracker())
            .map_err(|e| format!("new_tracker: {:?}", e))?;
        // HandlerBuilder::build calls add_allowlist(&[]) which persists an (empty) allowlist
        node.add_allowlist(&[]).map_err(|e| format!("allowlist: {:?}", e))?;
        node
    } else {
        if nodes.len() != 1 {
            return Err(format!("{} nodes in store", nodes.len()));
        }
        let (node_id, entry) = nodes.into_iter().next().unwrap();
        Node::restore_node(&node_id, entry, &cfg.seed, svc).map_err(|e| format!("restore: {:?}", e))?
    };
    if cloud {
        let muts = persister.prepare();
        if let Some(x) = external {
            x.lock().unwrap().apply(muts.inner());
        }
        persister.commit().map_err(|e| format!("commit: {:?}", e))?;
    }
    Ok(node)
}

impl World {
    pub fn new(cfg: WorldCfg) -> World {
        let store = if cfg.cloud { Store::new_cloud() } else if cfg.backup { Store::new_backup() } else { Store::new_mem() };
        let clock = Arc::new(ManualClock::new(Duration::from_secs(cfg.start_time)));
        let external = Arc::new(std::sync::Mutex::new(External::default()));
        let node = build_node_ext(&cfg, &store, clock.clone(), Some(&external)).expect("new node");
        World { cfg, store, clock, node, restarts: 0, external, last_mutations: Default::default() }
    }

    pub fn now(&self) -> u64 {
        self.clock.now().as_secs()
    }

    pub fn advance_time(&self, secs: u64) {
        let now = self.clock.now();
        self.clock.set(now + Duration::from_secs(secs));
    }

    /// Drop the running node and rebuild it from the store alone
    pub fn restart(&mut self) -> Result<(), String> {
        let node = build_node_ext(&self.cfg, &self.store, self.clock.clone(), Some(&self.external))?;
        self.node = node;
        self.restarts += 1;
        Ok(())
    }

    /// A second signer restored from a deep copy of the store (the first keeps running)
    pub fn crash_copy(&self) -> Result<(Store, Arc<Node>), String> {
        let copy = self.store.deep_copy();
        let clock = Arc::new(ManualClock::new(self.clock.now()));
        let node = build_node(&self.cfg, &copy, clock)?;
        Ok((copy, node))
    }

    /// Composite (main + backup) store: a signer restored from what the BACKUP store holds alone - the recovery
    /// after the main store was lost, which is what the backup is kept for
    pub fn crash_copy_backup(&self) -> Result<(Store, Arc<Node>), String> {
        let kvvs: Vec<KVV> = self.store.dump_backup().into_iter().map(|(k, v, vv)| KVV(k, (v, vv))).collect();
        let s = MemoryKVVStore::new(SIGNER_ID);
        s.put_batch(kvvs).map_err(|e| format!("backup store not loadable: {:?}", e))?;
        let copy = Store::Mem(Arc::new(KVVPersister(FaultyKVV::new(s), JsonFormat)));
        let clock = Arc::new(ManualClock::new(self.clock.now()));
        let node = build_node(&self.cfg, &copy, clock)?;
        Ok((copy, node))
    }

    /// Cloud mode: a signer restored from what the external store holds, i.e. from the reported mutations
    /// alone (the restart after a crash between `prepare` and `commit`, or on another machine)
    pub fn crash_copy_external(&self) -> Result<(Store, Arc<Node>), String> {
        let kvvs: Vec<KVV> =
            self.external.lock().unwrap().kv.iter().map(|(k, (v, vv))| KVV(k.clone(), (*v, vv.clone()))).collect();
        let s = MemoryKVVStore::new(SIGNER_ID);
        s.put_batch(kvvs).map_err(|e| format!("external replica not loadable: {:?}", e))?;
        let copy = Store::Cloud(Arc::new(KVVPersister(CloudKVVStore::new(s), JsonFormat)));
        let clock = Arc::new(ManualClock::new(self.clock.now()));
        let node = build_node(&self.cfg, &copy, clock)?;
        Ok((copy, node))
    }

    /// Run one request in the daemon's persist cycle (enter / handle / prepare / commit).
    /// Returns the closure's result and the number of mutations prepared.
    pub fn request<T>(&self, f: impl FnOnce(&Arc<Node>) -> T) -> (T, usize) {
        if self.store.is_cloud() {
            let p = self.store.as_persist();
            p.enter().expect("enter");
            let r = f(&self.node);
            let muts = p.prepare();
            let n = muts.len();
            *self.last_mutations.lock().unwrap() = muts.inner().iter().map(|m| m.0.clone()).collect();
            self.external.lock().unwrap().apply(muts.inner());
            p.commit().expect("commit");
            (r, n)
        } else {
            (f(&self.node), 0)
        }
    }
}

impl World {
    /// Connect one empty block (valid header + proof), persisting the tracker as the
    /// root handler's AddBlock does.
    pub fn add_empty_block(&self) -> Result<(), String> {
        use lightning_signer::util::test_utils::make_testnet_header;
        let node = &self.node;
        let mut tracker = node.get_tracker();
        let (header, proof) = make_testnet_header(tracker.tip(), tracker.height());
        tracker.add_block(header, proof).map_err(|e| format!("{:?}", e))?;
        node.get_persister()
            .update_tracker(&node.get_id(), &tracker)
            .map_err(|e| format!("persist tracker: {:?}", e))?;
        Ok(())
    }
}

impl World {
    fn dummy_block_txs(height: u32) -> Vec<lightning_signer::bitcoin::Transaction> {
        use lightning_signer::bitcoin::absolute::LockTime;
        use lightning_signer::bitcoin::transaction::Version;
        vec![lightning_signer::bitcoin::Transaction {
            version: Version::non_standard(0),
            lock_time: LockTime::from_consensus(height),
            input: vec![],
            output: vec![],
        }]
    }

    fn persist_tracker(&self) -> Result<(), String> {
        let node = &self.node;
        let tracker = node.get_tracker();
        node.get_persister()
            .update_tracker(&node.get_id(), &tracker)
            .map_err(|e| format!("persist tracker: {:?}", e))
    }

    /// An add_block request that must be refused.  kind 0: orphan (random prev hash),
    /// 1: proof built for another block, 2: inline full-block proof (unsupported).
    /// Returns Ok(()) if the tracker ACCEPTED it (the caller decides what that means).
    pub fn add_bad_block(&self, kind: u8, salt: u64) -> Result<(), String> {
        use lightning_signer::bitcoin::hashes::Hash;
        use lightning_signer::bitcoin::{merkle_tree, Block, BlockHash, TxMerkleNode};
        use lightning_signer::txoo::proof::TxoProof;
        use lightning_signer::util::test_utils::mine_header_with_bits;
        let r = {
            let mut tracker = self.node.get_tracker();
            let height = tracker.height();
            let tip = tracker.tip().clone();
            let txs = Self::dummy_block_txs(height + 1);
            let root = merkle_tree::calculate_root(txs.iter().map(|t| t.compute_txid().to_raw_hash())).unwrap();
            let root = TxMerkleNode::from_raw_hash(root.into());
            let bits = tip.0.bits;
            match kind {
                0 => {
                    let mut h = [0x5au8; 32];
                    h[..8].copy_from_slice(&salt.to_le_bytes());
                    let header = mine_header_with_bits(BlockHash::from_byte_array(h), root, bits);
                    let block = Block { header, txdata: txs };
                    let proof = TxoProof::prove_unchecked(&block, &tip.1, height + 1);
                    tracker.add_block(header, proof)
                }
                1 => {
                    let header = mine_header_with_bits(tip.0.block_hash(), root, bits);
                    let other_txs = Self::dummy_block_txs(height + 1000 + (salt % 1000) as u32);
                    let oroot = merkle_tree::calculate_root(other_txs.iter().map(|t| t.compute_txid().to_raw_hash())).unwrap();
                    let oheader = mine_header_with_bits(tip.0.block_hash(), TxMerkleNode::from_raw_hash(oroot.into()), bits);
                    let other = Block { header: oheader, txdata: other_txs };
                    let proof = TxoProof::prove_unchecked(&other, &tip.1, height + 1);
                    tracker.add_block(header, proof)
                }
                _ => {
                    let header = mine_header_with_bits(tip.0.block_hash(), root, bits);
                    let block = Block { header, txdata: txs };
                    let mut proof = TxoProof::prove_unchecked(&block, &tip.1, height + 1);
                    proof.proof = lightning_signer::txoo::proof::ProofType::Block(block.clone());
                    tracker.add_block(header, proof)
                }
            }
        };
        match r {
            Ok(()) => {
                self.persist_tracker()?;
                Ok(())
            }
            Err(e) => Err(format!("{:?}", e)),
        }
    }

    /// Disconnect the tip (it must be one of the empty blocks made by add_empty_block).
    /// `bad`: 0 = correct request, 1 = wrong previous header, 2 = proof for another block
    pub fn remove_tip_block(&self, bad: u8) -> Result<(), String> {
        use lightning_signer::bitcoin::Block;
        use lightning_signer::chain::tracker::Headers;
        use lightning_signer::txoo::proof::TxoProof;
        let r = {
            let mut tracker = self.node.get_tracker();
            let height = tracker.height();
            if height == 0 || tracker.headers().is_empty() {
                return Err("harness: nothing to remove".into());
            }
            let tip = tracker.tip().clone();
            let mut prev: Headers = tracker.headers()[0].clone();
            let txs = Self::dummy_block_txs(if bad == 2 { height + 500 } else { height });
            let block = Block { header: tip.0, txdata: txs };
            let proof = TxoProof::prove_unchecked(&block, &prev.1, height);
            if bad == 1 {
                prev = tip.clone();
            }
            tracker.remove_block(proof, prev).map(|_| ())
        };
        match r {
            Ok(()) => {
                self.persist_tracker()?;
                Ok(())
            }
            Err(e) => Err(format!("{:?}", e)),
        }
    }
}
