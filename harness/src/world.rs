//! The signer-under-test world: a real `Node` built the way `HandlerBuilder::build` does,
//! over a real persister, with a manual clock, restart and crash-copy.

use lightning_signer::bitcoin::secp256k1::PublicKey;
use lightning_signer::bitcoin::Network;
use lightning_signer::node::{Node, NodeConfig, NodeServices};
use lightning_signer::persist::Persist;
use lightning_signer::policy::onchain_validator::OnchainValidatorFactory;
use lightning_signer::policy::simple_validator::{
    make_default_simple_policy, SimplePolicy, SimpleValidatorFactory,
};
use lightning_signer::policy::validator::ValidatorFactory;
use lightning_signer::signer::derive::KeyDerivationStyle;
use lightning_signer::signer::StartingTimeFactory;
use lightning_signer::util::clock::{Clock, ManualClock};
use lightning_signer::util::test_utils::FixedStartingTimeFactory;
use std::sync::Arc;
use std::time::Duration;
use vls_persist::kvv::cloud::CloudKVVStore;
use vls_persist::kvv::memory::MemoryKVVStore;
use vls_persist::kvv::{JsonFormat, KVVPersister, KVVStore, KVV};

pub type MemPersister = KVVPersister<MemoryKVVStore, JsonFormat>;
pub type CloudPersister = KVVPersister<CloudKVVStore<MemoryKVVStore>, JsonFormat>;

pub const SIGNER_ID: [u8; 16] = [7u8; 16];

#[derive(Clone)]
pub enum Store {
    Mem(Arc<MemPersister>),
    Cloud(Arc<CloudPersister>),
}

pub type Dump = Vec<(String, u64, Vec<u8>)>;

impl Store {
    pub fn new_mem() -> Store {
        Store::Mem(Arc::new(KVVPersister(MemoryKVVStore::new(SIGNER_ID), JsonFormat)))
    }
    pub fn new_cloud() -> Store {
        Store::Cloud(Arc::new(KVVPersister(
            CloudKVVStore::new(MemoryKVVStore::new(SIGNER_ID)),
            JsonFormat,
        )))
    }
    pub fn as_persist(&self) -> Arc<dyn Persist> {
        match self {
            Store::Mem(p) => p.clone(),
            Store::Cloud(p) => p.clone(),
        }
    }
    pub fn is_cloud(&self) -> bool {
        matches!(self, Store::Cloud(_))
    }
    /// Full dump of the committed (local) store contents
    pub fn dump(&self) -> Dump {
        let it: Vec<KVV> = match self {
            Store::Mem(p) => p.0.get_prefix("").expect("get_prefix").collect(),
            Store::Cloud(p) => p.0.get_prefix("").expect("get_prefix").collect(),
        };
        it.into_iter().map(|k| (k.0, k.1 .0, k.1 .1)).collect()
    }
    /// A new independent store with the same committed contents
    pub fn deep_copy(&self) -> Store {
        let d = self.dump();
        let kvvs: Vec<KVV> = d.into_iter().map(|(k, v, vv)| KVV(k, (v, vv))).collect();
        match self {
            Store::Mem(_) => {
                let s = MemoryKVVStore::new(SIGNER_ID);
                s.put_batch(kvvs).expect("copy");
                Store::Mem(Arc::new(KVVPersister(s, JsonFormat)))
            }
            Store::Cloud(_) => {
                let s = MemoryKVVStore::new(SIGNER_ID);
                s.put_batch(kvvs).expect("copy");
                Store::Cloud(Arc::new(KVVPersister(CloudKVVStore::new(s), JsonFormat)))
            }
        }
    }
}

#[derive(Clone, Copy, Debug, PartialEq, Eq)]
pub enum ValidatorKind {
    Simple,
    Onchain,
}

#[derive(Clone)]
pub struct WorldCfg {
    pub network: Network,
    pub style: KeyDerivationStyle,
    pub seed: [u8; 32],
    pub policy: SimplePolicy,
    pub validator: ValidatorKind,
    pub oracles: Vec<PublicKey>,
    pub cloud: bool,
    pub start_time: u64,
}

impl WorldCfg {
    pub fn regtest(seed: [u8; 32]) -> WorldCfg {
        WorldCfg {
            network: Network::Regtest,
            style: KeyDerivationStyle::Native,
            seed,
            policy: make_default_simple_policy(Network::Regtest),
            validator: ValidatorKind::Simple,
            oracles: vec![],
            cloud: false,
            start_time: 1_700_000_000,
        }
    }

    pub fn factory(&self) -> Arc<dyn ValidatorFactory> {
        let simple = SimpleValidatorFactory::new_with_policy(self.policy.clone());
        match self.validator {
            ValidatorKind::Simple => Arc::new(simple),
            ValidatorKind::Onchain =>
                Arc::new(OnchainValidatorFactory::new_with_simple_factory(simple)),
        }
    }
}

pub struct World {
    pub cfg: WorldCfg,
    pub store: Store,
    pub clock: Arc<ManualClock>,
    pub node: Arc<Node>,
    pub restarts: u64,
}

fn starting_time_factory() -> Arc<dyn StartingTimeFactory> {
    FixedStartingTimeFactory::new(1, 1)
}

pub fn services(cfg: &WorldCfg, store: &Store, clock: Arc<ManualClock>) -> NodeServices {
    NodeServices {
        validator_factory: cfg.factory(),
        starting_time_factory: starting_time_factory(),
        persister: store.as_persist(),
        clock: clock as Arc<dyn Clock>,
        trusted_oracle_pubkeys: cfg.oracles.clone(),
    }
}

/// Build (new or restored) exactly as HandlerBuilder::build does
pub fn build_node(cfg: &WorldCfg, store: &Store, clock: Arc<ManualClock>) -> Result<Arc<Node>, String> {
    let svc = services(cfg, store, clock);
    let persister = store.as_persist();
    let cloud = store.is_cloud();
    if cloud {
        persister.enter().map_err(|e| format!("enter: {:?}", e))?;
    }
    let nodes = persister.get_nodes().map_err(|e| format!("get_nodes: {:?}", e))?;
    let node = if nodes.is_empty() {
        let config = NodeConfig {
            network: cfg.network,
            key_derivation_style: cfg.style,
            use_checkpoints: true,
            allow_deep_reorgs: false,
        };
        let node = Arc::new(Node::new(config, &cfg.seed, vec![], svc));
        persister
            .new_node(&node.get_id(), &config, &*node.get_state())
            .map_err(|e| format!("new_node: {:?}", e))?;
        persister
            .new_tracker(&node.get_id(), &node.get_tracker())
            .map_err(|e| format!("new_tracker: {:?}", e))?;
        // HandlerBuilder::build calls add_allowlist(&[]) which persists an (empty) allowlist
        node.add_allowlist(&[]).map_err(|e| format!("allowlist: {:?}", e))?;
        node
    } else {
        if nodes.len() != 1 {
            return Err(format!("{} nodes in store", nodes.len()));
        }
        let (node_id, entry) = nodes.into_iter().next().unwrap();
        Node::restore_node(&node_id, entry, &cfg.seed, svc).map_err(|e| format!("restore: {:?}", e))?
    };
    if cloud {
        let _muts = persister.prepare();
        persister.commit().map_err(|e| format!("commit: {:?}", e))?;
    }
    Ok(node)
}

impl World {
    pub fn new(cfg: WorldCfg) -> World {
        let store = if cfg.cloud { Store::new_cloud() } else { Store::new_mem() };
        let clock = Arc::new(ManualClock::new(Duration::from_secs(cfg.start_time)));
        let node = build_node(&cfg, &store, clock.clone()).expect("new node");
        World { cfg, store, clock, node, restarts: 0 }
    }

    pub fn now(&self) -> u64 {
        self.clock.now().as_secs()
    }

    pub fn advance_time(&self, secs: u64) {
        let now = self.clock.now();
        self.clock.set(now + Duration::from_secs(secs));
    }

    /// Drop the running node and rebuild it from the store alone
    pub fn restart(&mut self) -> Result<(), String> {
        let node = build_node(&self.cfg, &self.store, self.clock.clone())?;
        self.node = node;
        self.restarts += 1;
        Ok(())
    }

    /// A second signer restored from a deep copy of the store (the first keeps running)
    pub fn crash_copy(&self) -> Result<(Store, Arc<Node>), String> {
        let copy = self.store.deep_copy();
        let clock = Arc::new(ManualClock::new(self.clock.now()));
        let node = build_node(&self.cfg, &copy, clock)?;
        Ok((copy, node))
    }

    /// Run one request in the daemon's persist cycle (enter / handle / prepare / commit).
    /// Returns the closure's result and the number of mutations prepared.
    pub fn request<T>(&self, f: impl FnOnce(&Arc<Node>) -> T) -> (T, usize) {
        if self.store.is_cloud() {
            let p = self.store.as_persist();
            p.enter().expect("enter");
            let r = f(&self.node);
            let muts = p.prepare();
            let n = muts.len();
            p.commit().expect("commit");
            (r, n)
        } else {
            (f(&self.node), 0)
        }
    }
}

impl World {
    /// Connect one empty block (valid header + proof), persisting the tracker as the
    /// root handler's AddBlock does.
    pub fn add_empty_block(&self) -> Result<(), String> {
        use lightning_signer::util::test_utils::make_testnet_header;
        let node = &self.node;
        let mut tracker = node.get_tracker();
        let (header, proof) = make_testnet_header(tracker.tip(), tracker.height());
        tracker.add_block(header, proof).map_err(|e| format!("{:?}", e))?;
        node.get_persister()
            .update_tracker(&node.get_id(), &tracker)
            .map_err(|e| format!("persist tracker: {:?}", e))?;
        Ok(())
    }
}

impl World {
    fn dummy_block_txs(height: u32) -> Vec<lightning_signer::bitcoin::Transaction> {
        use lightning_signer::bitcoin::absolute::LockTime;
        use lightning_signer::bitcoin::transaction::Version;
        vec![lightning_signer::bitcoin::Transaction {
            version: Version::non_standard(0),
            lock_time: LockTime::from_consensus(height),
            input: vec![],
            output: vec![],
        }]
    }

    fn persist_tracker(&self) -> Result<(), String> {
        let node = &self.node;
        let tracker = node.get_tracker();
        node.get_persister()
            .update_tracker(&node.get_id(), &tracker)
            .map_err(|e| format!("persist tracker: {:?}", e))
    }

    /// An add_block request that must be refused.  kind 0: orphan (random prev hash),
    /// 1: proof built for another block, 2: inline full-block proof (unsupported).
    /// Returns Ok(()) if the tracker ACCEPTED it (the caller decides what that means).
    pub fn add_bad_block(&self, kind: u8, salt: u64) -> Result<(), String> {
        use lightning_signer::bitcoin::hashes::Hash;
        use lightning_signer::bitcoin::{merkle_tree, Block, BlockHash, TxMerkleNode};
        use lightning_signer::txoo::proof::TxoProof;
        use lightning_signer::util::test_utils::mine_header_with_bits;
        let r = {
            let mut tracker = self.node.get_tracker();
            let height = tracker.height();
            let tip = tracker.tip().clone();
            let txs = Self::dummy_block_txs(height + 1);
            let root = merkle_tree::calculate_root(txs.iter().map(|t| t.compute_txid().to_raw_hash())).unwrap();
            let root = TxMerkleNode::from_raw_hash(root.into());
            let bits = tip.0.bits;
            match kind {
                0 => {
                    let mut h = [0x5au8; 32];
                    h[..8].copy_from_slice(&salt.to_le_bytes());
                    let header = mine_header_with_bits(BlockHash::from_byte_array(h), root, bits);
                    let block = Block { header, txdata: txs };
                    let proof = TxoProof::prove_unchecked(&block, &tip.1, height + 1);
                    tracker.add_block(header, proof)
                }
                1 => {
                    let header = mine_header_with_bits(tip.0.block_hash(), root, bits);
                    let other_txs = Self::dummy_block_txs(height + 1000 + (salt % 1000) as u32);
                    let oroot = merkle_tree::calculate_root(other_txs.iter().map(|t| t.compute_txid().to_raw_hash())).unwrap();
                    let oheader = mine_header_with_bits(tip.0.block_hash(), TxMerkleNode::from_raw_hash(oroot.into()), bits);
                    let other = Block { header: oheader, txdata: other_txs };
                    let proof = TxoProof::prove_unchecked(&other, &tip.1, height + 1);
                    tracker.add_block(header, proof)
                }
                _ => {
                    let header = mine_header_with_bits(tip.0.block_hash(), root, bits);
                    let block = Block { header, txdata: txs };
                    let mut proof = TxoProof::prove_unchecked(&block, &tip.1, height + 1);
                    proof.proof = lightning_signer::txoo::proof::ProofType::Block(block.clone());
                    tracker.add_block(header, proof)
                }
            }
        };
        match r {
            Ok(()) => {
                self.persist_tracker()?;
                Ok(())
            }
            Err(e) => Err(format!("{:?}", e)),
        }
    }

    /// Disconnect the tip (it must be one of the empty blocks made by add_empty_block).
    /// `bad`: 0 = correct request, 1 = wrong previous header, 2 = proof for another block
    pub fn remove_tip_block(&self, bad: u8) -> Result<(), String> {
        use lightning_signer::bitcoin::Block;
        use lightning_signer::chain::tracker::Headers;
        use lightning_signer::txoo::proof::TxoProof;
        let r = {
            let mut tracker = self.node.get_tracker();
            let height = tracker.height();
            if height == 0 || tracker.headers().is_empty() {
                return Err("harness: nothing to remove".into());
            }
            let tip = tracker.tip().clone();
            let mut prev: Headers = tracker.headers()[0].clone();
            let txs = Self::dummy_block_txs(if bad == 2 { height + 500 } else { height });
            let block = Block { header: tip.0, txdata: txs };
            let proof = TxoProof::prove_unchecked(&block, &prev.1, height);
            if bad == 1 {
                prev = tip.clone();
            }
            tracker.remove_block(proof, prev).map(|_| ())
        };
        match r {
            Ok(()) => {
                self.persist_tracker()?;
                Ok(())
            }
            Err(e) => Err(format!("{:?}", e)),
        }
    }
}
