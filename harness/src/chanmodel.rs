//! Counterparty model + channel content model shared by the `chan`, `pay` and `conc` drivers.
//!
//! The harness plays the node *and* the channel counterparty: it holds the counterparty's
//! keys and commitment seed and builds, from harness-held parameters only (the ChannelSetup it
//! sent, the holder basepoints it got back, per-commitment points it derives independently
//! from the node seed), the BOLT-3 holder commitment and HTLC transactions with LDK chan_utils
//! primitives, and signs them as the counterparty would.

use crate::oracle;
use crate::rng::Rng;
use lightning_signer::bitcoin::hashes::{sha256, Hash};
use lightning_signer::bitcoin::secp256k1::ecdsa::Signature;
use lightning_signer::bitcoin::secp256k1::{All, Message, PublicKey, Secp256k1, SecretKey};
use lightning_signer::bitcoin::sighash::{EcdsaSighashType, SighashCache};
use lightning_signer::bitcoin::{Amount, OutPoint, Transaction, Txid};
use lightning_signer::channel::{ChannelId, ChannelSetup, CommitmentType};
use lightning_signer::lightning::chain::transaction::OutPoint as LnOutPoint;
use lightning_signer::lightning::ln::chan_utils::{
    build_htlc_transaction, derive_private_key, get_htlc_redeemscript, make_funding_redeemscript,
    ChannelPublicKeys, ChannelTransactionParameters, CommitmentTransaction,
    CounterpartyChannelTransactionParameters, HTLCOutputInCommitment, TxCreationKeys,
};
use lightning_signer::lightning::ln::channel_keys::{
    DelayedPaymentBasepoint, HtlcBasepoint, RevocationBasepoint,
};
use lightning_signer::lightning::types::payment::PaymentHash;
use lightning_signer::tx::tx::HTLCInfo2;
use serde_json::{json, Value};

pub const INITIAL_COMMITMENT_NUMBER: u64 = (1 << 48) - 1;

/// The counterparty's secret material for one channel
#[derive(Clone)]
pub struct CpKeys {
    pub funding_key: SecretKey,
    pub revocation_base_key: SecretKey,
    pub payment_key: SecretKey,
    pub delayed_payment_base_key: SecretKey,
    pub htlc_base_key: SecretKey,
    pub commitment_seed: [u8; 32],
}

fn sk(rng: &mut Rng) -> SecretKey {
    loop {
        if let Ok(k) = SecretKey::from_slice(&rng.bytes::<32>()) {
            return k;
        }
    }
}

impl CpKeys {
    pub fn generate(rng: &mut Rng) -> CpKeys {
        CpKeys {
            funding_key: sk(rng),
            revocation_base_key: sk(rng),
            payment_key: sk(rng),
            delayed_payment_base_key: sk(rng),
            htlc_base_key: sk(rng),
            commitment_seed: rng.bytes::<32>(),
        }
    }

    pub fn points(&self, secp: &Secp256k1<All>) -> ChannelPublicKeys {
        ChannelPublicKeys {
            funding_pubkey: PublicKey::from_secret_key(secp, &self.funding_key),
            revocation_basepoint: RevocationBasepoint(PublicKey::from_secret_key(
                secp,
                &self.revocation_base_key,
            )),
            payment_point: PublicKey::from_secret_key(secp, &self.payment_key),
            delayed_payment_basepoint: DelayedPaymentBasepoint(PublicKey::from_secret_key(
                secp,
                &self.delayed_payment_base_key,
            )),
            htlc_basepoint: HtlcBasepoint(PublicKey::from_secret_key(secp, &self.htlc_base_key)),
        }
    }

    /// The counterparty's per-commitment secret for its commitment n
    pub fn secret(&self, n: u64) -> SecretKey {
        SecretKey::from_slice(&oracle::commitment_secret(&self.commitment_seed, n)).expect("secret")
    }

    pub fn point(&self, secp: &Secp256k1<All>, n: u64) -> PublicKey {
        PublicKey::from_secret_key(secp, &self.secret(n))
    }
}

/// The semantic content of a commitment, from the HOLDER's (signer's) point of view
#[derive(Clone, Debug, PartialEq, Eq)]
pub struct Content {
    pub feerate_per_kw: u32,
    pub to_holder_sat: u64,
    pub to_counterparty_sat: u64,
    /// offered by the holder (outgoing payments)
    pub offered: Vec<HTLCInfo2>,
    /// received by the holder (incoming payments)
    pub received: Vec<HTLCInfo2>,
}

impl Content {
    pub fn to_json(&self) -> Value {
        let h = |v: &Vec<HTLCInfo2>| {
            v.iter()
                .map(|h| json!([h.value_sat, hex::encode(&h.payment_hash.0[..4]), h.cltv_expiry]))
                .collect::<Vec<_>>()
        };
        json!({"feerate": self.feerate_per_kw, "to_holder": self.to_holder_sat, "to_cp": self.to_counterparty_sat,
               "offered": h(&self.offered), "received": h(&self.received)})
    }

    pub fn key(&self) -> u64 {
        crate::rng::fnv_str(&self.to_json().to_string())
    }

    pub fn htlc_count(&self) -> usize {
        self.offered.len() + self.received.len()
    }
}

pub fn is_anchors(setup: &ChannelSetup) -> bool {
    setup.is_anchors()
}

pub fn commitment_weight(setup: &ChannelSetup, n_htlcs: usize) -> u64 {
    (if is_anchors(setup) { 1124 } else { 724 }) + 172 * n_htlcs as u64
}

/// fee paid by the funder for a commitment with this many HTLCs at this feerate
pub fn commitment_fee(setup: &ChannelSetup, feerate: u32, n_htlcs: usize) -> u64 {
    let w = commitment_weight(setup, n_htlcs);
    (feerate as u64 * w + 999) / 1000
}

/// Static per-channel knowledge of the harness
#[derive(Clone)]
pub struct ChanModel {
    pub id0: ChannelId,
    pub dbid: u64,
    pub peer_id: [u8; 33],
    pub setup: ChannelSetup,
    pub cp: CpKeys,
    pub cp_points: ChannelPublicKeys,
    /// holder basepoints as returned by the signer
    pub holder_points: Option<ChannelPublicKeys>,
    /// independent derivation of the holder's commitment seed (native style only)
    pub holder_commitment_seed: Option<[u8; 32]>,
}

pub fn random_setup(
    rng: &mut Rng,
    secp: &Secp256k1<All>,
    cp: &CpKeys,
    tag: u64,
) -> ChannelSetup {
    let mut txid = [0u8; 32];
    txid[..8].copy_from_slice(&tag.to_le_bytes());
    txid[8..16].copy_from_slice(&rng.next_u64().to_le_bytes());
    let commitment_type = if rng.chance(1, 2) {
        CommitmentType::StaticRemoteKey
    } else {
        CommitmentType::AnchorsZeroFeeHtlc
    };
    ChannelSetup {
        is_outbound: rng.chance(2, 3),
        channel_value_sat: rng.range(1_000_000, 10_000_000),
        push_value_msat: 0,
        funding_outpoint: OutPoint { txid: Txid::from_slice(&txid).unwrap(), vout: rng.below(3) as u32 },
        holder_selected_contest_delay: rng.range(6, 144) as u16,
        holder_shutdown_script: None,
        counterparty_points: cp.points(secp),
        counterparty_selected_contest_delay: rng.range(6, 144) as u16,
        counterparty_shutdown_script: None,
        commitment_type,
    }
}

impl ChanModel {
    pub fn features(&self) -> lightning_signer::lightning::types::features::ChannelTypeFeatures {
        self.setup.features()
    }

    pub fn channel_parameters(&self) -> ChannelTransactionParameters {
        ChannelTransactionParameters {
            holder_pubkeys: self.holder_points.clone().expect("holder points"),
            holder_selected_contest_delay: self.setup.holder_selected_contest_delay,
            is_outbound_from_holder: self.setup.is_outbound,
            counterparty_parameters: Some(CounterpartyChannelTransactionParameters {
                pubkeys: self.cp_points.clone(),
                selected_contest_delay: self.setup.counterparty_selected_contest_delay,
            }),
            funding_outpoint: Some(LnOutPoint {
                txid: self.setup.funding_outpoint.txid,
                index: self.setup.funding_outpoint.vout as u16,
            }),
            channel_type_features: self.features(),
        }
    }

    /// Holder per-commitment point for n, derived independently of the signer (native style)
    pub fn holder_point(&self, secp: &Secp256k1<All>, n: u64) -> PublicKey {
        let seed = self.holder_commitment_seed.expect("holder commitment seed");
        let s = oracle::commitment_secret(&seed, n);
        PublicKey::from_secret_key(secp, &SecretKey::from_slice(&s).expect("sk"))
    }

    pub fn htlcs_oic(content: &Content) -> Vec<HTLCOutputInCommitment> {
        let mut v = vec![];
        for h in &content.offered {
            v.push(HTLCOutputInCommitment {
                offered: true,
                amount_msat: h.value_sat * 1000,
                cltv_expiry: h.cltv_expiry,
                payment_hash: h.payment_hash,
                transaction_output_index: None,
            });
        }
        for h in &content.received {
            v.push(HTLCOutputInCommitment {
                offered: false,
                amount_msat: h.value_sat * 1000,
                cltv_expiry: h.cltv_expiry,
                payment_hash: h.payment_hash,
                transaction_output_index: None,
            });
        }
        v
    }

    /// The holder's commitment transaction number n with this content (BOLT-3 via LDK)
    pub fn build_holder_commitment(
        &self,
        secp: &Secp256k1<All>,
        n: u64,
        content: &Content,
    ) -> (CommitmentTransaction, TxCreationKeys) {
        let holder = self.holder_points.as_ref().expect("holder points");
        let point = self.holder_point(secp, n);
        let keys = TxCreationKeys::derive_new(
            secp,
            &point,
            &holder.delayed_payment_basepoint,
            &holder.htlc_basepoint,
            &self.cp_points.revocation_basepoint,
            &self.cp_points.htlc_basepoint,
        );
        let params = self.channel_parameters();
        let directed = params.as_holder_broadcastable();
        let mut htlcs: Vec<(HTLCOutputInCommitment, ())> =
            Self::htlcs_oic(content).into_iter().map(|h| (h, ())).collect();
        let mut tx = CommitmentTransaction::new_with_auxiliary_htlc_data(
            INITIAL_COMMITMENT_NUMBER.wrapping_sub(n),
            content.to_holder_sat,
            content.to_counterparty_sat,
            holder.funding_pubkey,
            self.cp_points.funding_pubkey,
            keys.clone(),
            content.feerate_per_kw,
            &mut htlcs,
            &directed,
        );
        if self.setup.is_anchors() {
            tx = tx.with_non_zero_fee_anchors();
        }
        (tx, keys)
    }

    /// Counterparty signatures (commitment + one per HTLC, in the transaction's HTLC order)
    /// on the holder commitment n with this content.
    pub fn cp_sign_holder_commitment(
        &self,
        secp: &Secp256k1<All>,
        n: u64,
        content: &Content,
    ) -> (Signature, Vec<Signature>) {
        let holder = self.holder_points.as_ref().expect("holder points");
        let (tx, keys) = self.build_holder_commitment(secp, n, content);
        let redeem = make_funding_redeemscript(&holder.funding_pubkey, &self.cp_points.funding_pubkey);
        let trusted = tx.trust();
        let built = trusted.built_transaction();
        let sig = built.sign_counterparty_commitment(
            &self.cp.funding_key,
            &redeem,
            self.setup.channel_value_sat,
            secp,
        );
        let point = self.holder_point(secp, n);
        let cp_htlc_key = derive_private_key(secp, &point, &self.cp.htlc_base_key);
        let build_feerate = if self.setup.is_zero_fee_htlc() { 0 } else { content.feerate_per_kw };
        let features = self.features();
        let mut htlc_sigs = vec![];
        for htlc in tx.htlcs() {
            let htlc_tx = build_htlc_transaction(
                &built.txid,
                build_feerate,
                self.setup.counterparty_selected_contest_delay,
                htlc,
                &features,
                &keys.broadcaster_delayed_payment_key,
                &keys.revocation_key,
            );
            let script = get_htlc_redeemscript(htlc, &features, &keys);
            let ty = if self.setup.is_anchors() {
                EcdsaSighashType::SinglePlusAnyoneCanPay
            } else {
                EcdsaSighashType::All
            };
            let sighash = Message::from_digest(
                SighashCache::new(&htlc_tx)
                    .p2wsh_signature_hash(0, &script, Amount::from_sat(htlc.amount_msat / 1000), ty)
                    .unwrap()
                    .to_byte_array(),
            );
            htlc_sigs.push(secp.sign_ecdsa(&sighash, &cp_htlc_key));
        }
        (sig, htlc_sigs)
    }

    /// Does `sig` verify as the HOLDER's funding signature on holder commitment n with this content?
    pub fn holder_sig_verifies(
        &self,
        secp: &Secp256k1<All>,
        n: u64,
        content: &Content,
        sig: &Signature,
    ) -> bool {
        let holder = self.holder_points.as_ref().expect("holder points");
        let (tx, _) = self.build_holder_commitment(secp, n, content);
        let redeem = make_funding_redeemscript(&holder.funding_pubkey, &self.cp_points.funding_pubkey);
        let trusted = tx.trust();
        let built = trusted.built_transaction();
        let sighash = Message::from_digest(
            SighashCache::new(&built.transaction)
                .p2wsh_signature_hash(
                    0,
                    &redeem,
                    Amount::from_sat(self.setup.channel_value_sat),
                    EcdsaSighashType::All,
                )
                .unwrap()
                .to_byte_array(),
        );
        secp.verify_ecdsa(&sighash, sig, &holder.funding_pubkey).is_ok()
    }

    pub fn holder_commitment_txid(&self, secp: &Secp256k1<All>, n: u64, content: &Content) -> Txid {
        let (tx, _) = self.build_holder_commitment(secp, n, content);
        tx.trust().built_transaction().txid
    }

    pub fn holder_commitment_tx(&self, secp: &Secp256k1<All>, n: u64, content: &Content) -> Transaction {
        let (tx, _) = self.build_holder_commitment(secp, n, content);
        tx.trust().built_transaction().transaction.clone()
    }
}


impl ChanModel {
    /// Phase-1 form of the holder commitment: the raw transaction and one witness script per output
    pub fn holder_commitment_phase1(
        &self,
        secp: &Secp256k1<All>,
        n: u64,
        content: &Content,
    ) -> (Transaction, Vec<Vec<u8>>) {
        let holder = self.holder_points.as_ref().expect("holder points");
        let (tx, keys) = self.build_holder_commitment(secp, n, content);
        let params = self.channel_parameters();
        let directed = params.as_holder_broadcastable();
        let scripts = lightning_signer::util::test_utils::build_tx_scripts(
            &keys,
            content.to_holder_sat,
            content.to_counterparty_sat,
            &Self::htlcs_oic(content),
            &directed,
            &holder.funding_pubkey,
            &self.cp_points.funding_pubkey,
        )
        .expect("scripts");
        (
            tx.trust().built_transaction().transaction.clone(),
            scripts.iter().map(|s| s.as_bytes().to_vec()).collect(),
        )
    }

    /// Phase-1 form of the counterparty's commitment n (broadcast by the counterparty) for the
    /// content given from the holder's point of view, with the counterparty's per-commitment point
    pub fn counterparty_commitment_phase1(
        &self,
        secp: &Secp256k1<All>,
        n: u64,
        point: &PublicKey,
        content: &Content,
    ) -> (Transaction, Vec<Vec<u8>>) {
        let holder = self.holder_points.as_ref().expect("holder points");
        // broadcaster = counterparty
        let keys = TxCreationKeys::derive_new(
            secp,
            point,
            &self.cp_points.delayed_payment_basepoint,
            &self.cp_points.htlc_basepoint,
            &holder.revocation_basepoint,
            &holder.htlc_basepoint,
        );
        let params = self.channel_parameters();
        let directed = params.as_counterparty_broadcastable();
        // from the broadcaster's (counterparty's) side: offered = received by us
        let mut oic = vec![];
        for h in &content.received {
            oic.push(HTLCOutputInCommitment { offered: true, amount_msat: h.value_sat * 1000, cltv_expiry: h.cltv_expiry, payment_hash: h.payment_hash, transaction_output_index: None });
        }
        for h in &content.offered {
            oic.push(HTLCOutputInCommitment { offered: false, amount_msat: h.value_sat * 1000, cltv_expiry: h.cltv_expiry, payment_hash: h.payment_hash, transaction_output_index: None });
        }
        let mut with_aux: Vec<(HTLCOutputInCommitment, ())> = oic.iter().cloned().map(|h| (h, ())).collect();
        let tx = CommitmentTransaction::new_with_auxiliary_htlc_data(
            INITIAL_COMMITMENT_NUMBER.wrapping_sub(n),
            content.to_counterparty_sat,
            content.to_holder_sat,
            self.cp_points.funding_pubkey,
            holder.funding_pubkey,
            keys.clone(),
            content.feerate_per_kw,
            &mut with_aux,
            &directed,
        );
        let scripts = lightning_signer::util::test_utils::build_tx_scripts(
            &keys,
            content.to_counterparty_sat,
            content.to_holder_sat,
            &oic,
            &directed,
            &self.cp_points.funding_pubkey,
            &holder.funding_pubkey,
        )
        .expect("scripts");
        (
            tx.trust().built_transaction().transaction.clone(),
            scripts.iter().map(|s| s.as_bytes().to_vec()).collect(),
        )
    }
}

/// A small generator of plausible commitment contents: keeps a running balance and HTLC set
/// and produces a sequence of contents each differing from the previous by a few HTLC
/// additions / removals / a feerate change, with the funder paying the BOLT-3 fee.
#[derive(Clone)]
pub struct Balance {
    /// msat-free model in sat: funds that belong to holder / counterparty excluding HTLCs and fee
    pub holder_sat: u64,
    pub cp_sat: u64,
    pub offered: Vec<HTLCInfo2>,
    pub received: Vec<HTLCInfo2>,
    pub feerate: u32,
}

pub fn payment_hash_for(tag: u64) -> (PaymentHash, [u8; 32]) {
    let mut pre = [0u8; 32];
    pre[..8].copy_from_slice(&tag.to_le_bytes());
    pre[31] = 0x77;
    (PaymentHash(sha256::Hash::hash(&pre).to_byte_array()), pre)
}

impl Balance {
    pub fn initial(setup: &ChannelSetup) -> Balance {
        let push = setup.push_value_msat / 1000;
        let (h, c) = if setup.is_outbound {
            (setup.channel_value_sat - push, push)
        } else {
            (push, setup.channel_value_sat - push)
        };
        Balance { holder_sat: h, cp_sat: c, offered: vec![], received: vec![], feerate: 1000 }
    }

    /// Content for the current balance: the funder pays fee (+ anchors)
    pub fn content(&self, setup: &ChannelSetup) -> Option<Content> {
        let n = self.offered.len() + self.received.len();
        let mut cost = commitment_fee(setup, self.feerate, n);
        if setup.is_anchors() {
            cost += 660;
        }
        let (mut h, mut c) = (self.holder_sat, self.cp_sat);
        if setup.is_outbound {
            h = h.checked_sub(cost)?;
        } else {
            c = c.checked_sub(cost)?;
        }
        // outputs below dust are refused by policy; avoid them in "good" content
        if (h > 0 && h < 1000) || (c > 0 && c < 1000) {
            return None;
        }
        Some(Content {
            feerate_per_kw: self.feerate,
            to_holder_sat: h,
            to_counterparty_sat: c,
            offered: self.offered.clone(),
            received: self.received.clone(),
        })
    }

    /// Random step.  `fresh_tag` supplies unique payment-hash tags.  Returns the hashes of
    /// newly offered HTLCs (the caller may want to register invoices/keysends for them).
    pub fn step(&mut self, rng: &mut Rng, height: u32, fresh_tag: &mut u64) -> Vec<(PaymentHash, u64)> {
        let mut new_offered = vec![];
        let k = rng.below(3) + 1;
        for _ in 0..k {
            match rng.below(7) {
                0 | 1 => {
                    // offer an HTLC
                    let v = rng.range(6_000, 50_000);
                    if self.holder_sat > v + 20_000 && self.offered.len() + self.received.len() < 8 {
                        *fresh_tag += 1;
                        let (hash, _) = payment_hash_for(*fresh_tag);
                        self.holder_sat -= v;
                        self.offered.push(HTLCInfo2 { value_sat: v, payment_hash: hash, cltv_expiry: height + rng.range(20, 400) as u32 });
                        new_offered.push((hash, v));
                    }
                }
                2 | 3 => {
                    let v = rng.range(6_000, 50_000);
                    if self.cp_sat > v + 20_000 && self.offered.len() + self.received.len() < 8 {
                        *fresh_tag += 1;
                        let (hash, _) = payment_hash_for(*fresh_tag);
                        self.cp_sat -= v;
                        self.received.push(HTLCInfo2 { value_sat: v, payment_hash: hash, cltv_expiry: height + rng.range(20, 400) as u32 });
                    }
                }
                4 => {
                    // resolve an offered HTLC: fulfilled (to cp) or failed (back to holder)
                    if !self.offered.is_empty() {
                        let i = rng.usize(self.offered.len());
                        let h = self.offered.remove(i);
                        if rng.bool() { self.cp_sat += h.value_sat } else { self.holder_sat += h.value_sat }
                    }
                }
                5 => {
                    if !self.received.is_empty() {
                        let i = rng.usize(self.received.len());
                        let h = self.received.remove(i);
                        if rng.bool() { self.holder_sat += h.value_sat } else { self.cp_sat += h.value_sat }
                    }
                }
                _ => {
                    self.feerate = rng.range(300, 5_000) as u32;
                }
            }
        }
        new_offered
    }
}
