//! C05 — accepted commitments satisfy every mandatory policy bound.
//!
//! Workload: many small worlds (real `Node`, generated `SimplePolicy`, optional `PolicyFilter`
//! downgrading individual tags, simple or on-chain validator).  In each world a few channels are
//! set up with generated `ChannelSetup`s (commitment types incl. unsafe ones, delays in/out of
//! range, channel values around `max_channel_size_sat` and arithmetic extremes) and then driven
//! with `Channel::sign_counterparty_commitment_tx_phase2` / `Channel::validate_holder_commitment_tx_phase2`
//! requests whose contents are drawn around the policy bounds (b-1, b, b+1) and around the
//! `as u32` / `* 1000` overflow candidates of the fee-rate estimate.  Blocks (funding tx, closing
//! tx) are fed through the node's real `ChainTracker` so that the channel's `ChainMonitor` supplies
//! the chain state.
//!
//! A third of the channels are driven through the protocol handler instead (vls-protocol-signer:
//! `NewChannel`, `SetupChannel`, `SignRemoteCommitmentTx2`, `ValidateCommitmentTx2`, `RevokeCommitmentTx`,
//! `ValidateRevocation`, protocol versions 4, 5 and 6): the same generated requests, converted to wire
//! fields (msat amounts with sub-satoshi remainders, LOCAL/REMOTE sides, channel_type feature bits), the
//! handler's answer judged by the same reference predicate.
//!
//! Oracle: a reference predicate written from docs/policy-controls.md and BOLT-3 weights, evaluated
//! in u128, one-directional (Ok => allowed), slack at rounding boundaries (see `judge_commitment`).
//! The reverse direction (refused although allowed) is only counted.

use lightning_signer::bitcoin::absolute::LockTime;
use lightning_signer::bitcoin::hashes::Hash;
use lightning_signer::bitcoin::secp256k1::ecdsa::Signature;
use lightning_signer::bitcoin::secp256k1::{All, Message, PublicKey, Secp256k1, SecretKey};
use lightning_signer::bitcoin::sighash::{EcdsaSighashType, SighashCache};
use lightning_signer::bitcoin::transaction::Version;
use lightning_signer::bitcoin::{
    Amount, OutPoint, ScriptBuf, Sequence, Transaction, TxIn, TxOut, Txid, Witness,
};
use lightning_signer::channel::{Channel, ChannelBase, ChannelId, ChannelSetup, CommitmentType};
use lightning_signer::lightning::ln::chan_utils::{
    build_htlc_transaction, derive_private_key, get_htlc_redeemscript, make_funding_redeemscript,
    ChannelPublicKeys, CommitmentTransaction, HTLCOutputInCommitment, TxCreationKeys,
};
use lightning_signer::lightning::ln::channel_keys::{
    DelayedPaymentBasepoint, HtlcBasepoint, RevocationBasepoint,
};
use lightning_signer::lightning::sign::ChannelSigner;
use lightning_signer::lightning::types::payment::PaymentHash;
use lightning_signer::policy::filter::{FilterResult, FilterRule, PolicyFilter};
use lightning_signer::policy::simple_validator::SimplePolicy;
use lightning_signer::tx::tx::HTLCInfo2;
use lightning_signer::txoo::proof::TxoProof;
use lightning_signer::util::test_utils::make_block;
use lightning_signer::bitcoin::BlockHash;
use lightning_signer::node::Node;
use lightning_signer::tx::tx::CommitmentInfo2;
use serde_json::{json, Value};
use std::sync::Arc;
use std::time::Instant;
use vls_protocol::model::{self, Basepoints, Bip32KeyVersion, BitcoinSignature, DisclosedSecret, Htlc, PubKey};
use vls_protocol::msgs::{self, Message as Wire};
use vls_protocol::serde_bolt::{Array, Octets};
use vls_protocol_signer::approver::PositiveApprover;
use vls_protocol_signer::handler::{ChannelHandler, Error as HandlerError, Handler, InitHandler, RootHandler};
use vls_verif::oracle;
use vls_verif::report::{self, finish, run_sharded, FinishSpec};
use vls_verif::rng::fnv_str;
use vls_verif::world::{ValidatorKind, World, WorldCfg};
use vls_verif::{Cli, Report, Rng};

const INITIAL_COMMITMENT_NUMBER: u64 = (1 << 48) - 1;
const MAX_CLTV: u64 = 500_000_000;

// ---------------------------------------------------------------------------------------------
// Reference model of the policy filter ("rules processed in order, first match stops,
// default = error"), written from the doc comments of PolicyFilter.
// ---------------------------------------------------------------------------------------------

#[derive(Clone, Debug)]
struct RefRule {
    tag: String,
    prefix: bool,
    warn: bool,
}

#[derive(Clone, Debug, Default)]
struct RefFilter {
    rules: Vec<RefRule>,
}

impl RefFilter {
    fn downgraded(&self, tag: &str) -> bool {
        for r in &self.rules {
            let m = if r.prefix { tag.starts_with(&r.tag) } else { tag == r.tag };
            if m {
                return r.warn;
            }
        }
        false
    }
    fn to_real(&self) -> PolicyFilter {
        PolicyFilter {
            rules: self
                .rules
                .iter()
                .map(|r| FilterRule {
                    tag: r.tag.clone(),
                    is_prefix: r.prefix,
                    action: if r.warn { FilterResult::Warn } else { FilterResult::Error },
                })
                .collect(),
        }
    }
    fn to_json(&self) -> Value {
        json!(self
            .rules
            .iter()
            .map(|r| json!({"tag": r.tag, "is_prefix": r.prefix, "action": if r.warn {"warn"} else {"error"}}))
            .collect::<Vec<_>>())
    }
}

// policy tags of the clauses judged here (docs/policy-controls.md)
const T_SAFE_MODE_DOC: &str = "policy-channel-safe-mode"; // name in the docs
const T_SAFE_MODE_CODE: &str = "policy-channel-safe-type"; // name used by the implementation
const T_DELAY_HOLDER: &str = "policy-channel-contest-delay-range-holder";
const T_DELAY_CP: &str = "policy-channel-contest-delay-range-counterparty";
const T_FUNDING_MAX: &str = "policy-funding-max";
const T_TRIMMED: &str = "policy-commitment-outputs-trimmed";
const T_COUNT: &str = "policy-commitment-htlc-count-limit";
const T_INFLIGHT: &str = "policy-commitment-htlc-inflight-limit";
const T_FEE: &str = "policy-commitment-fee-range";
const T_CLTV: &str = "policy-commitment-htlc-cltv-range";
const T_FIRST_NO_HTLC: &str = "policy-commitment-first-no-htlcs";
const T_INITIAL_VALUE: &str = "policy-commitment-initial-funding-value";
const T_ACTIVE_UTXO: &str = "policy-commitment-spends-active-utxo";
// not judged, but downgraded in many worlds so that outgoing HTLCs without invoice are possible
const T_ROUTING_BALANCED: &str = "policy-routing-balanced";
const T_ROUTING_BALANCE_COMMIT: &str = "policy-commitment-htlc-routing-balance";

const JUDGED_TAGS: &[&str] = &[
    T_SAFE_MODE_CODE,
    T_DELAY_HOLDER,
    T_DELAY_CP,
    T_FUNDING_MAX,
    T_TRIMMED,
    T_COUNT,
    T_INFLIGHT,
    T_FEE,
    T_CLTV,
    T_FIRST_NO_HTLC,
    T_INITIAL_VALUE,
    T_ACTIVE_UTXO,
];

fn gen_filter(rng: &mut Rng) -> RefFilter {
    let mut f = RefFilter::default();
    match rng.below(100) {
        0..=44 => {}
        45..=59 => {
            // only the routing-balance tags (not judged here): lets un-invoiced outgoing HTLCs through
            f.rules.push(RefRule { tag: T_ROUTING_BALANCED.into(), prefix: false, warn: true });
            f.rules.push(RefRule { tag: T_ROUTING_BALANCE_COMMIT.into(), prefix: false, warn: true });
        }
        _ => {
            let n = 1 + rng.below(3);
            for _ in 0..n {
                let rule = match rng.below(16) {
                    0..=8 => RefRule {
                        tag: (*rng.pick(JUDGED_TAGS)).to_string(),
                        prefix: false,
                        warn: true,
                    },
                    9 => RefRule { tag: "policy-commitment-htlc-".into(), prefix: true, warn: true },
                    10 => RefRule { tag: "policy-channel-".into(), prefix: true, warn: true },
                    11 => {
                        // an explicit error rule shadowing a later broader warn rule
                        let t = (*rng.pick(JUDGED_TAGS)).to_string();
                        f.rules.push(RefRule { tag: t, prefix: false, warn: false });
                        RefRule { tag: "policy-commitment-".into(), prefix: true, warn: true }
                    }
                    12 => {
                        // decoy: a truncated tag that is NOT a prefix rule -> matches nothing
                        let t = *rng.pick(JUDGED_TAGS);
                        RefRule { tag: t[..t.len() - 2].to_string(), prefix: false, warn: true }
                    }
                    13 => RefRule { tag: T_SAFE_MODE_DOC.into(), prefix: false, warn: true },
                    14 => RefRule { tag: "policy-commitment-fee".into(), prefix: true, warn: true },
                    _ => RefRule { tag: "policy-funding-".into(), prefix: true, warn: true },
                };
                f.rules.push(rule);
            }
            if rng.bool() {
                f.rules.push(RefRule { tag: T_ROUTING_BALANCED.into(), prefix: false, warn: true });
                f.rules.push(RefRule { tag: T_ROUTING_BALANCE_COMMIT.into(), prefix: false, warn: true });
            }
        }
    }
    f
}

// ---------------------------------------------------------------------------------------------
// Reference predicate
// ---------------------------------------------------------------------------------------------

/// What the reference predicate needs to know about the policy (plain numbers)
#[derive(Clone, Debug)]
struct RefPolicy {
    min_delay: u64,
    max_delay: u64,
    max_channel_size_sat: u64,
    max_htlcs: u64,
    max_htlc_value_sat: u64,
    use_chain_state: bool,
    min_feerate: u64,
    max_feerate: u64,
    onchain: bool,
    filter: RefFilter,
}

impl RefPolicy {
    fn to_json(&self) -> Value {
        json!({
            "min_delay": self.min_delay, "max_delay": self.max_delay,
            "max_channel_size_sat": self.max_channel_size_sat, "max_htlcs": self.max_htlcs,
            "max_htlc_value_sat": self.max_htlc_value_sat, "use_chain_state": self.use_chain_state,
            "min_feerate_per_kw": self.min_feerate, "max_feerate_per_kw": self.max_feerate,
            "validator": if self.onchain {"onchain"} else {"simple"},
            "filter": self.filter.to_json(),
        })
    }
}

#[derive(Clone, Copy, Debug, PartialEq, Eq)]
enum CType {
    Legacy,
    Static,
    Anchors,
    AnchorsZeroFee,
}

impl CType {
    fn real(self) -> CommitmentType {
        match self {
            CType::Legacy => CommitmentType::Legacy,
            CType::Static => CommitmentType::StaticRemoteKey,
            CType::Anchors => CommitmentType::Anchors,
            CType::AnchorsZeroFee => CommitmentType::AnchorsZeroFeeHtlc,
        }
    }
    fn name(self) -> &'static str {
        match self {
            CType::Legacy => "legacy",
            CType::Static => "static_remotekey",
            CType::Anchors => "anchors",
            CType::AnchorsZeroFee => "anchors_zero_fee_htlc",
        }
    }
    fn anchors(self) -> bool {
        matches!(self, CType::Anchors | CType::AnchorsZeroFee)
    }
    fn zero_fee_htlc(self) -> bool {
        self == CType::AnchorsZeroFee
    }
    /// docs: "the channel mode must be safe (e.g. not plain anchors, only zero-fee)"; the legacy
    /// (dynamic to_remote key) type is deprecated
    fn safe(self) -> bool {
        matches!(self, CType::Static | CType::AnchorsZeroFee)
    }
}

#[derive(Clone, Debug)]
struct RefSetup {
    ctype: CType,
    is_outbound: bool,
    channel_value_sat: u64,
    push_value_msat: u64,
    holder_selected_delay: u64,
    counterparty_selected_delay: u64,
}

impl RefSetup {
    fn to_json(&self) -> Value {
        json!({
            "commitment_type": self.ctype.name(), "is_outbound": self.is_outbound,
            "channel_value_sat": self.channel_value_sat, "push_value_msat": self.push_value_msat,
            "holder_selected_contest_delay": self.holder_selected_delay,
            "counterparty_selected_contest_delay": self.counterparty_selected_delay,
        })
    }
}

#[derive(Clone, Copy, Debug, PartialEq, Eq)]
enum Side {
    /// sign_counterparty_commitment_tx_phase2
    Counterparty,
    /// validate_holder_commitment_tx_phase2
    Holder,
}

impl Side {
    fn name(self) -> &'static str {
        match self {
            Side::Counterparty => "sign_counterparty_commitment_tx_phase2",
            Side::Holder => "validate_holder_commitment_tx_phase2",
        }
    }
    fn short(self) -> &'static str {
        match self {
            Side::Counterparty => "cp",
            Side::Holder => "holder",
        }
    }
}

#[derive(Clone, Debug, PartialEq, Eq)]
struct RefHtlc {
    value_sat: u64,
    cltv_expiry: u32,
    hash: [u8; 32],
}

#[derive(Clone, Debug, PartialEq, Eq)]
struct Content {
    feerate_per_kw: u32,
    to_holder_sat: u64,
    to_counterparty_sat: u64,
    /// "offered"/"received" from the point of view of the transaction's broadcaster, exactly as
    /// passed in the request
    offered: Vec<RefHtlc>,
    received: Vec<RefHtlc>,
}

impl Content {
    fn to_json(&self) -> Value {
        let h = |v: &Vec<RefHtlc>| {
            json!(v
                .iter()
                .map(|h| json!({"value_sat": h.value_sat, "cltv_expiry": h.cltv_expiry, "payment_hash": hex::encode(h.hash)}))
                .collect::<Vec<_>>())
        };
        json!({
            "feerate_per_kw": self.feerate_per_kw, "to_holder_value_sat": self.to_holder_sat,
            "to_counterparty_value_sat": self.to_counterparty_sat,
            "offered_htlcs": h(&self.offered), "received_htlcs": h(&self.received),
        })
    }
    fn n_htlcs(&self) -> u64 {
        (self.offered.len() + self.received.len()) as u64
    }
    fn htlc_sum(&self) -> u128 {
        self.offered.iter().chain(self.received.iter()).map(|h| h.value_sat as u128).sum()
    }
    fn out_sum(&self) -> u128 {
        self.to_holder_sat as u128 + self.to_counterparty_sat as u128 + self.htlc_sum()
    }
}

#[derive(Clone, Copy, Debug)]
struct RefChain {
    height: u64,
    funding_confirmed: bool,
    close_seen: bool,
}

/// Clause identifiers (index into names / counters)
#[derive(Clone, Copy, Debug, PartialEq, Eq)]
enum Clause {
    Trimmed,
    Count,
    Inflight,
    Cltv,
    FeeUnderflow,
    FeeLow,
    FeeHigh,
    FirstNoHtlc,
    InitialValue,
    FundingMax,
    ActiveUtxo,
}

const ALL_CLAUSES: &[Clause] = &[
    Clause::Trimmed,
    Clause::Count,
    Clause::Inflight,
    Clause::Cltv,
    Clause::FeeUnderflow,
    Clause::FeeLow,
    Clause::FeeHigh,
    Clause::FirstNoHtlc,
    Clause::InitialValue,
    Clause::FundingMax,
    Clause::ActiveUtxo,
];

impl Clause {
    fn key(self) -> &'static str {
        match self {
            Clause::Trimmed => "trimmed",
            Clause::Count => "htlc_count",
            Clause::Inflight => "inflight",
            Clause::Cltv => "cltv",
            Clause::FeeUnderflow => "fee_underflow",
            Clause::FeeLow => "fee_low",
            Clause::FeeHigh => "fee_high",
            Clause::FirstNoHtlc => "first_no_htlcs",
            Clause::InitialValue => "initial_value",
            Clause::FundingMax => "funding_max",
            Clause::ActiveUtxo => "active_utxo",
        }
    }
    fn tag(self) -> &'static str {
        match self {
            Clause::Trimmed => T_TRIMMED,
            Clause::Count => T_COUNT,
            Clause::Inflight => T_INFLIGHT,
            Clause::Cltv => T_CLTV,
            Clause::FeeUnderflow | Clause::FeeLow | Clause::FeeHigh => T_FEE,
            Clause::FirstNoHtlc => T_FIRST_NO_HTLC,
            Clause::InitialValue => T_INITIAL_VALUE,
            Clause::FundingMax => T_FUNDING_MAX,
            Clause::ActiveUtxo => T_ACTIVE_UTXO,
        }
    }
    fn bit(self) -> u32 {
        1 << (ALL_CLAUSES.iter().position(|c| *c == self).unwrap() as u32)
    }
}

/// One finding of the reference predicate about a request
#[derive(Clone, Debug)]
struct Breach {
    clause: Clause,
    /// violation signature if the request is accepted
    signature: &'static str,
    why: String,
    /// the clause's tag is downgraded by the filter (so acceptance is allowed)
    downgraded: bool,
}

/// BOLT-3 weights
fn commitment_weight(anchors: bool, n_htlcs: u64) -> u128 {
    (if anchors { 1124u128 } else { 724u128 }) + 172u128 * n_htlcs as u128
}
const HTLC_TIMEOUT_WEIGHT_MIN: u128 = 663; // 666 with anchors
const HTLC_SUCCESS_WEIGHT_MIN: u128 = 703; // 706 with anchors
/// weakest plausible dust limits (Bitcoin Core relay dust for the script kinds involved)
const DUST_P2WSH: u64 = 330;
const DUST_P2WPKH: u64 = 294;
const ANCHORS_TOTAL_SAT: u128 = 660;

/// The reference predicate for a commitment request.  Returns every clause the content breaks
/// (marked `downgraded` when the filter turns that clause's tag into a warning).
/// Slack: the implied fee rate is judged against [min-2, max+1] in exact arithmetic, using for
/// the upper bound the fee *without* the two anchor outputs and for the lower bound the fee
/// *with* them; dust uses the weakest plausible limit.
fn judge_commitment(
    p: &RefPolicy,
    s: &RefSetup,
    chain: &RefChain,
    side: Side,
    n: u64,
    is_new: bool,
    c: &Content,
) -> Vec<Breach> {
    let mut out = vec![];
    let mut add = |clause: Clause, signature: &'static str, why: String| {
        out.push(Breach { clause, signature, why, downgraded: p.filter.downgraded(clause.tag()) });
    };
    let anchors = s.ctype.anchors();
    let zero_fee = s.ctype.zero_fee_htlc();

    // -- outputs below the dust limit
    // broadcaster's own output (to_local) is P2WSH; the countersigner's (to_remote) is P2WPKH
    // without anchors, P2WSH with anchors
    let (to_local, to_remote) = match side {
        Side::Counterparty => (c.to_counterparty_sat, c.to_holder_sat),
        Side::Holder => (c.to_holder_sat, c.to_counterparty_sat),
    };
    if to_local > 0 && to_local < DUST_P2WSH {
        add(Clause::Trimmed, "c05:accepted-output-below-dust", format!("to_local output {} < {}", to_local, DUST_P2WSH));
    }
    let remote_dust = if anchors { DUST_P2WSH } else { DUST_P2WPKH };
    if to_remote > 0 && to_remote < remote_dust {
        add(Clause::Trimmed, "c05:accepted-output-below-dust", format!("to_remote output {} < {}", to_remote, remote_dust));
    }
    for (list, w, name) in [
        (&c.offered, HTLC_TIMEOUT_WEIGHT_MIN, "offered"),
        (&c.received, HTLC_SUCCESS_WEIGHT_MIN, "received"),
    ] {
        let limit: u128 = DUST_P2WSH as u128
            + if zero_fee { 0 } else { c.feerate_per_kw as u128 * w / 1000 };
        for h in list.iter() {
            if (h.value_sat as u128) < limit {
                add(
                    Clause::Trimmed,
                    "c05:accepted-htlc-below-dust",
                    format!("{} HTLC {} sat < weakest trim limit {} (feerate {})", name, h.value_sat, limit, c.feerate_per_kw),
                );
                break;
            }
        }
    }

    // -- HTLC count and in-flight value
    if c.n_htlcs() > p.max_htlcs {
        add(Clause::Count, "c05:accepted-htlc-count-over-max", format!("{} HTLCs > max_htlcs {}", c.n_htlcs(), p.max_htlcs));
    }
    if c.htlc_sum() > p.max_htlc_value_sat as u128 {
        add(
            Clause::Inflight,
            "c05:accepted-inflight-over-max",
            format!("in-flight {} sat > max_htlc_value_sat {}", c.htlc_sum(), p.max_htlc_value_sat),
        );
    }

    // -- expiries
    for h in c.offered.iter().chain(c.received.iter()) {
        let e = h.cltv_expiry as u64;
        if e >= MAX_CLTV {
            add(Clause::Cltv, "c05:accepted-htlc-expiry-out-of-range", format!("expiry {} >= 500000000", e));
            break;
        }
        if p.use_chain_state {
            let lo = chain.height + p.min_delay;
            let hi = chain.height + p.max_delay;
            if e < lo || e > hi {
                add(
                    Clause::Cltv,
                    "c05:accepted-htlc-expiry-out-of-range",
                    format!("expiry {} outside [{}, {}] (height {} + [min_delay {}, max_delay {}])", e, lo, hi, chain.height, p.min_delay, p.max_delay),
                );
                break;
            }
        }
    }

    // -- implied fee (channel value minus everything the transaction pays out) and its rate
    let v = s.channel_value_sat as u128;
    let outs = c.out_sum();
    let weight = commitment_weight(anchors, c.n_htlcs());
    if outs > v {
        add(
            Clause::FeeUnderflow,
            "c05:accepted-outputs-exceed-channel-value",
            format!("outputs {} > channel value {}", outs, v),
        );
    } else {
        let fee = v - outs;
        // upper bound: the smallest reading of the fee (anchors are not fee)
        let fee_low = if anchors { fee.saturating_sub(ANCHORS_TOTAL_SAT) } else { fee };
        let rate_low = fee_low * 1000 / weight;
        // a maximum of u32::MAX is read as "no upper bound configured"
        if p.max_feerate < u32::MAX as u64 && rate_low > p.max_feerate as u128 + 1 {
            // the shape of the witness: does the most generous reading of the rate (anchors
            // counted as fee, rounded up by 999/weight) leave the 32-bit range, or fee*1000 the
            // 64-bit range?  Then only wrapped arithmetic can have let it through.
            let rate_generous = (fee * 1000 + 999) / weight;
            let signature = if fee * 1000 + 999 >= 1u128 << 64 {
                "c05:accepted-fee-times-1000-over-u64-range"
            } else if rate_generous >= 1u128 << 32 {
                "c05:accepted-feerate-over-u32-range"
            } else {
                "c05:accepted-feerate-out-of-range"
            };
            add(
                Clause::FeeHigh,
                signature,
                format!(
                    "implied fee {} sat over weight {} = {} sat/kw (exact, floor, anchors excluded) > max_feerate_per_kw {} + 1; \
                     most generous reading (fee*1000+999)/weight = {}; that value mod 2^32 = {}, (fee*1000 mod 2^64 + 999)/weight mod 2^32 = {} (policy range [{}, {}])",
                    fee, weight, rate_low, p.max_feerate, rate_generous, rate_generous % (1u128 << 32),
                    (((fee * 1000) % (1u128 << 64) + 999) / weight) % (1u128 << 32), p.min_feerate, p.max_feerate
                ),
            );
        }
        // lower bound: the largest reading of the fee (anchors counted as fee), floor + 2
        let rate_floor = fee * 1000 / weight;
        if rate_floor + 2 < p.min_feerate as u128 {
            add(
                Clause::FeeLow,
                "c05:accepted-feerate-out-of-range",
                format!(
                    "implied fee {} sat over weight {} = {} sat/kw (exact, floor, anchors included) < min_feerate_per_kw {} - 2",
                    fee, weight, rate_floor, p.min_feerate
                ),
            );
        }
    }

    // -- initial commitment
    if n == 0 {
        if c.n_htlcs() > 0 {
            add(Clause::FirstNoHtlc, "c05:accepted-initial-commitment-with-htlcs", format!("commitment 0 with {} HTLCs", c.n_htlcs()));
        }
        if s.is_outbound && c.to_counterparty_sat as u128 * 1000 > s.push_value_msat as u128 + 999 {
            add(
                Clause::InitialValue,
                "c05:accepted-initial-commitment-overpays-fundee",
                format!("funder's commitment 0 gives the fundee {} sat, push is {} msat", c.to_counterparty_sat, s.push_value_msat),
            );
        }
    }

    // -- channel size (only where the property says so: releasing a counterparty signature)
    if side == Side::Counterparty && s.channel_value_sat > p.max_channel_size_sat {
        add(
            Clause::FundingMax,
            "c05:accepted-channel-above-max-size",
            format!("channel_value_sat {} > max_channel_size_sat {}", s.channel_value_sat, p.max_channel_size_sat),
        );
    }

    // -- on-chain validator: no new commitment beyond the initial one unless funded and not closed
    if p.onchain && n > 0 && is_new {
        if chain.close_seen {
            add(Clause::ActiveUtxo, "c05:onchain-accepted-commitment-after-close-seen", format!("new commitment {} after a spend of the funding output was seen on chain", n));
        } else if !chain.funding_confirmed {
            add(Clause::ActiveUtxo, "c05:onchain-accepted-commitment-before-funding-buried", format!("new commitment {} while the funding transaction is in no block", n));
        }
    }
    out
}

struct SetupBreach {
    key: &'static str,
    signature: &'static str,
    why: String,
    downgraded: bool,
}

fn judge_setup(p: &RefPolicy, s: &RefSetup) -> Vec<SetupBreach> {
    let mut out = vec![];
    if !s.ctype.safe() {
        // the docs call the tag policy-channel-safe-mode, the code policy-channel-safe-type: a
        // filter naming either disables the clause
        let d = p.filter.downgraded(T_SAFE_MODE_DOC) || p.filter.downgraded(T_SAFE_MODE_CODE);
        out.push(SetupBreach {
            key: "safe_type",
            signature: "c05:setup-accepted-unsafe-commitment-type",
            why: format!("commitment type {}", s.ctype.name()),
            downgraded: d,
        });
    }
    // the delay imposed on the holder's own output is selected by the counterparty and vice versa
    for (delay, tag, who) in [
        (s.counterparty_selected_delay, T_DELAY_HOLDER, "counterparty_selected_contest_delay (holder's to_self_delay)"),
        (s.holder_selected_delay, T_DELAY_CP, "holder_selected_contest_delay (counterparty's to_self_delay)"),
    ] {
        if delay < p.min_delay || delay > p.max_delay {
            out.push(SetupBreach {
                key: "delay",
                signature: "c05:setup-accepted-delay-out-of-range",
                why: format!("{} = {} outside [{}, {}]", who, delay, p.min_delay, p.max_delay),
                downgraded: p.filter.downgraded(tag),
            });
        }
    }
    out
}

// ---------------------------------------------------------------------------------------------
// Generators
// ---------------------------------------------------------------------------------------------

fn gen_policy(rng: &mut Rng, base: &SimplePolicy, extreme: bool) -> (SimplePolicy, RefFilter) {
    let mut p = base.clone();
    p.min_delay = *rng.pick(&[1u16, 2, 4, 6, 144]);
    p.max_delay = p.min_delay + *rng.pick(&[0u16, 1, 5, 40, 500, 1872]);
    p.max_channel_size_sat = if extreme {
        match rng.below(6) {
            0 => 1u64 << 40,
            1 => (1u64 << 40) + rng.below(1000),
            2 => u64::MAX,
            3 => u64::MAX / 1000 + rng.below(3),
            4 => 1u64 << 36,
            _ => 1_000_000_001,
        }
    } else {
        match rng.below(8) {
            0 => 100_000,
            1 => 1_000_000,
            2 => 16_777_216,
            3 => 1_000_000_001,
            4 => (1u64 << 32) + rng.below(3),
            5 => 1u64 << 40,
            _ => rng.range(50_000, 20_000_000),
        }
    };
    p.max_htlcs = match rng.below(10) {
        0 => 0,
        1 => 1,
        2..=6 => rng.range(2, 6) as usize,
        7 => 8,
        8 => 483,
        _ => 1000,
    };
    p.max_htlc_value_sat = match rng.below(8) {
        0 => rng.range(1_000, 10_000),
        1 | 2 => rng.range(10_000, 200_000),
        3 => 16_777_216,
        4 => 1u64 << 40,
        5 => 0,
        _ => rng.range(200_000, 5_000_000),
    };
    p.use_chain_state = rng.chance(1, 2);
    p.min_feerate_per_kw = *rng.pick(&[0u32, 1, 2, 253, 253, 253, 500, 1000, 5000]);
    p.max_feerate_per_kw = match rng.below(8) {
        0 => p.min_feerate_per_kw,
        1 => p.min_feerate_per_kw + 1 + rng.below(50) as u32,
        2 | 3 => 25_000u32.max(p.min_feerate_per_kw),
        4 | 5 => 333_333,
        6 => u32::MAX,
        _ => p.min_feerate_per_kw + rng.range(100, 100_000) as u32,
    };
    p.epsilon_sat = *rng.pick(&[0u64, 1, 10_000, 1_600_000]);
    p.enforce_balance = false;
    p.max_invoices = 1_000_000;
    p.max_channels = 100_000;
    let filter = gen_filter(rng);
    p.filter = filter.to_real();
    (p, filter)
}

fn gen_secret(rng: &mut Rng) -> SecretKey {
    loop {
        if let Ok(k) = SecretKey::from_slice(&rng.bytes::<32>()) {
            return k;
        }
    }
}

/// The counterparty: we generate its secrets, so we can counter-sign and revoke
struct CpKeys {
    funding: SecretKey,
    revocation_base: SecretKey,
    payment: SecretKey,
    delayed_base: SecretKey,
    htlc_base: SecretKey,
    commit_seed: [u8; 32],
}

impl CpKeys {
    fn gen(rng: &mut Rng) -> CpKeys {
        CpKeys {
            funding: gen_secret(rng),
            revocation_base: gen_secret(rng),
            payment: gen_secret(rng),
            delayed_base: gen_secret(rng),
            htlc_base: gen_secret(rng),
            commit_seed: rng.bytes::<32>(),
        }
    }
    fn points(&self, secp: &Secp256k1<All>) -> ChannelPublicKeys {
        let pk = |k: &SecretKey| PublicKey::from_secret_key(secp, k);
        ChannelPublicKeys {
            funding_pubkey: pk(&self.funding),
            revocation_basepoint: RevocationBasepoint(pk(&self.revocation_base)),
            payment_point: pk(&self.payment),
            delayed_payment_basepoint: DelayedPaymentBasepoint(pk(&self.delayed_base)),
            htlc_basepoint: HtlcBasepoint(pk(&self.htlc_base)),
        }
    }
    fn commitment_secret(&self, n: u64) -> SecretKey {
        SecretKey::from_slice(&oracle::commitment_secret(&self.commit_seed, n)).expect("secret")
    }
    fn commitment_point(&self, secp: &Secp256k1<All>, n: u64) -> PublicKey {
        PublicKey::from_secret_key(secp, &self.commitment_secret(n))
    }
}

fn near_u64(rng: &mut Rng, b: u64) -> u64 {
    match rng.below(5) {
        0 => b.saturating_sub(1),
        1 => b,
        2 => b.saturating_add(1),
        3 => b.saturating_sub(2),
        _ => b.saturating_add(2),
    }
}

/// fee (sat) that makes the *implied* rate about `rate` for `weight`
fn fee_for_rate(rate: u128, weight: u128) -> u128 {
    rate * weight / 1000
}

fn gen_channel_value(rng: &mut Rng, p: &RefPolicy, ctype: CType, extreme: bool) -> u64 {
    let m = p.max_channel_size_sat;
    if extreme {
        let w = commitment_weight(ctype.anchors(), 0);
        let k = 1 + rng.below(3) as u128;
        let alias_fee = (k << 32) * w / 1000;
        let room = match rng.below(4) {
            0 => rng.range(0, 2_000),
            1 => rng.range(300_000, 3_000_000),
            _ => rng.range(10_000_000, 400_000_000),
        } as u128;
        return match rng.below(10) {
            // room for a fee aliasing into range after `as u32`
            0..=5 => (alias_fee + room).min(u64::MAX as u128) as u64,
            // room for fee * 1000 wrapping around 2^64
            6 | 7 => (((1u128 << 64) / 1000) + 1 + room).min(u64::MAX as u128) as u64,
            8 => near_u64(rng, m),
            _ => u64::MAX - rng.below(1000),
        };
    }
    match rng.below(20) {
        0 => m.saturating_sub(1),
        1 => m,
        2 | 3 => m.saturating_add(1),
        4 => m.saturating_add(rng.range(2, 1_000_000)),
        5 => m.saturating_mul(2),
        _ => {
            // comfortably usable: at least 30k sat so that fee + a few HTLCs fit
            let hi = m.min(50_000_000).max(30_001);
            rng.range(30_000.min(hi - 1), hi)
        }
    }
}

fn gen_delay(rng: &mut Rng, p: &RefPolicy) -> u16 {
    let v = match rng.below(20) {
        0 => p.min_delay.saturating_sub(1),
        1 => p.min_delay,
        2 => p.max_delay,
        3 => p.max_delay + 1,
        4 => 0,
        5 => 65_535,
        6 => p.max_delay + rng.range(2, 500),
        _ => rng.range(p.min_delay, p.max_delay),
    };
    v.min(65_535) as u16
}

fn gen_setup(rng: &mut Rng, p: &RefPolicy, extreme: bool) -> RefSetup {
    let ctype = match rng.below(20) {
        0 | 1 => CType::Legacy,
        2 | 3 => CType::Anchors,
        4..=11 => CType::Static,
        _ => CType::AnchorsZeroFee,
    };
    let channel_value_sat = gen_channel_value(rng, p, ctype, extreme);
    let is_outbound = rng.chance(3, 5);
    let push_value_msat = match rng.below(6) {
        0 | 1 | 2 => 0,
        3 => rng.range(1, 999),
        4 => (channel_value_sat / 10).saturating_mul(1000).min(u64::MAX / 4) + rng.below(1000),
        _ => rng.range(1_000, 5_000_000),
    };
    // keep the push below the channel value (the signer refuses otherwise, which is not our topic)
    let push_value_msat = if (push_value_msat as u128) < channel_value_sat as u128 * 1000 {
        push_value_msat
    } else {
        0
    };
    RefSetup {
        ctype,
        is_outbound,
        channel_value_sat,
        push_value_msat,
        holder_selected_delay: gen_delay(rng, p) as u64,
        counterparty_selected_delay: gen_delay(rng, p) as u64,
    }
}

/// exact trim limit the implementation is expected to use (generator only, never the oracle)
fn gen_center_htlc_limit(s: &RefSetup, feerate: u32, offered: bool) -> u64 {
    if s.ctype.zero_fee_htlc() {
        354
    } else {
        let w: u64 = match (offered, s.ctype.anchors()) {
            (true, false) => 663,
            (true, true) => 666,
            (false, false) => 703,
            (false, true) => 706,
        };
        330 + (feerate as u64 * w / 1000)
    }
}

fn gen_expiry(rng: &mut Rng, p: &RefPolicy, chain: &RefChain, edgy: bool) -> u32 {
    let lo = chain.height + p.min_delay;
    let hi = chain.height + p.max_delay;
    let v: u64 = if !edgy {
        if p.use_chain_state {
            rng.range(lo, hi)
        } else {
            rng.range(1, 800_000)
        }
    } else {
        match rng.below(10) {
            0 => lo.saturating_sub(1),
            1 => lo,
            2 => hi,
            3 => hi + 1,
            4 => MAX_CLTV - 1,
            5 => MAX_CLTV,
            6 => MAX_CLTV + 1,
            7 => u32::MAX as u64,
            8 => 0,
            _ => rng.range(lo, hi.max(lo)),
        }
    };
    v.min(u32::MAX as u64) as u32
}

#[derive(Clone, Copy, PartialEq, Eq, Debug)]
enum FeeMode {
    InRange,
    Edge,
    AliasU32,
    WrapMul,
}

/// Generate a commitment content for (side, n).  Starts from a content that satisfies every
/// bound, then pushes 0-2 dimensions to an edge.
fn gen_content(
    rng: &mut Rng,
    p: &RefPolicy,
    s: &RefSetup,
    chain: &RefChain,
    side: Side,
    n: u64,
) -> (Content, FeeMode) {
    let v = s.channel_value_sat as u128;
    let anchors = s.ctype.anchors();

    // which dimensions go to an edge
    let mut edge_fee = false;
    let mut edge_dust_out = false;
    let mut edge_htlc_val = false;
    let mut edge_count = false;
    let mut edge_inflight = false;
    let mut edge_expiry = false;
    let mut edge_initial = false;
    let mut edge_declared = false;
    let mut overspend = false;
    let n_edges = match rng.below(10) {
        0..=3 => 0,
        4..=7 => 1,
        _ => 2,
    };
    for _ in 0..n_edges {
        match rng.below(if n == 0 { 9 } else { 8 }) {
            0 | 1 => edge_fee = true,
            2 => edge_dust_out = true,
            3 => edge_htlc_val = true,
            4 => edge_count = true,
            5 => edge_inflight = true,
            6 => edge_expiry = true,
            7 => edge_declared = true,
            _ => edge_initial = true,
        }
    }
    if rng.chance(1, 150) {
        overspend = true;
    }

    // declared feerate (used for second-level HTLC transactions and the trim limit)
    let lo_f = p.min_feerate.max(1);
    let hi_f = p.max_feerate.max(lo_f);
    let mut feerate: u64 = rng.range(lo_f, hi_f.min(lo_f + 3_000));
    if edge_declared {
        feerate = match rng.below(7) {
            0 => 0,
            1 => p.min_feerate.saturating_sub(1),
            2 => p.max_feerate + 1,
            3 => u32::MAX as u64,
            4 => p.max_feerate,
            5 => p.min_feerate,
            _ => p.max_feerate.saturating_mul(2),
        };
    }
    let feerate = feerate.min(u32::MAX as u64) as u32;

    // number of HTLCs
    let cap = 12u64;
    let mut k: u64 = if n == 0 {
        if edge_initial && rng.bool() {
            1 + rng.below(2)
        } else {
            0
        }
    } else if edge_count {
        match rng.below(3) {
            0 => p.max_htlcs.saturating_sub(1),
            1 => p.max_htlcs,
            _ => p.max_htlcs + 1,
        }
    } else {
        match rng.below(10) {
            0 | 1 | 2 => 0,
            3..=7 => rng.range(1, 3),
            _ => rng.range(1, 6),
        }
        .min(p.max_htlcs)
    };
    if k > cap {
        // counts beyond the cap cost too much signing; keep the relation to the bound only if small
        k = if p.max_htlcs < cap { k.min(cap) } else { rng.range(0, 4) };
    }
    if (edge_inflight || edge_htlc_val || edge_expiry) && k == 0 && n > 0 && p.max_htlcs > 0 {
        k = 1;
    }

    // budget for HTLCs: keep fee + HTLCs inside the channel value
    let mut offered = vec![];
    let mut received = vec![];
    let budget: u128 = (v / 2).min(p.max_htlc_value_sat as u128);
    let mut used: u128 = 0;
    for i in 0..k {
        let is_offered = rng.bool();
        let center = gen_center_htlc_limit(s, feerate, is_offered);
        let mut value: u64 = {
            let room = budget.saturating_sub(used) / (k - i) as u128;
            let hi = (center as u128 + 60_000).min(room.max(center as u128 + 1)) as u64;
            rng.range(center.saturating_add(1), hi.max(center.saturating_add(1)))
        };
        if edge_htlc_val && (i == 0 || rng.chance(1, 3)) {
            value = match rng.below(9) {
                0 => center.saturating_sub(1),
                1 => center,
                2 => center + 1,
                3 => 329,
                4 => 330,
                5 => 353,
                6 => 0,
                7 => center / 2,
                _ => 354,
            };
        }
        let edgy_expiry = edge_expiry && (i == 0 || rng.chance(1, 3));
        let expiry = gen_expiry(rng, p, chain, edgy_expiry);
        let h = RefHtlc { value_sat: value, cltv_expiry: expiry, hash: rng.bytes::<32>() };
        used += value as u128;
        if is_offered {
            offered.push(h);
        } else {
            received.push(h);
        }
    }
    if edge_inflight && k > 0 {
        // move the sum to max_htlc_value_sat -1 / +0 / +1 by adjusting the last HTLC
        let target = match rng.below(3) {
            0 => (p.max_htlc_value_sat as u128).saturating_sub(1),
            1 => p.max_htlc_value_sat as u128,
            _ => p.max_htlc_value_sat as u128 + 1,
        };
        let last = if !received.is_empty() { received.last_mut() } else { offered.last_mut() };
        if let Some(h) = last {
            let others = used - h.value_sat as u128;
            if target > others && target - others < (1u128 << 50) && target < v {
                h.value_sat = (target - others) as u64;
                used = target;
            }
        }
    }
    let htlc_sum = used;
    let k_real = (offered.len() + received.len()) as u64;
    let weight = commitment_weight(anchors, k_real);

    // implied fee
    let lo_r = p.min_feerate as u128;
    let hi_r = p.max_feerate as u128;
    let mut mode = FeeMode::InRange;
    let in_range_rate = |rng: &mut Rng| -> u128 {
        let lo = lo_r + 2;
        let hi = hi_r.saturating_sub(2).max(lo);
        rng.range(lo as u64, (hi.min(lo + 4_000)) as u64) as u128
    };
    let mut fee: u128 = fee_for_rate(in_range_rate(rng), weight) + if anchors { 660 } else { 0 };
    let alias_room = v > htlc_sum + ((1u128 << 32) * weight / 1000);
    let wrap_room = v > htlc_sum + ((1u128 << 64) / 1000);
    if wrap_room && rng.chance(1, 3) {
        mode = FeeMode::WrapMul;
        // fee * 1000 = 2^64 + y with y / weight in range
        let r = in_range_rate(rng);
        fee = ((1u128 << 64) + r * weight) / 1000 + rng.below(2) as u128;
    } else if alias_room && rng.chance(1, 2) {
        mode = FeeMode::AliasU32;
        let kmax = ((v - htlc_sum) * 1000 / weight) >> 32;
        let kk = 1 + rng.below(kmax.min(3) as u64) as u128;
        let r = in_range_rate(rng);
        fee = ((kk << 32) + r) * weight / 1000 + rng.below(2) as u128;
        if fee + htlc_sum > v {
            fee = ((1u128 << 32) + r) * weight / 1000;
        }
    } else if edge_fee {
        mode = FeeMode::Edge;
        let r: u128 = match rng.below(12) {
            0 => lo_r.saturating_sub(3),
            1 => lo_r.saturating_sub(2),
            2 => lo_r.saturating_sub(1),
            3 => lo_r,
            4 => lo_r + 1,
            5 => hi_r.saturating_sub(1),
            6 => hi_r,
            7 => hi_r + 1,
            8 => hi_r + 2,
            9 => hi_r + 3,
            10 => 0,
            _ => hi_r * 2 + 7,
        };
        fee = fee_for_rate(r, weight) + rng.below(2) as u128;
        if anchors && rng.bool() {
            fee += 660;
        }
    }

    // split the rest
    let rest: u128 = v.saturating_sub(fee).saturating_sub(htlc_sum);
    if fee + htlc_sum > v {
        // not enough room: fall back to whatever is left as fee (possibly tiny)
        fee = v.saturating_sub(htlc_sum);
    }
    let _ = fee;
    let rest64 = rest.min(u64::MAX as u128) as u64;
    let (mut to_holder, mut to_cp): (u64, u64);
    if n == 0 {
        let push_sat = s.push_value_msat / 1000;
        if s.is_outbound {
            to_cp = push_sat.min(rest64);
            if edge_initial {
                to_cp = match rng.below(4) {
                    0 => push_sat + 1,
                    1 => push_sat + 2,
                    2 => push_sat.saturating_add(rng.range(3, 100_000)),
                    _ => push_sat,
                }
                .min(rest64);
            }
            to_holder = rest64 - to_cp;
        } else {
            to_holder = push_sat.min(rest64);
            to_cp = rest64 - to_holder;
        }
    } else {
        let share = match rng.below(6) {
            0 => 0,
            1 => rest64,
            _ => rng.range(0, rest64),
        };
        to_holder = share;
        to_cp = rest64 - share;
    }
    if edge_dust_out && rest64 > 1_000 {
        // put one of the two main outputs next to the dust limits; the difference goes to the other
        let small = *rng.pick(&[1u64, 293, 294, 295, 329, 330, 331, 353, 354, 355]);
        if rng.bool() {
            to_holder = small;
            to_cp = rest64 - small;
        } else {
            to_cp = small;
            to_holder = rest64 - small;
        }
    }
    if overspend {
        to_holder = to_holder.saturating_add(fee.min(u64::MAX as u128) as u64).saturating_add(rng.range(1, 1000));
    }
    let _ = side;
    (
        Content {
            feerate_per_kw: feerate,
            to_holder_sat: to_holder,
            to_counterparty_sat: to_cp,
            offered,
            received,
        },
        mode,
    )
}

// ---------------------------------------------------------------------------------------------
// Plumbing: blocks, counterparty signatures
// ---------------------------------------------------------------------------------------------

fn filler_tx(height: u32, salt: u64) -> Transaction {
    // first transaction of every block (never touches a watched outpoint)
    Transaction {
        version: Version::non_standard(0),
        lock_time: LockTime::from_consensus(height),
        input: vec![],
        output: vec![TxOut { value: Amount::from_sat(salt & 0xffff), script_pubkey: ScriptBuf::new() }],
    }
}

fn add_block(world: &World, txs: Vec<Transaction>, salt: u64) -> Result<(), String> {
    let mut tracker = world.node.get_tracker();
    let height = tracker.height();
    let tip = tracker.tip().clone();
    let mut all = vec![filler_tx(height + 1, salt)];
    all.extend(txs);
    let block = make_block(tip.0, all);
    let proof = TxoProof::prove_unchecked(&block, &tip.1, height + 1);
    tracker.add_block(block.header, proof).map_err(|e| format!("add_block: {:?}", e))?;
    // as the protocol handler does after every block (the restarts below come back to this chain)
    let node = &world.node;
    lightning_signer::persist::Persist::update_tracker(&*node.get_persister(), &node.get_id(), &tracker).map_err(|e| format!("persist tracker: {:?}", e))
}

fn make_funding_tx(rng: &mut Rng, vout: u32, value: u64) -> Transaction {
    let mut output = vec![];
    for i in 0..=vout {
        output.push(TxOut {
            value: Amount::from_sat(if i == vout { value.min(2_100_000_000_000_000) } else { 1_000 + i as u64 }),
            script_pubkey: ScriptBuf::from_bytes({
                let mut s = vec![0x00, 0x20];
                s.extend_from_slice(&rng.bytes::<32>());
                s
            }),
        });
    }
    Transaction {
        version: Version::TWO,
        lock_time: LockTime::ZERO,
        input: vec![TxIn {
            previous_output: OutPoint { txid: Txid::from_byte_array(rng.bytes::<32>()), vout: 0 },
            script_sig: ScriptBuf::new(),
            sequence: Sequence::MAX,
            witness: Witness::default(),
        }],
        output,
    }
}

/// a transaction spending the funding output that is not shaped like a commitment (so the monitor
/// classifies it as a mutual close without needing to decode it)
fn make_closing_tx(rng: &mut Rng, funding: OutPoint) -> Transaction {
    Transaction {
        version: Version::TWO,
        lock_time: LockTime::ZERO,
        input: vec![TxIn {
            previous_output: funding,
            script_sig: ScriptBuf::new(),
            sequence: Sequence::MAX,
            witness: Witness::default(),
        }],
        output: vec![TxOut {
            value: Amount::from_sat(10_000),
            script_pubkey: ScriptBuf::from_bytes({
                let mut s = vec![0x00, 0x14];
                s.extend_from_slice(&rng.bytes::<20>());
                s
            }),
        }],
    }
}

fn to_info2(v: &[RefHtlc]) -> Vec<HTLCInfo2> {
    v.iter()
        .map(|h| HTLCInfo2 { value_sat: h.value_sat, payment_hash: PaymentHash(h.hash), cltv_expiry: h.cltv_expiry })
        .collect()
}

/// The counterparty's signatures on the holder's commitment `n` with content `c`
/// (BOLT-3 construction through LDK chan_utils, the trusted shared component).
fn counterparty_sign_holder(
    chan: &Channel,
    secp: &Secp256k1<All>,
    cp: &CpKeys,
    n: u64,
    c: &Content,
) -> Result<(Signature, Vec<Signature>), String> {
    let point = chan.get_per_commitment_point(n).map_err(|e| format!("point: {}", e.message()))?;
    let holder_pk = chan.keys.pubkeys().clone();
    let cp_pk = chan.setup.counterparty_points.clone();
    let keys = TxCreationKeys::derive_new(
        secp,
        &point,
        &holder_pk.delayed_payment_basepoint,
        &holder_pk.htlc_basepoint,
        &cp_pk.revocation_basepoint,
        &cp_pk.htlc_basepoint,
    );
    let params = chan.make_channel_parameters();
    let directed = params.as_holder_broadcastable();
    let htlcs = Channel::htlcs_info2_to_oic(&to_info2(&c.offered), &to_info2(&c.received));
    let mut with_aux: Vec<(HTLCOutputInCommitment, ())> = htlcs.into_iter().map(|h| (h, ())).collect();
    let mut tx = CommitmentTransaction::new_with_auxiliary_htlc_data(
        INITIAL_COMMITMENT_NUMBER - n,
        c.to_holder_sat,
        c.to_counterparty_sat,
        holder_pk.funding_pubkey,
        cp_pk.funding_pubkey,
        keys.clone(),
        c.feerate_per_kw,
        &mut with_aux,
        &directed,
    );
    if chan.setup.is_anchors() {
        tx = tx.with_non_zero_fee_anchors();
    }
    let trusted = tx.trust();
    let built = trusted.built_transaction();
    let redeem = make_funding_redeemscript(&holder_pk.funding_pubkey, &cp_pk.funding_pubkey);
    let sig = built.sign_counterparty_commitment(&cp.funding, &redeem, chan.setup.channel_value_sat, secp);
    let htlc_key = derive_private_key(secp, &point, &cp.htlc_base);
    let features = chan.setup.features();
    let build_feerate = if chan.setup.is_zero_fee_htlc() { 0 } else { c.feerate_per_kw };
    let sighash_type = if chan.setup.is_anchors() {
        EcdsaSighashType::SinglePlusAnyoneCanPay
    } else {
        EcdsaSighashType::All
    };
    let mut htlc_sigs = vec![];
    for htlc in tx.htlcs() {
        let htlc_tx = build_htlc_transaction(
            &built.txid,
            build_feerate,
            chan.setup.counterparty_selected_contest_delay,
            htlc,
            &features,
            &keys.broadcaster_delayed_payment_key,
            &keys.revocation_key,
        );
        let script = get_htlc_redeemscript(htlc, &features, &keys);
        let sighash = SighashCache::new(&htlc_tx)
            .p2wsh_signature_hash(0, &script, Amount::from_sat(htlc.amount_msat / 1000), sighash_type)
            .map_err(|e| format!("sighash: {:?}", e))?;
        let msg = Message::from_digest(sighash.to_byte_array());
        htlc_sigs.push(secp.sign_ecdsa(&msg, &htlc_key));
    }
    Ok((sig, htlc_sigs))
}

fn dummy_sig(secp: &Secp256k1<All>) -> Signature {
    let k = SecretKey::from_slice(&[3u8; 32]).unwrap();
    secp.sign_ecdsa(&Message::from_digest([7u8; 32]), &k)
}

fn norm_msg(m: &str) -> String {
    // normalise a refusal message into a kind: digits -> #, ids cut, truncated
    let m = match m.find(" on channel ") {
        Some(i) => &m[..i],
        None => m,
    };
    let m = match m.find(".cargo/registry/src/") {
        Some(i) => &m[..i],
        None => m,
    };
    let mut out = String::new();
    let mut last_hash = false;
    for ch in m.chars() {
        if ch.is_ascii_digit() {
            if !last_hash {
                out.push('#');
            }
            last_hash = true;
        } else {
            out.push(ch);
            last_hash = false;
        }
        if out.len() >= 110 {
            break;
        }
    }
    out
}

// ---------------------------------------------------------------------------------------------
// Protocol-handler entry (vls-protocol-signer): the same requests as wire messages
// ---------------------------------------------------------------------------------------------

fn build_root(node: &Arc<Node>, version: u32) -> Result<RootHandler, String> {
    let mut init = InitHandler::new(0, node.clone(), Arc::new(PositiveApprover()), version);
    init.handle(Wire::HsmdInit(msgs::HsmdInit {
        key_version: Bip32KeyVersion { pubkey_version: 0x043587CF, privkey_version: 0x04358394 },
        chain_params: BlockHash::all_zeros(),
        encryption_key: None,
        dev_privkey: None,
        dev_bip32_seed: None,
        dev_channel_secrets: None,
        dev_channel_secrets_shaseed: None,
        hsm_wire_min_version: 2,
        hsm_wire_max_version: version,
    }))
    .map_err(|e| format!("hsmd init: {:?}", e))?;
    Ok(init.into())
}

fn build_channel_handler(node: &Arc<Node>, version: u32, peer: [u8; 33], dbid: u64) -> Result<ChannelHandler, String> {
    Ok(build_root(node, version)?.for_new_client(1, PubKey(peer), dbid))
}

/// the refusal text of a handler error (the signer's Status message where there is one)
fn herr(e: &HandlerError) -> String {
    match e {
        HandlerError::Signing(s) | HandlerError::Temporary(s) => s.message().to_string(),
        other => format!("protocol error: {:?}", other),
    }
}

/// One channel-level message through a handler built for the occasion.
/// Ok(Ok(reply)) / Ok(Err(refusal text)) / Err(panic text)
fn handle_on_channel(
    node: &Arc<Node>,
    version: u32,
    peer: [u8; 33],
    dbid: u64,
    msg: Wire,
) -> Result<Result<Box<dyn msgs::SerBolt>, String>, String> {
    report::catch(|| {
        let h = build_channel_handler(node, version, peer, dbid)?;
        h.handle(msg).map_err(|e| herr(&e))
    })
}

/// count `handler.<name>.ok|refused|panic`
fn count_handler<T>(r: &mut Report, name: &str, version: u32, res: &Result<Result<T, String>, String>) {
    let what = match res {
        Ok(Ok(_)) => "ok",
        Ok(Err(_)) => "refused",
        Err(_) => "panic",
    };
    r.count(&format!("handler.{}.{}", name, what));
    r.count(&format!("handler.requests.protocol_version_{}", version));
}

/// BOLT-9 feature vector (big-endian: feature bit i is bit i%8 of byte len-1-i/8) of the channel type,
/// as CLN sends it: even bits, static_remotekey (12) with both anchor variants (20, 22)
fn channel_type_wire(rng: &mut Rng, t: CType) -> Vec<u8> {
    let bits: &[usize] = match t {
        CType::Legacy => &[],
        CType::Static => &[12],
        CType::Anchors => &[12, 20],
        CType::AnchorsZeroFee => {
            if rng.bool() {
                &[12, 22]
            } else {
                &[12, 20, 22]
            }
        }
    };
    let min_len = bits.iter().map(|b| b / 8 + 1).max().unwrap_or(0);
    // sometimes padded with leading zero bytes
    let len = if rng.chance(1, 3) { min_len.max(4) } else { min_len };
    let mut v = vec![0u8; len];
    for b in bits {
        v[len - 1 - b / 8] |= 1 << (b % 8);
    }
    v
}

/// HTLCs on the wire: msat amounts (value_sat * 1000 + a remainder below one satoshi, which BOLT-3
/// rounds away) and sides from the signer's point of view: what the broadcaster of a counterparty
/// commitment offers is REMOTE, what the broadcaster of a holder commitment offers is LOCAL.
/// None if an amount does not fit the field.
fn htlcs_wire(rng: &mut Rng, r: &mut Report, side: Side, c: &Content) -> Option<Array<Htlc>> {
    let (offered_side, received_side) = match side {
        Side::Counterparty => (Htlc::REMOTE, Htlc::LOCAL),
        Side::Holder => (Htlc::LOCAL, Htlc::REMOTE),
    };
    let mut v = vec![];
    for (list, wire_side) in [(&c.offered, offered_side), (&c.received, received_side)] {
        for h in list.iter() {
            let rem = if rng.chance(1, 5) { 0 } else { rng.below(1000) };
            let amount = h.value_sat.checked_mul(1000)?.checked_add(rem)?;
            if rem > 0 {
                r.count("handler.htlc_with_msat_remainder");
            }
            v.push(Htlc { side: wire_side, amount, payment_hash: model::Sha256(h.hash), ctlv_expiry: h.cltv_expiry });
        }
    }
    // the order on the wire is the node's business
    if v.len() > 1 && rng.bool() {
        let k = rng.usize(v.len());
        v.rotate_left(k);
    }
    Some(Array(v))
}

fn to_bsig(sig: &Signature, ty: EcdsaSighashType) -> BitcoinSignature {
    BitcoinSignature { signature: model::Signature(sig.serialize_compact()), sighash: ty as u8 }
}

/// what the signer holds as the pending holder commitment (used to tell, under protocol version 4 where
/// validation and revocation are one message, which of the two refused)
fn pending_holder(node: &Arc<Node>, id: &ChannelId) -> Option<(u64, Option<CommitmentInfo2>)> {
    match report::catch(|| {
        node.with_channel(id, |chan| {
            Ok((
                chan.enforcement_state.next_holder_commit_num,
                chan.enforcement_state.next_holder_commit_info.as_ref().map(|(i, _)| i.clone()),
            ))
        })
    }) {
        Ok(Ok(x)) => Some(x),
        _ => None,
    }
}

// ---------------------------------------------------------------------------------------------
// One world
// ---------------------------------------------------------------------------------------------

struct ChanGhost {
    id: ChannelId,
    setup: RefSetup,
    cp: CpKeys,
    funding_tx: Transaction,
    funding_outpoint: OutPoint,
    funding_confirmed: bool,
    close_seen: bool,
    cp_accepted_max: Option<u64>,
    holder_accepted_max: Option<u64>,
    cp_last: Option<(u64, Content)>,
    holder_last: Option<(u64, Content)>,
    cp_revoked_next: u64,
    /// Some(protocol version): this channel is driven through the protocol handler
    via: Option<u32>,
    peer: [u8; 33],
    dbid: u64,
}

struct Ctx<'a> {
    cli: &'a Cli,
    shard: usize,
    world_ix: u64,
}

enum Outcome {
    Accepted,
    Refused(String),
    Panicked(String),
}

fn run_world(ctx: &Ctx, rng: &mut Rng, r: &mut Report, extreme: bool) {
    let secp = Secp256k1::new();
    // choices of the protocol-handler entry: a stream of their own, so that the generated worlds and
    // requests are the same whichever entry carries them
    let mut hrng = Rng::new(
        ctx.cli.seed.wrapping_mul(0x9E37_79B9_7F4A_7C15) ^ ((ctx.shard as u64) << 40) ^ ctx.world_ix.wrapping_mul(0xD6E8_FEB8_6659_FD93) ^ 0xC05,
    );
    let mut cfg = WorldCfg::regtest(rng.bytes::<32>());
    let (policy, filter) = gen_policy(rng, &cfg.policy, extreme);
    let onchain = rng.chance(2, 5);
    cfg.validator = if onchain { ValidatorKind::Onchain } else { ValidatorKind::Simple };
    cfg.policy = policy.clone();
    let p = RefPolicy {
        min_delay: policy.min_delay as u64,
        max_delay: policy.max_delay as u64,
        max_channel_size_sat: policy.max_channel_size_sat,
        max_htlcs: policy.max_htlcs as u64,
        max_htlc_value_sat: policy.max_htlc_value_sat,
        use_chain_state: policy.use_chain_state,
        min_feerate: policy.min_feerate_per_kw as u64,
        max_feerate: policy.max_feerate_per_kw as u64,
        onchain,
        filter,
    };
    let mut world = World::new(cfg);
    r.count("worlds");
    r.count(if onchain { "worlds.onchain" } else { "worlds.simple" });
    if !p.filter.rules.is_empty() {
        r.count("worlds.with_filter");
    }
    if extreme {
        r.count("worlds.extreme_values");
    }
    let payee = PublicKey::from_secret_key(&secp, &SecretKey::from_slice(&[9u8; 32]).unwrap());

    let mut height: u64 = 0;
    let mut salt = 0u64;
    let mut dead = false;

    // a few blocks so that heights are not all zero
    for _ in 0..rng.below(4) {
        salt += 1;
        match report::catch(|| add_block(&world, vec![], salt)) {
            Ok(Ok(())) => height += 1,
            other => {
                r.inconclusive(&format!("harness: initial block refused: {:?}", other.map(|x| x.err())));
                return;
            }
        }
    }

    let n_channels = 1 + rng.below(3);
    let mut chans: Vec<ChanGhost> = vec![];
    for ci in 0..n_channels {
        if dead {
            break;
        }
        // ---------------- setup_channel
        let s = gen_setup(rng, &p, extreme);
        let cp = CpKeys::gen(rng);
        let vout = rng.below(3) as u32;
        let funding_tx = make_funding_tx(rng, vout, s.channel_value_sat);
        let funding_outpoint = OutPoint { txid: funding_tx.compute_txid(), vout };
        let setup = ChannelSetup {
            is_outbound: s.is_outbound,
            channel_value_sat: s.channel_value_sat,
            push_value_msat: s.push_value_msat,
            funding_outpoint,
            holder_selected_contest_delay: s.holder_selected_delay as u16,
            holder_shutdown_script: None,
            counterparty_points: cp.points(&secp),
            counterparty_selected_contest_delay: s.counterparty_selected_delay as u16,
            counterparty_shutdown_script: None,
            commitment_type: s.ctype.real(),
        };
        let mut peer = [2u8; 33];
        peer[1..].copy_from_slice(&rng.bytes::<32>());
        let node = world.node.clone();
        let dbid = ci + 1;
        // a third of the channels live behind the protocol handler (versions 4, 5, 6)
        let via: Option<u32> = if hrng.chance(1, 3) { Some(4 + hrng.below(3) as u32) } else { None };
        let id = match via {
            None => match report::catch(|| node.new_channel(dbid, &peer, &node)) {
                Ok(Ok((id, _))) => id,
                other => {
                    r.inconclusive(&format!("harness: new_channel failed: {:?}", other.map(|x| x.map(|_| ()).map_err(|e| e.message().to_string()))));
                    return;
                }
            },
            Some(v) => {
                r.count("handler.channels");
                let res = report::catch(|| {
                    let root = build_root(&node, v)?;
                    root.handle(Wire::NewChannel(msgs::NewChannel { peer_id: PubKey(peer), dbid })).map(|_| ()).map_err(|e| herr(&e))
                });
                count_handler(r, "NewChannel", v, &res);
                match res {
                    Ok(Ok(())) => ChannelId::new_from_peer_id_and_oid(&peer, dbid),
                    other => {
                        r.inconclusive(&format!("harness: NewChannel through the protocol handler failed: {:?}", other));
                        return;
                    }
                }
            }
        };
        let breaches = judge_setup(&p, &s);
        let enabled_bad: Vec<&SetupBreach> = breaches.iter().filter(|b| !b.downgraded).collect();
        r.eval(1);
        let setup_entry = match via {
            None => "Node::setup_channel".to_string(),
            Some(v) => format!("protocol handler (version {}): SetupChannel", v),
        };
        let res: Result<Result<(), String>, String> = match via {
            None => report::catch(|| {
                node.setup_channel(id.clone(), None, setup.clone(), &lightning_signer::bitcoin::bip32::DerivationPath::master())
                    .map(|_| ())
                    .map_err(|e| e.message().to_string())
            }),
            Some(v) => {
                let cpp = &setup.counterparty_points;
                let msg = Wire::SetupChannel(msgs::SetupChannel {
                    is_outbound: s.is_outbound,
                    channel_value: s.channel_value_sat,
                    push_value: s.push_value_msat,
                    funding_txid: funding_outpoint.txid,
                    funding_txout: funding_outpoint.vout as u16,
                    to_self_delay: s.holder_selected_delay as u16,
                    local_shutdown_script: Octets(vec![]),
                    local_shutdown_wallet_index: None,
                    remote_basepoints: Basepoints {
                        revocation: PubKey(cpp.revocation_basepoint.0.serialize()),
                        payment: PubKey(cpp.payment_point.serialize()),
                        htlc: PubKey(cpp.htlc_basepoint.0.serialize()),
                        delayed_payment: PubKey(cpp.delayed_payment_basepoint.0.serialize()),
                    },
                    remote_funding_pubkey: PubKey(cpp.funding_pubkey.serialize()),
                    remote_to_self_delay: s.counterparty_selected_delay as u16,
                    remote_shutdown_script: Octets(vec![]),
                    channel_type: Octets(channel_type_wire(&mut hrng, s.ctype)),
                });
                let res = handle_on_channel(&node, v, peer, dbid, msg).map(|x| x.map(|_| ()));
                count_handler(r, "SetupChannel", v, &res);
                if !enabled_bad.is_empty() {
                    r.count("handler.SetupChannel.bad_requests");
                    if matches!(res, Ok(Err(_))) {
                        r.count("handler.SetupChannel.bad_refused");
                    }
                }
                res
            }
        };
        let outcome = match res {
            Ok(Ok(())) => Outcome::Accepted,
            Ok(Err(e)) => Outcome::Refused(e),
            Err(pmsg) => Outcome::Panicked(pmsg),
        };
        for b in breaches.iter() {
            r.count(&format!("clause.setup_{}.bad_requests{}", b.key, if b.downgraded { ".downgraded" } else { "" }));
        }
        let setup_detail = |extra: Value| -> Value {
            json!({
                "entry_point": setup_entry,
                "seed": ctx.cli.seed, "shard": ctx.shard, "world": ctx.world_ix, "channel_index": ci,
                "policy": p.to_json(), "setup": s.to_json(),
                "funding_outpoint": format!("{}:{}", funding_outpoint.txid, funding_outpoint.vout),
                "observed": extra,
            })
        };
        let dh = format!(
            "setup:{}:{}:{}:{}:{}:{}",
            via.is_some(),
            onchain,
            s.ctype.name(),
            breaches.iter().map(|b| format!("{}{}", b.key, b.downgraded)).collect::<Vec<_>>().join(","),
            s.channel_value_sat > p.max_channel_size_sat,
            matches!(outcome, Outcome::Accepted)
        );
        r.distinct_hash(fnv_str(&dh));
        match outcome {
            Outcome::Accepted => {
                r.count("setup.accepted");
                for b in breaches.iter().filter(|b| b.downgraded) {
                    r.count(&format!("clause.setup_{}.downgraded_bad_accepted", b.key));
                }
                if enabled_bad.is_empty() {
                    r.count("setup.accepted.predicate_ok");
                }
                for b in enabled_bad.iter() {
                    r.violation(b.signature, setup_detail(json!({"result": "Ok", "why": b.why})));
                }
                r.sample(json!({"op": "setup_channel", "policy": p.to_json(), "setup": s.to_json(), "result": "Ok"}));
                chans.push(ChanGhost {
                    id,
                    setup: s,
                    cp,
                    funding_tx,
                    funding_outpoint,
                    funding_confirmed: false,
                    close_seen: false,
                    cp_accepted_max: None,
                    holder_accepted_max: None,
                    cp_last: None,
                    holder_last: None,
                    cp_revoked_next: 0,
                    via,
                    peer,
                    dbid,
                });
            }
            Outcome::Refused(msg) => {
                r.count("setup.refused");
                r.set_add("setup_refusal_kinds", &norm_msg(&msg));
                if enabled_bad.is_empty() {
                    r.count("setup.refused.although_predicate_ok");
                } else {
                    for b in enabled_bad.iter() {
                        r.count(&format!("clause.setup_{}.bad_refused", b.key));
                    }
                }
                // a refused channel must not be usable: a commitment request on it must fail
                let point = cp.commitment_point(&secp, 0);
                let v = s.channel_value_sat;
                let probe: Result<Result<(), String>, String> = match via {
                    None => report::catch(|| {
                        node.with_channel(&id, |chan| {
                            chan.sign_counterparty_commitment_tx_phase2(&point, 0, 1000, v.saturating_sub(1000), 0, vec![], vec![])
                        })
                        .map(|_| ())
                        .map_err(|e| e.message().to_string())
                    }),
                    Some(ver) => {
                        let m = Wire::SignRemoteCommitmentTx2(msgs::SignRemoteCommitmentTx2 {
                            remote_per_commitment_point: PubKey(point.serialize()),
                            commitment_number: 0,
                            feerate: 1000,
                            to_local_value_sat: v.saturating_sub(1000),
                            to_remote_value_sat: 0,
                            htlcs: Array(vec![]),
                        });
                        let res = handle_on_channel(&node, ver, peer, dbid, m).map(|x| x.map(|_| ()));
                        count_handler(r, "SignRemoteCommitmentTx2.probe_after_refused_setup", ver, &res);
                        res
                    }
                };
                r.count("setup.refused.probe_sign");
                match probe {
                    Ok(Ok(_)) => r.violation(
                        "c05:commitment-signed-on-channel-whose-setup-was-refused",
                        setup_detail(json!({"setup_result": msg, "probe": if via.is_some() { "SignRemoteCommitmentTx2(0) through the protocol handler returned a signature" } else { "sign_counterparty_commitment_tx_phase2(0) returned Ok" }})),
                    ),
                    Ok(Err(_)) => r.count("setup.refused.probe_sign.refused"),
                    Err(pm) => {
                        r.count("panic.probe");
                        r.set_add("panic_kinds", &norm_msg(&pm));
                        dead = true;
                    }
                }
            }
            Outcome::Panicked(pm) => {
                r.count("setup.panic");
                r.count(&format!("panic.profile.{}", ctx.cli.profile));
                r.set_add("panic_kinds", &norm_msg(&pm));
                dead = true;
            }
        }
    }
    if dead || chans.is_empty() {
        if dead {
            r.count("worlds.abandoned_after_panic");
        }
        return;
    }

    // ---------------- commitments
    let ops = 10 + rng.below(14);
    for op in 0..ops {
        if dead {
            break;
        }
        // a signer restart now and then: what the restored signer knows about the chain (heights, funding and
        // closing depth of every channel) must keep following the blocks fed afterwards
        if rng.chance(1, 12) {
            match report::catch(|| world.restart()) {
                Ok(Ok(())) => r.count("chain.restart"),
                other => {
                    r.inconclusive(&format!("harness: restart failed: {:?}", other).chars().take(200).collect::<String>());
                    return;
                }
            }
        }
        // chain events
        let ev = rng.below(100);
        if ev < 22 {
            let gi = rng.usize(chans.len());
            let mut txs = vec![];
            let mut what = "empty";
            {
                let g = &mut chans[gi];
                if !g.funding_confirmed && ev < 12 {
                    txs.push(g.funding_tx.clone());
                    what = "funding";
                } else if g.funding_confirmed && !g.close_seen && ev < 15 && op > ops / 2 {
                    txs.push(make_closing_tx(rng, g.funding_outpoint));
                    what = "close";
                }
            }
            salt += 1;
            match report::catch(|| add_block(&world, txs, salt)) {
                Ok(Ok(())) => {
                    height += 1;
                    r.count(&format!("chain.block.{}", what));
                    let g = &mut chans[gi];
                    match what {
                        "funding" => g.funding_confirmed = true,
                        "close" => g.close_seen = true,
                        _ => {}
                    }
                }
                Ok(Err(e)) if e.contains("InvalidProof") => {
                    // the compact proof built by txoo's prove_unchecked is refused when a watched outpoint that the
                    // block does not spend happens to match the block's spend filter (a false positive of the
                    // Golomb-coded set; the real protocol falls back to a full-block proof): rare, nothing was
                    // connected, the world simply ends here
                    r.count("harness.block_with_filter_false_positive.world_ended");
                    return;
                }
                Ok(Err(e)) => {
                    r.inconclusive(&format!("harness: block refused: {}", e));
                    return;
                }
                Err(pm) => {
                    r.count("panic.add_block");
                    r.set_add("panic_kinds", &norm_msg(&pm));
                    r.count("worlds.abandoned_after_panic");
                    return;
                }
            }
        }

        let gi = rng.usize(chans.len());
        let side = if rng.bool() { Side::Counterparty } else { Side::Holder };
        let (acc_max, last) = {
            let g = &chans[gi];
            match side {
                Side::Counterparty => (g.cp_accepted_max, g.cp_last.clone()),
                Side::Holder => (g.holder_accepted_max, g.holder_last.clone()),
            }
        };
        let next = acc_max.map(|m| m + 1).unwrap_or(0);
        // commitment number: mostly the next one, sometimes a retry of the last accepted, sometimes ahead
        let mut retry_content: Option<Content> = None;
        let n = match rng.below(12) {
            0 if last.is_some() => {
                let (ln, lc) = last.clone().unwrap();
                if rng.chance(3, 4) {
                    retry_content = Some(lc);
                }
                ln
            }
            1 => next + 1,
            _ => next,
        };
        let is_new = acc_max.map(|m| n > m).unwrap_or(true);
        let chain = RefChain { height, funding_confirmed: chans[gi].funding_confirmed, close_seen: chans[gi].close_seen };
        let s = chans[gi].setup.clone();
        let (content, fee_mode) = match retry_content {
            Some(c) => (c, FeeMode::InRange),
            None => gen_content(rng, &p, &s, &chain, side, n),
        };

        // outgoing HTLCs need an approved payment unless the filter lets them through
        let outgoing = match side {
            Side::Counterparty => &content.received,
            Side::Holder => &content.offered,
        };
        for h in outgoing.iter() {
            if rng.chance(7, 10) && h.value_sat < (1u64 << 40) {
                let node = world.node.clone();
                let (hash, amt) = (PaymentHash(h.hash), h.value_sat * 1000);
                match report::catch(|| node.add_keysend(payee, hash, amt)) {
                    Ok(Ok(true)) => r.count("keysend.approved"),
                    Ok(_) => r.count("keysend.not_approved"),
                    Err(pm) => {
                        r.count("panic.keysend");
                        r.set_add("panic_kinds", &norm_msg(&pm));
                        dead = true;
                    }
                }
            }
        }
        if dead {
            break;
        }

        // sanity: the ghost height must be what the channel's monitor reports
        let id = chans[gi].id.clone();
        let node = world.node.clone();
        let mon_height = report::catch(|| node.with_channel(&id, |chan| Ok(chan.monitor.as_chain_state().current_height)));
        match mon_height {
            Ok(Ok(hh)) if hh as u64 == height => {}
            Ok(Ok(hh)) => {
                // the tracker is what the blocks were fed to: if it agrees with the ghost, it is the channel's own
                // view of the chain that lags (the judgement below goes by the chain as it was fed)
                let tracker_height = world.node.get_tracker().height() as u64;
                if tracker_height == height {
                    r.count("ghost.channel_view_of_the_chain_differs_from_the_tracker");
                } else {
                    r.count("ghost.height_mismatch");
                    r.inconclusive(&format!("harness: ghost height {} != tracker height {} (monitor height {})", height, tracker_height, hh));
                    return;
                }
            }
            _ => {
                r.count("panic.with_channel");
                r.count("worlds.abandoned_after_panic");
                return;
            }
        }

        let breaches = judge_commitment(&p, &s, &chain, side, n, is_new, &content);
        let enabled_bad: Vec<&Breach> = breaches.iter().filter(|b| !b.downgraded).collect();
        let mut bad_mask = 0u32;
        let mut down_mask = 0u32;
        for b in breaches.iter() {
            if b.downgraded {
                down_mask |= b.clause.bit();
            } else {
                bad_mask |= b.clause.bit();
            }
        }
        for c in ALL_CLAUSES {
            if bad_mask & c.bit() != 0 {
                r.count(&format!("clause.{}.bad_requests", c.key()));
            }
            if down_mask & c.bit() != 0 {
                r.count(&format!("clause.{}.bad_requests.downgraded", c.key()));
            }
        }
        match fee_mode {
            FeeMode::AliasU32 => r.count(&format!("targeted.fee_alias_u32.{}.requests", side.short())),
            FeeMode::WrapMul => r.count(&format!("targeted.fee_times_1000_wrap.{}.requests", side.short())),
            _ => {}
        }

        // ---- the request
        r.eval(1);
        // through the protocol handler on the channels that live behind it, unless the message cannot
        // carry the request (an HTLC amount that does not fit the msat field)
        let (peer, dbid) = (chans[gi].peer, chans[gi].dbid);
        let wire: Option<(u32, Array<Htlc>)> = match chans[gi].via {
            None => None,
            Some(v) => match htlcs_wire(&mut hrng, r, side, &content) {
                Some(h) => Some((v, h)),
                None => {
                    r.count("handler.request_not_expressible_in_msat.sent_directly");
                    None
                }
            },
        };
        let via = wire.as_ref().map(|(v, _)| *v);
        let entry_name = match (via, side) {
            (None, _) => side.name().to_string(),
            (Some(v), Side::Counterparty) => format!("protocol handler (version {}): SignRemoteCommitmentTx2", v),
            (Some(v), Side::Holder) => format!("protocol handler (version {}): ValidateCommitmentTx2", v),
        };
        if via.is_some() {
            r.count(&format!("handler.{}.requests", side.short()));
            if !enabled_bad.is_empty() {
                r.count(&format!("handler.{}.bad_requests", side.short()));
            }
        }
        // protocol version 4: a validated holder commitment whose predecessor the same message failed to revoke
        let mut v4_revoke_refused = false;
        let outcome = {
            let g = &chans[gi];
            match side {
                Side::Counterparty => {
                    let point = g.cp.commitment_point(&secp, n);
                    let c = content.clone();
                    let res: Result<Result<(), String>, String> = match wire {
                        None => report::catch(|| {
                            node.with_channel(&id, |chan| {
                                chan.sign_counterparty_commitment_tx_phase2(
                                    &point,
                                    n,
                                    c.feerate_per_kw,
                                    c.to_holder_sat,
                                    c.to_counterparty_sat,
                                    to_info2(&c.offered),
                                    to_info2(&c.received),
                                )
                            })
                            .map(|_| ())
                            .map_err(|e| e.message().to_string())
                        }),
                        Some((v, htlcs)) => {
                            let msg = Wire::SignRemoteCommitmentTx2(msgs::SignRemoteCommitmentTx2 {
                                remote_per_commitment_point: PubKey(point.serialize()),
                                commitment_number: n,
                                feerate: c.feerate_per_kw,
                                to_local_value_sat: c.to_holder_sat,
                                to_remote_value_sat: c.to_counterparty_sat,
                                htlcs,
                            });
                            let res = handle_on_channel(&node, v, peer, dbid, msg).map(|x| {
                                x.map(|reply| {
                                    if reply.as_any().downcast_ref::<msgs::SignCommitmentTxWithHtlcsReply>().is_none() {
                                        r.count("handler.SignRemoteCommitmentTx2.unexpected_reply_type");
                                    }
                                })
                            });
                            count_handler(r, "SignRemoteCommitmentTx2", v, &res);
                            res
                        }
                    };
                    match res {
                        Ok(Ok(())) => Outcome::Accepted,
                        Ok(Err(e)) => Outcome::Refused(e),
                        Err(pm) => Outcome::Panicked(pm),
                    }
                }
                Side::Holder => {
                    let c = content.clone();
                    let cpk = &g.cp;
                    let secp_ref = &secp;
                    // produce the counterparty's signatures (may itself hit LDK arithmetic panics
                    // for absurd contents: then dummy signatures are sent)
                    // (on a copy of the channel, outside its lock, so that a panic cannot poison it)
                    let copy = match report::catch(|| node.with_channel(&id, |chan| Ok(chan.clone()))) {
                        Ok(Ok(c)) => c,
                        _ => {
                            r.count("panic.with_channel");
                            r.count("worlds.abandoned_after_panic");
                            return;
                        }
                    };
                    let sigs = report::catch(|| counterparty_sign_holder(&copy, secp_ref, cpk, n, &c));
                    let (sig, hsigs) = match sigs {
                        Ok(Ok((s1, s2))) => (s1, s2),
                        Ok(Err(_)) => {
                            // e.g. the signer does not hand out the per-commitment point for n
                            r.count("holder.counterparty_signature_unavailable");
                            (dummy_sig(&secp), vec![dummy_sig(&secp); c.n_htlcs() as usize])
                        }
                        Err(pm) => {
                            r.count("holder.counterparty_signature_unavailable.harness_panic");
                            r.set_add("harness_signing_panic_kinds", &norm_msg(&pm));
                            (dummy_sig(&secp), vec![dummy_sig(&secp); c.n_htlcs() as usize])
                        }
                    };
                    let res: Result<Result<(), String>, String> = match wire {
                        None => report::catch(|| {
                            node.with_channel(&id, |chan| {
                                chan.validate_holder_commitment_tx_phase2(
                                    n,
                                    c.feerate_per_kw,
                                    c.to_holder_sat,
                                    c.to_counterparty_sat,
                                    to_info2(&c.offered),
                                    to_info2(&c.received),
                                    &sig,
                                    &hsigs,
                                )
                            })
                            .map_err(|e| e.message().to_string())
                        }),
                        Some((v, htlcs)) => {
                            let hty = if g.setup.ctype.anchors() { EcdsaSighashType::SinglePlusAnyoneCanPay } else { EcdsaSighashType::All };
                            let msg = Wire::ValidateCommitmentTx2(msgs::ValidateCommitmentTx2 {
                                commitment_number: n,
                                feerate: c.feerate_per_kw,
                                to_local_value_sat: c.to_holder_sat,
                                to_remote_value_sat: c.to_counterparty_sat,
                                htlcs,
                                signature: to_bsig(&sig, EcdsaSighashType::All),
                                htlc_signatures: Array(hsigs.iter().map(|s| to_bsig(s, hty)).collect()),
                            });
                            let before = if v < msgs::PROTOCOL_VERSION_REVOKE { pending_holder(&node, &id) } else { None };
                            let res = handle_on_channel(&node, v, peer, dbid, msg).map(|x| {
                                x.map(|reply| {
                                    if reply.as_any().downcast_ref::<msgs::ValidateCommitmentTxReply>().is_none() {
                                        r.count("handler.ValidateCommitmentTx2.unexpected_reply_type");
                                    }
                                })
                            });
                            count_handler(r, "ValidateCommitmentTx2", v, &res);
                            match res {
                                Ok(Err(e)) if v < msgs::PROTOCOL_VERSION_REVOKE => {
                                    // the old protocol validates and revokes in one message: if the signer now holds a new
                                    // pending holder commitment n, it was the validation that passed and the revocation
                                    // that refused (what the direct entry shows as Ok followed by a refused revoke)
                                    let after = pending_holder(&node, &id);
                                    match (before, after) {
                                        (Some((_, b_info)), Some((a_num, a_info))) if a_num == n && a_info.is_some() && a_info != b_info => {
                                            r.count("handler.ValidateCommitmentTx2.version_4.validated_then_revocation_refused");
                                            v4_revoke_refused = true;
                                            Ok(Ok(()))
                                        }
                                        _ => {
                                            if e.contains("get_per_commitment_point") && n == next + 1 {
                                                r.count("handler.ValidateCommitmentTx2.lookahead_refused_for_the_reply_point");
                                            }
                                            Ok(Err(e))
                                        }
                                    }
                                }
                                Ok(Err(e)) => {
                                    if e.contains("get_per_commitment_point") && n == next + 1 {
                                        // a commitment one ahead of the next: the direct entry validates it (without
                                        // storing it); the handler goes on to fetch the point n + 1 for its reply, which
                                        // the signer does not hand out yet.  Counted as refused, not judged.
                                        r.count("handler.ValidateCommitmentTx2.lookahead_refused_for_the_reply_point");
                                    }
                                    if e.contains("activate_initial_commitment") {
                                        // versions 5+: a repeated commitment 0 passes the validation but not the activation
                                        r.count("handler.ValidateCommitmentTx2.refused_by_activate_initial_commitment");
                                    }
                                    Ok(Err(e))
                                }
                                other => other,
                            }
                        }
                    };
                    match res {
                        Ok(Ok(())) => Outcome::Accepted,
                        Ok(Err(e)) => Outcome::Refused(e),
                        Err(pm) => Outcome::Panicked(pm),
                    }
                }
            }
        };

        let n_class = if n == 0 {
            "n0"
        } else if is_new {
            "new"
        } else {
            "retry"
        };
        let detail = |why: &str, result: &str| -> Value {
            let g = &chans[gi];
            json!({
                "entry_point": entry_name,
                "seed": ctx.cli.seed, "shard": ctx.shard, "world": ctx.world_ix, "op_index": op, "profile": ctx.cli.profile,
                "policy": p.to_json(), "setup": g.setup.to_json(),
                "chain": {"height": chain.height, "funding_in_a_block": chain.funding_confirmed, "funding_spend_in_a_block": chain.close_seen},
                "commitment_number": n, "new_commitment_number": is_new,
                "previously_accepted_max": {"counterparty": g.cp_accepted_max, "holder": g.holder_accepted_max},
                "content": content.to_json(),
                "implied": {
                    "outputs_sum_sat": content.out_sum().to_string(),
                    "implied_fee_sat": (g.setup.channel_value_sat as u128).checked_sub(content.out_sum()).map(|f| f.to_string()),
                    "commitment_weight": commitment_weight(g.setup.ctype.anchors(), content.n_htlcs()).to_string(),
                },
                "observed": result, "why": why,
            })
        };
        let outcome_name = match &outcome {
            Outcome::Accepted => "ok",
            Outcome::Refused(_) => "refused",
            Outcome::Panicked(_) => "panic",
        };
        r.distinct_hash(fnv_str(&format!(
            "{}:{}:{}:{}:{}:{}:{}:{}:{:?}:{}",
            side.short(),
            via.is_some(),
            onchain,
            s.ctype.name(),
            n_class,
            bad_mask,
            down_mask,
            content.n_htlcs().min(3),
            fee_mode,
            outcome_name
        )));

        match outcome {
            Outcome::Accepted => {
                r.count(&format!("{}.accepted", side.short()));
                r.count(&format!("{}.accepted.{}", side.short(), n_class));
                if content.n_htlcs() > 0 {
                    r.count(&format!("{}.accepted.with_htlcs", side.short()));
                }
                if via.is_some() {
                    r.count(&format!("handler.{}.accepted", side.short()));
                    r.count(&format!("handler.{}.accepted.{}", side.short(), n_class));
                    if content.n_htlcs() > 0 {
                        r.count(&format!("handler.{}.accepted.with_htlcs", side.short()));
                    }
                    if down_mask != 0 {
                        r.count(&format!("handler.{}.accepted.downgraded_bad", side.short()));
                    }
                }
                if p.onchain && n > 0 && is_new {
                    r.count("onchain.new_commitment_accepted_after_funding_confirmed");
                }
                if p.use_chain_state && content.n_htlcs() > 0 {
                    r.count("accepted.with_htlcs_under_chain_state");
                }
                for c in ALL_CLAUSES {
                    if down_mask & c.bit() != 0 {
                        r.count(&format!("clause.{}.downgraded_bad_accepted", c.key()));
                    }
                }
                // exact-bound acceptances (shows the generator reaches the edges from inside)
                if content.n_htlcs() == p.max_htlcs && p.max_htlcs > 0 {
                    r.count("edge.accepted.htlc_count_eq_max");
                }
                if content.n_htlcs() > 0 && content.htlc_sum() == p.max_htlc_value_sat as u128 {
                    r.count("edge.accepted.inflight_eq_max");
                }
                // statistic outside the property's wording: declared feerate of second-level
                // HTLC transactions is not range-checked when the commitment is accepted
                if content.n_htlcs() > 0
                    && !s.ctype.zero_fee_htlc()
                    && ((content.feerate_per_kw as u64) < p.min_feerate || content.feerate_per_kw as u64 > p.max_feerate)
                {
                    r.count("stat.accepted_with_declared_htlc_feerate_outside_policy_range");
                }
                if enabled_bad.is_empty() {
                    r.count(&format!("{}.accepted.predicate_ok", side.short()));
                } else {
                    for b in enabled_bad.iter() {
                        r.violation(b.signature, detail(&b.why, "Ok"));
                    }
                }
                match fee_mode {
                    FeeMode::AliasU32 => r.count(&format!("targeted.fee_alias_u32.{}.accepted", side.short())),
                    FeeMode::WrapMul => r.count(&format!("targeted.fee_times_1000_wrap.{}.accepted", side.short())),
                    _ => {}
                }
                r.sample(json!({"op": side.name(), "n": n, "setup": s.to_json(), "policy": p.to_json(), "content": content.to_json(), "result": "Ok"}));

                // bookkeeping + let the channel move on
                let g = &mut chans[gi];
                match side {
                    Side::Counterparty => {
                        if is_new {
                            g.cp_accepted_max = Some(n);
                        }
                        g.cp_last = Some((n, content.clone()));
                        // the counterparty revokes everything before n
                        while g.cp_revoked_next < n {
                            let k = g.cp_revoked_next;
                            let secret = g.cp.commitment_secret(k);
                            let res: Result<Result<(), String>, String> = match g.via {
                                None => report::catch(|| {
                                    node.with_channel(&id, |chan| chan.validate_counterparty_revocation(k, &secret)).map_err(|e| e.message().to_string())
                                }),
                                Some(v) => {
                                    let msg = Wire::ValidateRevocation(msgs::ValidateRevocation {
                                        commitment_number: k,
                                        commitment_secret: DisclosedSecret(secret.secret_bytes()),
                                    });
                                    let res = handle_on_channel(&node, v, peer, dbid, msg).map(|x| x.map(|_| ()));
                                    count_handler(r, "ValidateRevocation", v, &res);
                                    res
                                }
                            };
                            match res {
                                Ok(Ok(())) => {
                                    r.count("progress.counterparty_revocation.ok");
                                    g.cp_revoked_next += 1;
                                }
                                Ok(Err(_)) => {
                                    r.count("progress.counterparty_revocation.refused");
                                    break;
                                }
                                Err(pm) => {
                                    r.count("panic.revocation");
                                    r.set_add("panic_kinds", &norm_msg(&pm));
                                    dead = true;
                                    break;
                                }
                            }
                        }
                    }
                    Side::Holder => {
                        if is_new {
                            g.holder_accepted_max = Some(n);
                        }
                        g.holder_last = Some((n, content.clone()));
                        let res: Result<Result<(), String>, String> = match via {
                            None => report::catch(|| {
                                node.with_channel(&id, |chan| chan.revoke_previous_holder_commitment(n)).map(|_| ()).map_err(|e| e.message().to_string())
                            }),
                            // the old protocol revoked the predecessor in the same message
                            Some(v) if v < msgs::PROTOCOL_VERSION_REVOKE => {
                                if v4_revoke_refused {
                                    Ok(Err("revocation refused inside ValidateCommitmentTx2".to_string()))
                                } else {
                                    r.count("handler.ValidateCommitmentTx2.version_4.revoked_in_the_same_message");
                                    Ok(Ok(()))
                                }
                            }
                            // the newer protocol: commitment 0 was activated by the validation message, later ones
                            // need RevokeCommitmentTx(n - 1)
                            Some(_) if n == 0 => {
                                r.count("handler.ValidateCommitmentTx2.activated_initial_commitment");
                                Ok(Ok(()))
                            }
                            Some(v) => {
                                let msg = Wire::RevokeCommitmentTx(msgs::RevokeCommitmentTx { commitment_number: n - 1 });
                                let res = handle_on_channel(&node, v, peer, dbid, msg).map(|x| {
                                    x.map(|reply| {
                                        if reply.as_any().downcast_ref::<msgs::RevokeCommitmentTxReply>().is_none() {
                                            r.count("handler.RevokeCommitmentTx.unexpected_reply_type");
                                        }
                                    })
                                });
                                count_handler(r, "RevokeCommitmentTx", v, &res);
                                res
                            }
                        };
                        match res {
                            Ok(Ok(_)) => r.count("progress.holder_revoke.ok"),
                            Ok(Err(e)) => {
                                r.count("progress.holder_revoke.refused");
                                r.set_add(&format!("holder_revoke_refusal_kinds{}", if via.is_some() { ".handler" } else { "" }), &norm_msg(&e));
                            }
                            Err(pm) => {
                                r.count("panic.holder_revoke");
                                r.set_add("panic_kinds", &norm_msg(&pm));
                                dead = true;
                            }
                        }
                    }
                }
            }
            Outcome::Refused(msg) => {
                r.count(&format!("{}.refused", side.short()));
                r.set_add(&format!("{}_refusal_kinds", side.short()), &norm_msg(&msg));
                if via.is_some() {
                    r.count(&format!("handler.{}.refused", side.short()));
                    r.set_add(&format!("handler_{}_refusal_kinds", side.short()), &norm_msg(&msg));
                    if !enabled_bad.is_empty() {
                        r.count(&format!("handler.{}.bad_refused", side.short()));
                    } else {
                        r.count(&format!("handler.{}.refused.although_predicate_ok", side.short()));
                    }
                }
                if enabled_bad.is_empty() {
                    r.count(&format!("{}.refused.although_predicate_ok", side.short()));
                } else {
                    for c in ALL_CLAUSES {
                        if bad_mask & c.bit() != 0 {
                            r.count(&format!("clause.{}.bad_refused", c.key()));
                        }
                    }
                }
                if fee_mode == FeeMode::AliasU32 || fee_mode == FeeMode::WrapMul {
                    r.set_add(&format!("targeted_{}_refusal_kinds", side.short()), &norm_msg(&msg));
                    let which = if fee_mode == FeeMode::AliasU32 { "fee_alias_u32" } else { "fee_times_1000_wrap" };
                    let by = if msg.contains("validate_fee") || msg.contains("fee underflow") {
                        "by_fee_check"
                    } else if msg.contains("channel value") {
                        "by_channel_size"
                    } else {
                        "by_other_rule"
                    };
                    r.count(&format!("targeted.{}.{}.refused.{}", which, side.short(), by));
                }
                match fee_mode {
                    FeeMode::AliasU32 => r.count(&format!("targeted.fee_alias_u32.{}.refused", side.short())),
                    FeeMode::WrapMul => r.count(&format!("targeted.fee_times_1000_wrap.{}.refused", side.short())),
                    _ => {}
                }
            }
            Outcome::Panicked(pm) => {
                r.count(&format!("{}.panic", side.short()));
                if via.is_some() {
                    r.count(&format!("handler.{}.panic", side.short()));
                }
                r.count(&format!("panic.profile.{}", ctx.cli.profile));
                r.set_add("panic_kinds", &norm_msg(&pm));
                match fee_mode {
                    FeeMode::AliasU32 => r.count(&format!("targeted.fee_alias_u32.{}.panic", side.short())),
                    FeeMode::WrapMul => r.count(&format!("targeted.fee_times_1000_wrap.{}.panic", side.short())),
                    _ => {}
                }
                dead = true;
            }
        }
    }
    if dead {
        r.count("worlds.abandoned_after_panic");
    }
}

fn main() {
    let cli = Cli::parse("C05");
    report::install_quiet_panic_hook();
    let start = Instant::now();
    let quick = cli.tier.is_quick();
    let shards = if quick { 32 } else { 128 };
    let worlds_per_shard = cli.scaled(if quick { 100 } else { 250 });
    let mut rep = run_sharded("C05", cli.threads, shards, |i, r| {
        let mut rng = Rng::new(cli.seed.wrapping_mul(1_000_003).wrapping_add(i as u64).wrapping_mul(7919));
        for w in 0..worlds_per_shard {
            let mut wr = rng.fork(w);
            let extreme = w % 5 == 4;
            let ctx = Ctx { cli: &cli, shard: i, world_ix: w };
            run_world(&ctx, &mut wr, r, extreme);
        }
    });

    // vacuity guards: every entry point must have accepted something, and every clause must have
    // been challenged by requests that break it
    rep.require("setup.accepted", 200);
    rep.require("cp.accepted", 300);
    rep.require("holder.accepted", 300);
    rep.require("cp.accepted.with_htlcs", 50);
    rep.require("holder.accepted.with_htlcs", 50);
    rep.require("cp.accepted.new", 30);
    rep.require("holder.accepted.new", 30);
    rep.require("onchain.new_commitment_accepted_after_funding_confirmed", 20);
    rep.require("accepted.with_htlcs_under_chain_state", 20);
    for c in ALL_CLAUSES {
        rep.require(&format!("clause.{}.bad_requests", c.key()), 20);
    }
    rep.require("clause.setup_safe_type.bad_requests", 20);
    rep.require("clause.setup_delay.bad_requests", 20);
    rep.require("worlds.with_filter", 20);
    // the protocol-handler entry must have carried its share of all of this
    rep.require("handler.SetupChannel.ok", 60);
    rep.require("handler.SetupChannel.refused", 60);
    rep.require("handler.SetupChannel.bad_requests", 60);
    rep.require("handler.SignRemoteCommitmentTx2.ok", 100);
    rep.require("handler.SignRemoteCommitmentTx2.refused", 100);
    rep.require("handler.ValidateCommitmentTx2.ok", 100);
    rep.require("handler.ValidateCommitmentTx2.refused", 100);
    rep.require("handler.cp.accepted.with_htlcs", 15);
    rep.require("handler.holder.accepted.with_htlcs", 15);
    rep.require("handler.cp.accepted.new", 10);
    rep.require("handler.holder.accepted.new", 10);
    rep.require("handler.cp.bad_requests", 100);
    rep.require("handler.holder.bad_requests", 100);
    rep.require("handler.RevokeCommitmentTx.ok", 10);
    rep.require("handler.ValidateRevocation.ok", 10);
    rep.require("handler.htlc_with_msat_remainder", 50);
    for v in 4..=6 {
        rep.require(&format!("handler.requests.protocol_version_{}", v), 100);
    }

    finish(
        rep,
        FinishSpec {
            cli: &cli,
            level: "exploration",
            rule: "generated worlds (SimplePolicy bounds, optional PolicyFilter, simple/on-chain validator) x generated ChannelSetups x generated commitment contents around the bounds (b-1,b,b+1) and around the u32 / u64 overflow candidates of the fee-rate estimate, through Node::setup_channel, Channel::sign_counterparty_commitment_tx_phase2 and Channel::validate_holder_commitment_tx_phase2 (valid counterparty signatures), a third of the channels instead through the protocol handler of vls-protocol-signer at protocol versions 4, 5 and 6 (NewChannel, SetupChannel with the channel type as feature bits, SignRemoteCommitmentTx2 and ValidateCommitmentTx2 with HTLC amounts in msat carrying sub-satoshi remainders and LOCAL/REMOTE sides, RevokeCommitmentTx, ValidateRevocation; the handler's answer judged by the same predicate), blocks fed through the real ChainTracker; oracle = reference predicate from docs/policy-controls.md + BOLT-3 weights in u128, Ok => allowed, clauses disabled exactly where the filter downgrades their tag. evaluations = requests judged (setups + commitments). distinct = (entry point, direct or protocol handler, validator, commitment type, n class 0/new/retry, set of broken clauses, set of broken-but-downgraded clauses, HTLC count class, fee generator mode, outcome)",
            assumptions: vec![
                "BOLT-3 transaction construction (LDK chan_utils), secp256k1 and txoo proof construction are trusted and shared with the code under test".into(),
                "slack: implied fee rate judged against [min-2, max+1] in exact arithmetic (anchors excluded for the upper, included for the lower bound); dust judged against the weakest plausible limit (330 P2WSH / 294 P2WPKH / 330 + feerate*663|703/1000 for non-zero-fee HTLCs); an exact off-by-one at a bound is therefore not detected".into(),
                "the fee judged is channel_value_sat minus the sum of to_holder, to_counterparty and HTLC values of the request (the quantity the commitment actually leaves to miners and anchors); the declared feerate_per_kw of the request is only used for the HTLC trim limit (acceptances with a declared rate outside the policy range are counted as a statistic, not judged)".into(),
                "on-chain clause: 'new' = commitment number above every number previously accepted on that side; funding unconfirmed = the funding transaction is in no block fed to the tracker; close seen = a spend of the funding outpoint is in a fed block (no reorgs in this workload)".into(),
                "protocol-handler entry: a reply is an acceptance, an error reply a refusal; under protocol version 4 (validation and revocation in one message) an error reply that leaves a new pending holder commitment n in the signer is read as an accepted validation followed by a refused revocation, as the direct entry shows it; a holder commitment one ahead of the next (validated without being stored by the direct entry) is refused by the handler when it fetches the point for its reply, and a repeated commitment 0 by activate_initial_commitment under versions 5+: both counted, not judged; requests with an HTLC amount that does not fit the msat field are sent directly".into(),
                "panics of the code under test (overflow-checking profile, expect() on outputs > channel value) are counted, the world is abandoned; they are not C05 violations".into(),
            ],
            start,
            extra_coverage: Default::default(),
        },
    );
}
