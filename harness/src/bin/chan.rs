//! `chan` driver: channel request histories at handler level (protocol versions 4, 5, 6) and
//! direct Channel / ChannelBase API, with restarts.  Monitors: C01, C02, C03, C10, C11.
//! See /verif/DESIGN.md section 2.

use lightning_signer::bitcoin::bip32::{ChildNumber, DerivationPath};
use lightning_signer::bitcoin::hashes::Hash;
use lightning_signer::bitcoin::secp256k1::ecdsa::Signature;
use lightning_signer::bitcoin::secp256k1::{All, PublicKey, Secp256k1, SecretKey};
use lightning_signer::bitcoin::sighash::EcdsaSighashType;
use lightning_signer::bitcoin::{BlockHash, ScriptBuf, Transaction, TxOut};
use lightning_signer::util::test_utils::{make_test_funding_channel_outpoint, make_test_funding_tx_with_ins_outs, make_test_funding_wallet_input, make_test_funding_wallet_output};
use lightning_signer::node::SpendType;
use lightning_signer::channel::{ChannelBase, ChannelId};
use lightning_signer::node::NodeMonitor;
use lightning_signer::lightning::types::payment::PaymentHash;
use lightning_signer::node::Node;
use lightning_signer::util::status::Status;
use lightning_signer::wallet::Wallet;
use serde_json::{json, Value};
use std::collections::{BTreeMap, BTreeSet};
use std::sync::Arc;
use std::time::Instant;
use vls_protocol::model::{self, Bip32KeyVersion, BitcoinSignature, DisclosedSecret, Htlc, PubKey};
use vls_protocol::msgs::{self, Message};
use vls_protocol::serde_bolt::{Array, ArrayBE, Octets};
use vls_protocol_signer::approver::PositiveApprover;
use vls_protocol_signer::handler::{ChannelHandler, Handler, InitHandler, RootHandler};
use vls_verif::chanmodel::{random_setup, Balance, ChanModel, Content, CpKeys};
use vls_verif::report::{self, finish, run_sharded, FinishSpec};
use vls_verif::rng::fnv_str;
use vls_verif::snapshot;
use vls_verif::world::{World, WorldCfg};
use vls_verif::{oracle, Cli, Report, Rng};

// ---------------------------------------------------------------------------------------------
// request alphabet

#[derive(Clone, Copy, Debug, PartialEq, Eq)]
enum Api {
    Direct,
    /// direct API, phase-1 entry point (raw transaction + witness scripts)
    Phase1,
    Handler(u32),
    /// protocol handler at this version, with the raw-transaction sibling messages where a request has two
    /// (ValidateCommitmentTx, SignRemoteCommitmentTx); the other requests as `Handler`
    HandlerRaw(u32),
}

#[derive(Clone, Copy, Debug, PartialEq, Eq)]
enum SigVariant {
    Valid,
    WrongKey,
    OtherContent,
    OtherNumber,
    OneHtlcSigWrong,
    HtlcSigsPermuted,
    TooFewHtlcSigs,
}

#[derive(Clone, Copy, Debug, PartialEq, Eq)]
enum SecretVariant {
    Right,
    Random,
    RightForOther(i64),
    OtherSeed,
}

#[derive(Clone, Copy, Debug, PartialEq, Eq)]
enum PointVariant {
    Right,
    Random,
    OtherNumber,
    OtherSeed,
}

#[derive(Clone, Debug)]
enum Op {
    NewChannel,
    Setup { c: usize },
    ValidateHolder { c: usize, n: u64, api: Api, sigs: SigVariant, fresh_content: bool, register: bool },
    Revoke { c: usize, n: u64, api: Api },
    Activate { c: usize },
    GetPoint { c: usize, n: u64, api: Api },
    GetSecret { c: usize, n: u64, or_none: bool },
    CheckFutureSecret { c: usize, n: u64, api: Api },
    SignHolder { c: usize, n: u64, api: Api },
    SignHolderRecovery { c: usize },
    SignHolderRedundant { c: usize, n: u64, fresh_content: bool },
    SignCounterparty { c: usize, n: u64, api: Api, point: PointVariant, mutate_content: bool },
    ValidateRevocation { c: usize, n: u64, api: Api, secret: SecretVariant },
    MutualClose { c: usize, api: Api, bad: bool },
    Restart,
    AddBlock,
    AddBadBlock { kind: u8 },
    RemoveBlock { bad: u8 },
    Heartbeat,
    // node-level requests used to provoke refusals (C10) and durable changes (C11)
    Allowlist { kind: u8, sel: u8, bad_pos: u8, rot: u8 },
    Keysend { conflict: bool },
    ForgetChannel { c: usize },
    NewChannelReused,
    SetupAgainDifferent { c: usize },
    /// node-level histories: ask for the wallet signatures on the channel's funding transaction
    /// (bad 0: right arguments; 1: a wallet path of the wrong length; 2: a taproot previous output that is not the
    /// one at the supplied wallet index)
    SignOnchain { c: usize, bad: u8 },
}

#[derive(Clone, Debug)]
enum Res {
    Ok,
    Err(String),
    Panic(String),
}

impl Res {
    fn is_ok(&self) -> bool {
        matches!(self, Res::Ok)
    }
    fn tag(&self) -> String {
        match self {
            Res::Ok => "ok".into(),
            Res::Err(e) => err_tag(e),
            Res::Panic(p) => format!("panic:{}", p.chars().take(60).collect::<String>()),
        }
    }
}

/// Normalise an error message to a short tag (strip numbers / hex)
fn err_tag(e: &str) -> String {
    let mut out = String::new();
    let mut last_hash = false;
    for ch in e.chars().take(140) {
        if ch.is_ascii_digit() {
            if !last_hash {
                out.push('#');
                last_hash = true;
            }
        } else {
            out.push(ch);
            last_hash = false;
        }
    }
    out.chars().take(80).collect()
}

fn status_res<T>(r: Result<Result<T, Status>, String>) -> (Res, Option<T>) {
    match r {
        Ok(Ok(v)) => (Res::Ok, Some(v)),
        Ok(Err(s)) => (Res::Err(format!("{:?}: {}", s.code(), s.message())), None),
        Err(p) => (Res::Panic(p), None),
    }
}

// ---------------------------------------------------------------------------------------------
// ghost state (updated only from what crossed the API boundary)

#[derive(Default)]
struct Ghost {
    /// numbers n for which a validate request with valid-by-construction signatures for
    /// exactly the submitted content returned Ok
    validated: BTreeMap<u64, Content>,
    /// every content ever submitted with valid signatures for n and accepted (several for retries)
    disclosed: BTreeSet<u64>,
    signed: BTreeSet<u64>,
    /// extra candidate contents for signature identification (redundant signing)
    extra_contents: Vec<(u64, Content)>,
    cp_signed: BTreeMap<u64, (PublicKey, u64)>,
    /// points of counterparty commitments whose signing request got as far as the store and failed there: the
    /// signer may remember having signed them although no signature was released
    cp_unreleased: BTreeMap<u64, Vec<PublicKey>>,
    cp_revoked: BTreeSet<u64>,
    cp_secrets: Vec<(u64, [u8; 32])>,
    any_secret_before_setup: bool,
}

struct Chan {
    m: ChanModel,
    ready: bool,
    bal: Balance,
    /// content prepared for the next holder commitment (kept so that retries use identical content)
    next_content: Option<(u64, Content)>,
    /// content used for counterparty commitments by number (for retries)
    cp_contents: BTreeMap<u64, Content>,
    g: Ghost,
    /// a second commitment seed, for "other seed" points/secrets
    other_seed: [u8; 32],
    forgotten: bool,
    /// node-level histories: the transaction that funds this channel (its txid is the setup's funding txid), the
    /// wallet output it spends and that output's wallet index
    funding: Option<(Transaction, TxOut, u32)>,
}

struct Hist {
    world: World,
    chans: Vec<Chan>,
    log: Vec<Value>,
    next_dbid: u64,
    fresh_tag: u64,
    keysend_tag: u64,
    secp: Secp256k1<All>,
    shard: usize,
    index: u64,
    /// C11: differences (label=hash of restored value) already present after the previous request
    c11_known: BTreeSet<String>,
    c11_ext_known: BTreeSet<String>,
    c11_bk_known: BTreeSet<String>,
    c11_probe_known: u64,
    c11_ext_conflicts: usize,
    /// node-level histories (C10, C11): one payment hash used by every channel, approved once for one part
    shared_hash_enabled: bool,
    shared_registered: bool,
    /// channels are funded by a real transaction built here (node-level histories)
    funding_txs: bool,
}

#[derive(Clone, Copy, PartialEq, Eq, Debug)]
enum Prop {
    C01,
    C02,
    C03,
    C10,
    C11,
    /// second part of the C18 check: the key material in the replies of a channel's whole request history
    C18,
}

fn make_channel_handler(node: &Arc<Node>, version: u32, peer_id: [u8; 33], dbid: u64) -> ChannelHandler {
    let mut init = InitHandler::new(0, node.clone(), Arc::new(PositiveApprover()), version);
    let msg = Message::HsmdInit(msgs::HsmdInit {
        key_version: Bip32KeyVersion { pubkey_version: 0x043587CF, privkey_version: 0x04358394 },
        chain_params: BlockHash::all_zeros(),
        encryption_key: None,
        dev_privkey: None,
        dev_bip32_seed: None,
        dev_channel_secrets: None,
        dev_channel_secrets_shaseed: None,
        hsm_wire_min_version: 2,
        hsm_wire_max_version: version,
    });
    init.handle(msg).expect("hsmd init");
    let root: RootHandler = init.into();
    root.for_new_client(1, PubKey(peer_id), dbid)
}

fn to_bsig(sig: &Signature, ty: EcdsaSighashType) -> BitcoinSignature {
    BitcoinSignature { signature: model::Signature(sig.serialize_compact()), sighash: ty as u8 }
}

fn htlcs_wire(content: &Content) -> Array<Htlc> {
    let mut v = vec![];
    for h in &content.offered {
        v.push(Htlc { side: Htlc::LOCAL, amount: h.value_sat * 1000, payment_hash: model::Sha256(h.payment_hash.0), ctlv_expiry: h.cltv_expiry });
    }
    for h in &content.received {
        v.push(Htlc { side: Htlc::REMOTE, amount: h.value_sat * 1000, payment_hash: model::Sha256(h.payment_hash.0), ctlv_expiry: h.cltv_expiry });
    }
    Array(v)
}

fn handler_res(
    r: Result<Result<Box<dyn msgs::SerBolt>, vls_protocol_signer::handler::Error>, String>,
) -> (Res, Option<Box<dyn msgs::SerBolt>>) {
    match r {
        Ok(Ok(b)) => (Res::Ok, Some(b)),
        Ok(Err(e)) => (Res::Err(format!("{:?}", e)), None),
        Err(p) => (Res::Panic(p), None),
    }
}

struct Outcome {
    res: Res,
    /// 32-byte secrets that left the signer in this reply, with where they came from
    secrets: Vec<[u8; 32]>,
    holder_sig: Option<Signature>,
    recovery_txid: Option<lightning_signer::bitcoin::Txid>,
    /// the request carried valid-by-construction signatures for exactly (n, content)
    valid_submission: Option<(u64, Content)>,
    cp_sign: Option<(u64, PublicKey, u64)>,
    cp_revocation: Option<(u64, [u8; 32])>,
    redundant: Option<(u64, Content)>,
    closed_sig: bool,
    /// the request carried valid-by-construction signatures for (n, content), whatever the reply was
    valid_attempt: Option<(u64, Content)>,
    /// the revocation secret presented, whatever the reply was
    cp_revocation_attempt: Option<(u64, [u8; 32])>,
    cp_sign_attempt: Option<(u64, PublicKey)>,
    /// key material in the reply together with the commitment number it was asked for:
    /// (where it came from, commitment number, 32-byte secret or 33-byte point)
    key_claims: Vec<(&'static str, u64, Vec<u8>)>,
}

impl Outcome {
    fn new(res: Res) -> Outcome {
        Outcome { res, secrets: vec![], holder_sig: None, recovery_txid: None, valid_submission: None, cp_sign: None, cp_revocation: None, redundant: None, closed_sig: false, valid_attempt: None, cp_revocation_attempt: None, cp_sign_attempt: None, key_claims: vec![] }
    }
}

impl Hist {
    fn new(rng: &mut Rng, shard: usize, index: u64, cloud: bool, backup: bool) -> Hist {
        let mut cfg = WorldCfg::regtest(rng.bytes::<32>());
        cfg.cloud = cloud;
        cfg.backup = backup;
        cfg.policy.max_invoices = 100_000;
        let world = World::new(cfg);
        Hist { world, chans: vec![], log: vec![], next_dbid: 1, fresh_tag: (shard as u64) << 40 | index << 20, keysend_tag: 0, secp: Secp256k1::new(), shard, index, c11_known: BTreeSet::new(), c11_ext_known: BTreeSet::new(), c11_bk_known: BTreeSet::new(), c11_probe_known: 0, c11_ext_conflicts: 0, shared_hash_enabled: false, shared_registered: false, funding_txs: false }
    }

    fn height(&self) -> u32 {
        self.world.node.get_chain_height()
    }

    /// generator-side peek at the signer's counters (used only to bias numbers, never by oracles)
    fn peek_counters(&self, c: usize) -> (u64, u64, u64) {
        let id = self.chans[c].m.id0.clone();
        self.world
            .node
            .with_channel(&id, |ch| {
                let e = &ch.enforcement_state;
                Ok((e.next_holder_commit_num, e.next_counterparty_commit_num, e.next_counterparty_revoke_num))
            })
            .unwrap_or((0, 0, 0))
    }

    fn new_channel(&mut self, rng: &mut Rng) -> Res {
        let dbid = self.next_dbid;
        self.next_dbid += 1 + rng.below(2);
        let mut peer_id = [2u8; 33];
        peer_id[1..9].copy_from_slice(&rng.next_u64().to_le_bytes());
        let node = self.world.node.clone();
        let (r, _) = self.world.request(|n| report::catch(|| n.new_channel(dbid, &peer_id, &node)));
        let (res, val) = status_res(r);
        if let Some((id, _)) = val {
            let cp = CpKeys::generate(rng);
            let cp_points = cp.points(&self.secp);
            let mut setup = random_setup(rng, &self.secp, &cp, (self.shard as u64) << 32 | self.index << 8 | self.chans.len() as u64);
            let mut funding = None;
            if self.funding_txs {
                // a wallet input, the 2-of-2 funding output at the setup's output index, change before it
                let widx = (dbid % 900) as u32;
                let fee = 20_000u64;
                let vout = setup.funding_outpoint.vout as u64;
                let built = report::catch(|| {
                    let (prev, txin) = make_test_funding_wallet_input(&node, SpendType::P2wpkh, widx, setup.channel_value_sat + fee + 10_000 * vout);
                    let mut outs = vec![];
                    for i in 0..vout {
                        outs.push(make_test_funding_wallet_output(&node, widx + 1 + i as u32, 10_000, SpendType::P2wpkh));
                    }
                    outs.push(make_test_funding_channel_outpoint(&node, &setup, &id, setup.channel_value_sat));
                    (make_test_funding_tx_with_ins_outs(vec![txin], outs), prev.output[0].clone())
                });
                if let Ok((tx, prev_out)) = built {
                    setup.funding_outpoint.txid = tx.compute_txid();
                    funding = Some((tx, prev_out, widx));
                }
            }
            let seed = self.world.cfg.seed;
            let m = ChanModel {
                id0: id.clone(),
                dbid,
                peer_id,
                setup: setup.clone(),
                cp,
                cp_points,
                holder_points: None,
                holder_commitment_seed: Some(oracle::native_commitment_seed(&seed, id.as_slice())),
            };
            let bal = Balance::initial(&setup);
            self.chans.push(Chan { m, ready: false, bal, next_content: None, cp_contents: BTreeMap::new(), g: Ghost::default(), other_seed: rng.bytes::<32>(), forgotten: false, funding });
        }
        res
    }

    fn setup(&mut self, c: usize) -> Res {
        let id = self.chans[c].m.id0.clone();
        let setup = self.chans[c].m.setup.clone();
        let (r, _) = self.world.request(|n| {
            report::catch(|| n.setup_channel(id.clone(), None, setup.clone(), &DerivationPath::master()))
        });
        let (res, val) = status_res(r);
        if let Some(ch) = val {
            self.chans[c].m.holder_points = Some(ch.get_channel_basepoints());
            self.chans[c].ready = true;
        }
        res
    }

    /// content for holder commitment n: the prepared one (retry-stable) or a fresh step
    fn holder_content(&mut self, rng: &mut Rng, c: usize, n: u64, fresh: bool, register: bool) -> Content {
        let height = self.height();
        if !fresh {
            if let Some((pn, pc)) = &self.chans[c].next_content {
                if *pn == n {
                    return pc.clone();
                }
            }
            if let Some(v) = self.chans[c].g.validated.get(&n) {
                return v.clone();
            }
        }
        let setup = self.chans[c].m.setup.clone();
        let mut new_offered = vec![];
        if n > 0 {
            for _ in 0..4 {
                let mut trial = self.chans[c].bal.clone();
                let mut tag = self.fresh_tag;
                let offered = trial.step(rng, height, &mut tag);
                if trial.content(&setup).is_some() {
                    self.chans[c].bal = trial;
                    self.fresh_tag = tag;
                    new_offered = offered;
                    break;
                }
            }
        }
        // Two channels, one payment: in node-level histories a new commitment may also offer a part of the
        // history's shared payment hash, which is approved once for 35_000 sat while every part is 30_000 sat.
        // Each part passes when its commitment is validated; the second channel to revoke is refused by the
        // node-wide payment check (at validate or at revoke time, depending on the order of the requests).
        if register && self.shared_hash_enabled && n > 0 && self.chans.len() >= 2 && rng.chance(1, 3) {
            let (shared, _) = vls_verif::chanmodel::payment_hash_for(0x5348_0000_0000_0000 | (self.shard as u64) << 32 | self.index);
            let mut trial = self.chans[c].bal.clone();
            let has = trial.offered.iter().any(|h| h.payment_hash == shared);
            if !has && trial.holder_sat > 30_000 + 20_000 && trial.offered.len() + trial.received.len() < 8 {
                trial.holder_sat -= 30_000;
                trial.offered.push(lightning_signer::tx::tx::HTLCInfo2 { value_sat: 30_000, payment_hash: shared, cltv_expiry: height + 100 });
                if trial.content(&setup).is_some() {
                    self.chans[c].bal = trial;
                    if !self.shared_registered {
                        let payee = PublicKey::from_secret_key(&self.secp, &SecretKey::from_slice(&[5; 32]).unwrap());
                        let _ = self.world.request(|node| report::catch(|| node.add_keysend(payee, shared, 35_000_000)));
                        self.shared_registered = true;
                    }
                }
            }
        }
        let content = self.chans[c].bal.content(&setup).unwrap_or(Content {
            feerate_per_kw: 1000,
            to_holder_sat: 0,
            to_counterparty_sat: 0,
            offered: vec![],
            received: vec![],
        });
        if register {
            // outgoing HTLCs need an approved payment: register keysends for the new hashes
            let payee = PublicKey::from_secret_key(&self.secp, &SecretKey::from_slice(&[5; 32]).unwrap());
            for (hash, v) in new_offered {
                let _ = self.world.request(|node| report::catch(|| node.add_keysend(payee, hash, v * 1000)));
            }
        }
        self.chans[c].next_content = Some((n, content.clone()));
        content
    }

    fn exec(&mut self, rng: &mut Rng, op: &Op) -> Outcome {
        match op.clone() {
            Op::NewChannel => Outcome::new(self.new_channel(rng)),
            Op::Setup { c } => Outcome::new(self.setup(c)),
            Op::ValidateHolder { c, n, api, sigs, fresh_content, register } => self.validate_holder(rng, c, n, api, sigs, fresh_content, register),
            Op::Revoke { c, n, api } => self.revoke(c, n, api),
            Op::Activate { c } => {
                let id = self.chans[c].m.id0.clone();
                let (r, _) = self.world.request(|node| report::catch(|| node.with_channel(&id, |ch| ch.activate_initial_commitment())));
                Outcome::new(status_res(r).0)
            }
            Op::GetPoint { c, n, api } => self.get_point(c, n, api),
            Op::GetSecret { c, n, or_none } => {
                let id = self.chans[c].m.id0.clone();
                if or_none {
                    let (r, _) = self.world.request(|node| report::catch(|| node.with_channel_base(&id, |b| Ok(b.get_per_commitment_secret_or_none(n)))));
                    let (res, v) = status_res(r);
                    let mut o = Outcome::new(res);
                    if let Some(Some(s)) = v {
                        o.secrets.push(s.secret_bytes());
                        o.key_claims.push(("get_per_commitment_secret_or_none", n, s.secret_bytes().to_vec()));
                    }
                    o
                } else {
                    let (r, _) = self.world.request(|node| report::catch(|| node.with_channel_base(&id, |b| b.get_per_commitment_secret(n))));
                    let (res, v) = status_res(r);
                    let mut o = Outcome::new(res);
                    if let Some(s) = v {
                        o.secrets.push(s.secret_bytes());
                        o.key_claims.push(("get_per_commitment_secret", n, s.secret_bytes().to_vec()));
                    }
                    o
                }
            }
            Op::CheckFutureSecret { c, n, api } => {
                let id = self.chans[c].m.id0.clone();
                let guess = SecretKey::from_slice(&rng.bytes::<32>()).unwrap_or(SecretKey::from_slice(&[1; 32]).unwrap());
                match api {
                    Api::Direct | Api::Phase1 => {
                        let (r, _) = self.world.request(|node| report::catch(|| node.with_channel_base(&id, |b| b.check_future_secret(n, &guess))));
                        Outcome::new(status_res(r).0)
                    }
                    Api::Handler(v) | Api::HandlerRaw(v) => {
                        let h = make_channel_handler(&self.world.node, v, self.chans[c].m.peer_id, self.chans[c].m.dbid);
                        let msg = Message::CheckFutureSecret(msgs::CheckFutureSecret { commitment_number: n, secret: DisclosedSecret(guess.secret_bytes()) });
                        let (r, _) = self.world.request(|_| report::catch(|| h.handle(msg)));
                        Outcome::new(handler_res(r).0)
                    }
                }
            }
            Op::SignHolder { c, n, api } => self.sign_holder(c, n, api),
            Op::SignHolderRecovery { c } => {
                let id = self.chans[c].m.id0.clone();
                let (r, _) = self.world.request(|node| report::catch(|| node.with_channel(&id, |ch| ch.sign_holder_commitment_tx_for_recovery(1000, &[]))));
                let (res, v) = status_res(r);
                let mut o = Outcome::new(res);
                if let Some((tx, _, _, _, _)) = v {
                    // the witness carries both signatures; identify by txid (witness not part of it)
                    o.recovery_txid = Some(tx.compute_txid());
                }
                o
            }
            Op::SignHolderRedundant { c, n, fresh_content } => {
                let id = self.chans[c].m.id0.clone();
                let content = if fresh_content {
                    let mut b = self.chans[c].bal.clone();
                    let mut tag = self.fresh_tag + 7_000_000;
                    let h = self.height();
                    b.step(rng, h, &mut tag);
                    b.content(&self.chans[c].m.setup).unwrap_or_else(|| self.holder_content(rng, c, n, false, false))
                } else {
                    self.holder_content(rng, c, n, false, false)
                };
                let cc = content.clone();
                let (r, _) = self.world.request(|node| {
                    report::catch(|| {
                        node.with_channel(&id, |ch| {
                            ch.sign_holder_commitment_tx_phase2_redundant(n, cc.feerate_per_kw, cc.to_holder_sat, cc.to_counterparty_sat, cc.offered.clone(), cc.received.clone())
                        })
                    })
                });
                let (res, v) = status_res(r);
                let mut o = Outcome::new(res);
                if let Some(sig) = v {
                    o.holder_sig = Some(sig);
                    o.redundant = Some((n, content));
                }
                o
            }
            Op::SignCounterparty { c, n, api, point, mutate_content } => self.sign_counterparty(rng, c, n, api, point, mutate_content),
            Op::ValidateRevocation { c, n, api, secret } => self.validate_revocation(rng, c, n, api, secret),
            Op::MutualClose { c, api, bad } => self.mutual_close(rng, c, api, bad),
            Op::Restart => match report::catch(|| self.world.restart()) {
                Ok(Ok(())) => Outcome::new(Res::Ok),
                Ok(Err(e)) => Outcome::new(Res::Panic(format!("restart failed: {}", e))),
                Err(p) => Outcome::new(Res::Panic(format!("restart failed: panic: {}", p))),
            },
            Op::AddBlock => match report::catch(|| self.world.request(|_| self.world.add_empty_block()).0).and_then(|r| r) {
                Ok(()) => Outcome::new(Res::Ok),
                Err(e) => Outcome::new(Res::Err(e)),
            },
            Op::AddBadBlock { kind } => {
                let salt = rng.next_u64();
                let (r, _) = self.world.request(|_| report::catch(|| self.world.add_bad_block(kind, salt)));
                match r {
                    Ok(Ok(())) => Outcome::new(Res::Ok),
                    Ok(Err(e)) => Outcome::new(Res::Err(format!("add_block: {}", e))),
                    Err(p) => Outcome::new(Res::Panic(p)),
                }
            }
            Op::RemoveBlock { bad } => {
                let (r, _) = self.world.request(|_| report::catch(|| self.world.remove_tip_block(bad)));
                match r {
                    Ok(Ok(())) => Outcome::new(Res::Ok),
                    Ok(Err(e)) => Outcome::new(Res::Err(format!("remove_block: {}", e))),
                    Err(p) => Outcome::new(Res::Panic(p)),
                }
            }
            Op::Heartbeat => {
                let (r, _) = self.world.request(|node| report::catch(|| node.get_heartbeat()));
                match r {
                    Ok(_) => Outcome::new(Res::Ok),
                    Err(p) => Outcome::new(Res::Panic(p)),
                }
            }
            Op::Allowlist { kind, sel, bad_pos, rot } => {
                // entries: a subset of 5 wallet addresses (present or absent in the current list),
                // rotated, optionally with one unparsable entry at some position
                let mut entries: Vec<String> = vec![];
                for i in 0..5u32 {
                    if sel & (1 << i) != 0 {
                        let a = self.world.node.get_native_address(&vec![ChildNumber::from_normal_idx(3 + i).unwrap()].into()).map(|a| a.to_string()).unwrap_or_default();
                        entries.push(a);
                    }
                }
                if !entries.is_empty() {
                    let r = rot as usize % entries.len();
                    entries.rotate_left(r);
                }
                if bad_pos > 0 {
                    let pos = (bad_pos as usize - 1).min(entries.len());
                    entries.insert(pos, "not-an-address".to_string());
                }
                let (r, _) = self.world.request(|node| {
                    report::catch(|| match kind % 3 {
                        0 => node.add_allowlist(&entries),
                        1 => node.remove_allowlist(&entries),
                        _ => node.set_allowlist(&entries),
                    })
                });
                Outcome::new(status_res(r).0)
            }
            Op::Keysend { conflict } => {
                let payee = PublicKey::from_secret_key(&self.secp, &SecretKey::from_slice(&[6; 32]).unwrap());
                if !conflict {
                    self.keysend_tag += 1;
                }
                let mut h = [0xEEu8; 32];
                h[..8].copy_from_slice(&self.keysend_tag.to_le_bytes());
                let amount = if conflict { 999 } else { 1000 + self.keysend_tag };
                // a conflicting keysend has the same invoice hash (= payment hash), so use an invoice conflict instead:
                let (r, _) = self.world.request(|node| report::catch(|| node.add_keysend(payee, PaymentHash(h), amount)));
                let (res, v) = status_res(r);
                let _ = v;
                Outcome::new(res)
            }
            Op::ForgetChannel { c } => {
                let id = self.chans[c].m.id0.clone();
                let (r, _) = self.world.request(|node| report::catch(|| node.forget_channel(&id)));
                let (res, _) = status_res(r);
                if res.is_ok() {
                    self.chans[c].forgotten = true;
                }
                Outcome::new(res)
            }
            Op::NewChannelReused => {
                let node = self.world.node.clone();
                let dbid = rng.below(self.next_dbid.max(1));
                let mut peer_id = [3u8; 33];
                peer_id[1..9].copy_from_slice(&rng.next_u64().to_le_bytes());
                let hwm = self.world.node.get_state().dbid_high_water_mark;
                if dbid > hwm || dbid == 0 {
                    // would legitimately create a channel we do not model: skip as a no-op refusal-free request
                    return Outcome::new(Res::Ok);
                }
                let (r, _) = self.world.request(|n| report::catch(|| n.new_channel(dbid, &peer_id, &node)));
                Outcome::new(status_res(r).0)
            }
            Op::SignOnchain { c, bad } => {
                let (tx, mut prev_out, widx) = match self.chans[c].funding.clone() {
                    Some(f) => f,
                    None => return Outcome::new(Res::Err("harness: channel without funding transaction".into())),
                };
                let path = |v: Vec<u32>| -> DerivationPath { v.into_iter().map(|i| ChildNumber::from_normal_idx(i).unwrap()).collect::<Vec<_>>().into() };
                let mut ipath = path(vec![widx]);
                match bad {
                    1 => ipath = path(vec![widx, 0]),
                    2 => {
                        // a taproot output of the wallet, at another index than the one supplied
                        let node = self.world.node.clone();
                        let other = path(vec![widx + 7]);
                        if let Ok(Ok(a)) = report::catch(move || node.get_taproot_address(&other)) {
                            prev_out = TxOut { value: prev_out.value, script_pubkey: a.script_pubkey() };
                        }
                    }
                    _ => {}
                }
                let (r, _) = self.world.request(|n| report::catch(|| n.unchecked_sign_onchain_tx(&tx, &[ipath.clone()], &[prev_out.clone()], vec![None])));
                Outcome::new(status_res(r).0)
            }
            Op::SetupAgainDifferent { c } => {
                let id = self.chans[c].m.id0.clone();
                let mut setup = self.chans[c].m.setup.clone();
                setup.channel_value_sat += 1;
                let (r, _) = self.world.request(|n| report::catch(|| n.setup_channel(id.clone(), None, setup.clone(), &DerivationPath::master())));
                Outcome::new(status_res(r).0)
            }
        }
    }

    fn validate_holder(&mut self, rng: &mut Rng, c: usize, n: u64, api: Api, sigs: SigVariant, fresh: bool, register: bool) -> Outcome {
        let id = self.chans[c].m.id0.clone();
        if !self.chans[c].ready || self.chans[c].m.holder_points.is_none() {
            // stub: the request must be refused whatever it carries
            let sig = self.secp.sign_ecdsa(&lightning_signer::bitcoin::secp256k1::Message::from_digest([7; 32]), &SecretKey::from_slice(&[8; 32]).unwrap());
            let (r, _) = self.world.request(|node| report::catch(|| node.with_channel(&id, |ch| ch.validate_holder_commitment_tx_phase2(n, 1000, 1, 1, vec![], vec![], &sig, &[]))));
            return Outcome::new(status_res(r).0);
        }
        let n_model = n.min(oracle::INITIAL_COMMITMENT_NUMBER);
        let _ = (fresh, register);
        let content = self.holder_content(rng, c, n, false, false);
        let m = &self.chans[c].m;
        // signatures
        let built = report::catch(|| {
            let (mut sig, mut hsigs) = m.cp_sign_holder_commitment(&self.secp, n_model, &content);
            let mut valid = n == n_model;
            match sigs {
                SigVariant::Valid => {}
                SigVariant::WrongKey => {
                    let mut m2 = m.clone();
                    m2.cp.funding_key = SecretKey::from_slice(&rng.bytes::<32>()).unwrap_or(m2.cp.funding_key);
                    sig = m2.cp_sign_holder_commitment(&self.secp, n_model, &content).0;
                    valid = false;
                }
                SigVariant::OtherContent => {
                    let mut c2 = content.clone();
                    if c2.to_holder_sat > 2000 {
                        c2.to_holder_sat -= 1;
                        c2.to_counterparty_sat += 1;
                    } else {
                        c2.to_counterparty_sat = c2.to_counterparty_sat.saturating_sub(1);
                    }
                    let (s, h) = m.cp_sign_holder_commitment(&self.secp, n_model, &c2);
                    sig = s;
                    hsigs = h;
                    valid = false;
                }
                SigVariant::OtherNumber => {
                    let other = if n_model > 0 && rng.bool() { n_model - 1 } else { n_model + 1 };
                    let (s, h) = m.cp_sign_holder_commitment(&self.secp, other, &content);
                    sig = s;
                    hsigs = h;
                    valid = false;
                }
                SigVariant::OneHtlcSigWrong => {
                    if !hsigs.is_empty() {
                        let i = rng.usize(hsigs.len());
                        hsigs[i] = self.secp.sign_ecdsa(&lightning_signer::bitcoin::secp256k1::Message::from_digest(rng.bytes::<32>()), &m.cp.htlc_base_key);
                        valid = false;
                    }
                }
                SigVariant::HtlcSigsPermuted => {
                    if hsigs.len() >= 2 && hsigs[0] != hsigs[1] {
                        hsigs.swap(0, 1);
                        valid = false;
                    }
                }
                SigVariant::TooFewHtlcSigs => {
                    if !hsigs.is_empty() {
                        hsigs.pop();
                        valid = false;
                    }
                }
            }
            (sig, hsigs, valid)
        });
        let (sig, hsigs, valid) = match built {
            Ok(x) => x,
            Err(p) => return Outcome::new(Res::Err(format!("harness could not build the commitment: {}", p))),
        };
        let cc = content.clone();
        let mut out = match api {
            Api::Direct => {
                let (r, _) = self.world.request(|node| {
                    report::catch(|| {
                        node.with_channel(&id, |ch| {
                            ch.validate_holder_commitment_tx_phase2(n, cc.feerate_per_kw, cc.to_holder_sat, cc.to_counterparty_sat, cc.offered.clone(), cc.received.clone(), &sig, &hsigs)
                        })
                    })
                });
                Outcome::new(status_res(r).0)
            }
            Api::Phase1 => {
                let (tx, wit) = match report::catch(|| m.holder_commitment_phase1(&self.secp, n_model, &cc)) {
                    Ok(x) => x,
                    Err(p) => return Outcome::new(Res::Err(format!("harness could not build the commitment: {}", p))),
                };
                let (r, _) = self.world.request(|node| {
                    report::catch(|| {
                        node.with_channel(&id, |ch| {
                            ch.validate_holder_commitment_tx(&tx, &wit, n, cc.feerate_per_kw, cc.offered.clone(), cc.received.clone(), &sig, &hsigs)
                        })
                    })
                });
                Outcome::new(status_res(r).0)
            }
            Api::HandlerRaw(v) => {
                let (tx, wit) = match report::catch(|| m.holder_commitment_phase1(&self.secp, n_model, &cc)) {
                    Ok(x) => x,
                    Err(p) => return Outcome::new(Res::Err(format!("harness could not build the commitment: {}", p))),
                };
                let mut psbt = match lightning_signer::bitcoin::psbt::Psbt::from_unsigned_tx(tx.clone()) {
                    Ok(p) => p,
                    Err(e) => return Outcome::new(Res::Err(format!("harness could not build the psbt: {:?}", e))),
                };
                for (i, w) in wit.iter().enumerate() {
                    if !w.is_empty() && i < psbt.outputs.len() {
                        psbt.outputs[i].witness_script = Some(ScriptBuf::from(w.clone()));
                    }
                }
                let h = make_channel_handler(&self.world.node, v, m.peer_id, m.dbid);
                let hty = if m.setup.is_anchors() { EcdsaSighashType::SinglePlusAnyoneCanPay } else { EcdsaSighashType::All };
                let msg = Message::ValidateCommitmentTx(msgs::ValidateCommitmentTx {
                    tx: vls_protocol::serde_bolt::WithSize(tx),
                    psbt: vls_protocol::serde_bolt::WithSize(vls_protocol::psbt::PsbtWrapper { inner: psbt }),
                    htlcs: htlcs_wire(&cc),
                    commitment_number: n,
                    feerate: cc.feerate_per_kw,
                    signature: to_bsig(&sig, EcdsaSighashType::All),
                    htlc_signatures: Array(hsigs.iter().map(|s| to_bsig(s, hty)).collect()),
                });
                let (r, _) = self.world.request(|_| report::catch(|| h.handle(msg)));
                let (res, reply) = handler_res(r);
                let mut o = Outcome::new(res);
                if let Some(b) = reply {
                    if let Some(rep) = b.as_any().downcast_ref::<msgs::ValidateCommitmentTxReply>() {
                        o.key_claims.push(("ValidateCommitmentTxReply(raw).next_per_commitment_point", n.wrapping_add(1), rep.next_per_commitment_point.0.to_vec()));
                        if let Some(s) = &rep.old_commitment_secret {
                            o.secrets.push(s.0);
                            o.key_claims.push(("ValidateCommitmentTxReply(raw).old_commitment_secret", n.wrapping_sub(1), s.0.to_vec()));
                        }
                    }
                }
                o
            }
            Api::Handler(v) => {
                let h = make_channel_handler(&self.world.node, v, m.peer_id, m.dbid);
                let hty = if m.setup.is_anchors() { EcdsaSighashType::SinglePlusAnyoneCanPay } else { EcdsaSighashType::All };
                let msg = Message::ValidateCommitmentTx2(msgs::ValidateCommitmentTx2 {
                    commitment_number: n,
                    feerate: cc.feerate_per_kw,
                    to_local_value_sat: cc.to_holder_sat,
                    to_remote_value_sat: cc.to_counterparty_sat,
                    htlcs: htlcs_wire(&cc),
                    signature: to_bsig(&sig, EcdsaSighashType::All),
                    htlc_signatures: Array(hsigs.iter().map(|s| to_bsig(s, hty)).collect()),
                });
                let (r, _) = self.world.request(|_| report::catch(|| h.handle(msg)));
                let (res, reply) = handler_res(r);
                let mut o = Outcome::new(res);
                if let Some(b) = reply {
                    if let Some(rep) = b.as_any().downcast_ref::<msgs::ValidateCommitmentTxReply>() {
                        o.key_claims.push(("ValidateCommitmentTxReply.next_per_commitment_point", n.wrapping_add(1), rep.next_per_commitment_point.0.to_vec()));
                        if let Some(s) = &rep.old_commitment_secret {
                            o.secrets.push(s.0);
                            o.key_claims.push(("ValidateCommitmentTxReply.old_commitment_secret", n.wrapping_sub(1), s.0.to_vec()));
                        }
                    }
                }
                o
            }
        };
        if valid {
            out.valid_attempt = Some((n, content.clone()));
        }
        if valid && out.res.is_ok() {
            out.valid_submission = Some((n, content));
        }
        out
    }

    fn revoke(&mut self, c: usize, n: u64, api: Api) -> Outcome {
        let id = self.chans[c].m.id0.clone();
        match api {
            Api::Direct | Api::Phase1 => {
                let (r, _) = self.world.request(|node| report::catch(|| node.with_channel(&id, |ch| ch.revoke_previous_holder_commitment(n))));
                let (res, v) = status_res(r);
                let mut o = Outcome::new(res);
                if let Some((p, s)) = v {
                    o.key_claims.push(("revoke_previous_holder_commitment.point", n.wrapping_add(1), p.serialize().to_vec()));
                    if let Some(s) = s {
                        o.secrets.push(s.secret_bytes());
                        o.key_claims.push(("revoke_previous_holder_commitment.secret", n.wrapping_sub(1), s.secret_bytes().to_vec()));
                    }
                }
                o
            }
            Api::Handler(v) | Api::HandlerRaw(v) => {
                let h = make_channel_handler(&self.world.node, v, self.chans[c].m.peer_id, self.chans[c].m.dbid);
                let msg = Message::RevokeCommitmentTx(msgs::RevokeCommitmentTx { commitment_number: n.wrapping_sub(1) });
                let (r, _) = self.world.request(|_| report::catch(|| h.handle(msg)));
                let (res, reply) = handler_res(r);
                let mut o = Outcome::new(res);
                if let Some(b) = reply {
                    if let Some(rep) = b.as_any().downcast_ref::<msgs::RevokeCommitmentTxReply>() {
                        o.secrets.push(rep.old_commitment_secret.0);
                        o.key_claims.push(("RevokeCommitmentTxReply.old_commitment_secret", n.wrapping_sub(1), rep.old_commitment_secret.0.to_vec()));
                        o.key_claims.push(("RevokeCommitmentTxReply.next_per_commitment_point", n.wrapping_add(1), rep.next_per_commitment_point.0.to_vec()));
                    }
                }
                o
            }
        }
    }

    fn get_point(&mut self, c: usize, n: u64, api: Api) -> Outcome {
        let id = self.chans[c].m.id0.clone();
        match api {
            Api::Direct | Api::Phase1 => {
                let (r, _) = self.world.request(|node| report::catch(|| node.with_channel_base(&id, |b| b.get_per_commitment_point(n))));
                let (res, v) = status_res(r);
                let mut o = Outcome::new(res);
                if let Some(p) = v {
                    o.key_claims.push(("get_per_commitment_point", n, p.serialize().to_vec()));
                }
                o
            }
            Api::Handler(v) | Api::HandlerRaw(v) => {
                let h = make_channel_handler(&self.world.node, v, self.chans[c].m.peer_id, self.chans[c].m.dbid);
                let msg = Message::GetPerCommitmentPoint(msgs::GetPerCommitmentPoint { commitment_number: n });
                let (r, _) = self.world.request(|_| report::catch(|| h.handle(msg)));
                let (res, reply) = handler_res(r);
                let mut o = Outcome::new(res);
                if let Some(b) = reply {
                    if let Some(rep) = b.as_any().downcast_ref::<msgs::GetPerCommitmentPointReply>() {
                        o.key_claims.push(("GetPerCommitmentPointReply.point", n, rep.point.0.to_vec()));
                        if let Some(s) = &rep.secret {
                            o.secrets.push(s.0);
                            o.key_claims.push(("GetPerCommitmentPointReply.secret", n.wrapping_sub(2), s.0.to_vec()));
                        }
                    }
                }
                o
            }
        }
    }

    fn sign_holder(&mut self, c: usize, n: u64, api: Api) -> Outcome {
        let id = self.chans[c].m.id0.clone();
        match api {
            Api::Direct | Api::Phase1 => {
                let (r, _) = self.world.request(|node| report::catch(|| node.with_channel(&id, |ch| ch.sign_holder_commitment_tx_phase2(n))));
                let (res, v) = status_res(r);
                let mut o = Outcome::new(res);
                o.holder_sig = v;
                o
            }
            Api::Handler(v) | Api::HandlerRaw(v) => {
                let h = make_channel_handler(&self.world.node, v, self.chans[c].m.peer_id, self.chans[c].m.dbid);
                let msg = Message::SignLocalCommitmentTx2(msgs::SignLocalCommitmentTx2 { commitment_number: n });
                let (r, _) = self.world.request(|_| report::catch(|| h.handle(msg)));
                let (res, reply) = handler_res(r);
                let mut o = Outcome::new(res);
                if let Some(b) = reply {
                    if let Some(rep) = b.as_any().downcast_ref::<msgs::SignCommitmentTxReply>() {
                        o.holder_sig = Signature::from_compact(&rep.signature.signature.0).ok();
                    }
                }
                o
            }
        }
    }

    fn sign_counterparty(&mut self, rng: &mut Rng, c: usize, n: u64, api: Api, pv: PointVariant, mutate: bool) -> Outcome {
        let id = self.chans[c].m.id0.clone();
        if !self.chans[c].ready {
            let p = self.chans[c].m.cp.point(&self.secp, 0);
            let (r, _) = self.world.request(|node| report::catch(|| node.with_channel(&id, |ch| ch.sign_counterparty_commitment_tx_phase2(&p, n, 1000, 1, 1, vec![], vec![]))));
            return Outcome::new(status_res(r).0.clone());
        }
        let n_model = n.min(oracle::INITIAL_COMMITMENT_NUMBER);
        let setup = self.chans[c].m.setup.clone();
        // content: stable per number unless mutated
        let mut content = match self.chans[c].cp_contents.get(&n) {
            Some(cn) => cn.clone(),
            None => {
                let base = if n == 0 { Balance::initial(&setup) } else { self.chans[c].bal.clone() };
                let cn = base.content(&setup).unwrap_or(Content { feerate_per_kw: 1000, to_holder_sat: 0, to_counterparty_sat: 0, offered: vec![], received: vec![] });
                cn
            }
        };
        if mutate {
            if content.to_holder_sat > 5000 {
                content.to_holder_sat -= 1;
                content.to_counterparty_sat += 1;
            } else {
                content.feerate_per_kw += 1;
            }
        }
        let point = match pv {
            PointVariant::Right => self.chans[c].m.cp.point(&self.secp, n_model),
            PointVariant::Random => PublicKey::from_secret_key(&self.secp, &SecretKey::from_slice(&rng.bytes::<32>()).unwrap_or(SecretKey::from_slice(&[9; 32]).unwrap())),
            PointVariant::OtherNumber => self.chans[c].m.cp.point(&self.secp, n_model + 1),
            PointVariant::OtherSeed => {
                let s = oracle::commitment_secret(&self.chans[c].other_seed, n_model);
                PublicKey::from_secret_key(&self.secp, &SecretKey::from_slice(&s).unwrap())
            }
        };
        let cc = content.clone();
        let res = match api {
            Api::Direct => {
                let (r, _) = self.world.request(|node| {
                    report::catch(|| {
                        node.with_channel(&id, |ch| {
                            // counterparty's offered = received by us
                            ch.sign_counterparty_commitment_tx_phase2(&point, n, cc.feerate_per_kw, cc.to_holder_sat, cc.to_counterparty_sat, cc.received.clone(), cc.offered.clone())
                        })
                    })
                });
                status_res(r).0
            }
            Api::Phase1 => {
                let built = report::catch(|| self.chans[c].m.counterparty_commitment_phase1(&self.secp, n_model, &point, &cc));
                match built {
                    Err(p) => Res::Err(format!("harness could not build the commitment: {}", p)),
                    Ok((tx, wit)) => {
                        let (r, _) = self.world.request(|node| {
                            report::catch(|| {
                                node.with_channel(&id, |ch| {
                                    ch.sign_counterparty_commitment_tx(&tx, &wit, &point, n, cc.feerate_per_kw, cc.received.clone(), cc.offered.clone())
                                })
                            })
                        });
                        status_res(r).0
                    }
                }
            }
            Api::HandlerRaw(v) => {
                let built = report::catch(|| self.chans[c].m.counterparty_commitment_phase1(&self.secp, n_model, &point, &cc));
                match built {
                    Err(p) => Res::Err(format!("harness could not build the commitment: {}", p)),
                    Ok((tx, wit)) => match lightning_signer::bitcoin::psbt::Psbt::from_unsigned_tx(tx.clone()) {
                        Err(e) => Res::Err(format!("harness could not build the psbt: {:?}", e)),
                        Ok(mut psbt) => {
                            for (i, w) in wit.iter().enumerate() {
                                if !w.is_empty() && i < psbt.outputs.len() {
                                    psbt.outputs[i].witness_script = Some(ScriptBuf::from(w.clone()));
                                }
                            }
                            let h = make_channel_handler(&self.world.node, v, self.chans[c].m.peer_id, self.chans[c].m.dbid);
                            let msg = Message::SignRemoteCommitmentTx(msgs::SignRemoteCommitmentTx {
                                tx: vls_protocol::serde_bolt::WithSize(tx),
                                psbt: vls_protocol::serde_bolt::WithSize(vls_protocol::psbt::PsbtWrapper { inner: psbt }),
                                remote_funding_key: PubKey(self.chans[c].m.cp_points.funding_pubkey.serialize()),
                                remote_per_commitment_point: PubKey(point.serialize()),
                                option_static_remotekey: true,
                                commitment_number: n,
                                htlcs: htlcs_wire(&cc),
                                feerate: cc.feerate_per_kw,
                            });
                            let (r, _) = self.world.request(|_| report::catch(|| h.handle(msg)));
                            handler_res(r).0
                        }
                    },
                }
            }
            Api::Handler(v) => {
                let h = make_channel_handler(&self.world.node, v, self.chans[c].m.peer_id, self.chans[c].m.dbid);
                let msg = Message::SignRemoteCommitmentTx2(msgs::SignRemoteCommitmentTx2 {
                    remote_per_commitment_point: PubKey(point.serialize()),
                    commitment_number: n,
                    feerate: cc.feerate_per_kw,
                    to_local_value_sat: cc.to_holder_sat,
                    to_remote_value_sat: cc.to_counterparty_sat,
                    htlcs: htlcs_wire(&cc),
                });
                let (r, _) = self.world.request(|_| report::catch(|| h.handle(msg)));
                handler_res(r).0
            }
        };
        let mut o = Outcome::new(res);
        o.cp_sign_attempt = Some((n, point));
        if o.res.is_ok() {
            o.cp_sign = Some((n, point, content.key()));
            self.chans[c].cp_contents.entry(n).or_insert(content);
        }
        o
    }

    fn validate_revocation(&mut self, rng: &mut Rng, c: usize, n: u64, api: Api, sv: SecretVariant) -> Outcome {
        let id = self.chans[c].m.id0.clone();
        let n_model = n.min(oracle::INITIAL_COMMITMENT_NUMBER);
        let secret: [u8; 32] = match sv {
            SecretVariant::Right => self.chans[c].m.cp.secret(n_model).secret_bytes(),
            SecretVariant::Random => loop {
                let b = rng.bytes::<32>();
                if SecretKey::from_slice(&b).is_ok() {
                    break b;
                }
            },
            SecretVariant::RightForOther(d) => {
                let m = (n_model as i64 + d).max(0) as u64;
                self.chans[c].m.cp.secret(m).secret_bytes()
            }
            SecretVariant::OtherSeed => oracle::commitment_secret(&self.chans[c].other_seed, n_model),
        };
        let sk = SecretKey::from_slice(&secret).expect("secret");
        let res = match api {
            Api::Direct | Api::Phase1 => {
                let (r, _) = self.world.request(|node| report::catch(|| node.with_channel(&id, |ch| ch.validate_counterparty_revocation(n, &sk))));
                status_res(r).0
            }
            Api::Handler(v) | Api::HandlerRaw(v) => {
                let h = make_channel_handler(&self.world.node, v, self.chans[c].m.peer_id, self.chans[c].m.dbid);
                let msg = Message::ValidateRevocation(msgs::ValidateRevocation { commitment_number: n, commitment_secret: DisclosedSecret(secret) });
                let (r, _) = self.world.request(|_| report::catch(|| h.handle(msg)));
                handler_res(r).0
            }
        };
        let mut o = Outcome::new(res);
        o.cp_revocation_attempt = Some((n, secret));
        if o.res.is_ok() {
            o.cp_revocation = Some((n, secret));
        }
        o
    }

    fn mutual_close(&mut self, rng: &mut Rng, c: usize, api: Api, bad: bool) -> Outcome {
        let id = self.chans[c].m.id0.clone();
        let setup = self.chans[c].m.setup.clone();
        let path: DerivationPath = vec![ChildNumber::from_normal_idx(1).unwrap()].into();
        let holder_script = self.world.node.get_native_address(&path).map(|a| a.script_pubkey()).unwrap_or_else(|_| ScriptBuf::new());
        let cp_script = ScriptBuf::new_p2wpkh(&lightning_signer::bitcoin::WPubkeyHash::from_byte_array(rng.bytes::<20>()));
        // use the latest validated holder content as the balance
        let content = self.chans[c].g.validated.iter().next_back().map(|(_, v)| v.clone());
        let (mut to_h, mut to_c) = match content {
            Some(cn) => (cn.to_holder_sat, cn.to_counterparty_sat),
            None => (setup.channel_value_sat / 2, setup.channel_value_sat / 2),
        };
        // closing fee ~ 1000 sat/kw * ~700wu paid by funder
        let fee = 700;
        if setup.is_outbound { to_h = to_h.saturating_sub(fee) } else { to_c = to_c.saturating_sub(fee) }
        if bad {
            to_h = to_h / 2;
        }
        let hs = if to_h > 0 { Some(holder_script.clone()) } else { None };
        let cs = if to_c > 0 { Some(cp_script.clone()) } else { None };
        let res = match api {
            Api::Direct | Api::Phase1 => {
                let (r, _) = self.world.request(|node| report::catch(|| node.with_channel(&id, |ch| ch.sign_mutual_close_tx_phase2(to_h, to_c, &hs, &cs, &path))));
                status_res(r).0
            }
            Api::Handler(v) | Api::HandlerRaw(v) => {
                let h = make_channel_handler(&self.world.node, v, self.chans[c].m.peer_id, self.chans[c].m.dbid);
                let msg = Message::SignMutualCloseTx2(msgs::SignMutualCloseTx2 {
                    to_local_value_sat: to_h,
                    to_remote_value_sat: to_c,
                    local_script: Octets(hs.clone().map(|s| s.to_bytes()).unwrap_or_default()),
                    remote_script: Octets(cs.clone().map(|s| s.to_bytes()).unwrap_or_default()),
                    local_wallet_path_hint: ArrayBE(vec![1]),
                });
                let (r, _) = self.world.request(|_| report::catch(|| h.handle(msg)));
                handler_res(r).0
            }
        };
        let mut o = Outcome::new(res);
        o.closed_sig = o.res.is_ok();
        o
    }
}

// ---------------------------------------------------------------------------------------------
// generation

fn pick_api(rng: &mut Rng) -> Api {
    match rng.below(9) {
        0 | 1 => Api::Direct,
        6 => Api::Phase1,
        2 => Api::Handler(4),
        3 => Api::Handler(5),
        7 => Api::HandlerRaw(6),
        8 => Api::HandlerRaw(4 + rng.below(2) as u32),
        _ => Api::Handler(6),
    }
}

fn rel(rng: &mut Rng, base: u64) -> u64 {
    match rng.below(24) {
        0..=11 => base,
        12 | 13 => base.saturating_sub(1),
        14 | 15 => base + 1,
        16 => base.saturating_sub(2),
        17 => base + 2,
        18 => base.saturating_sub(3),
        19 => base + 3,
        20 => 0,
        21 => (1 << 48) - 1,
        22 => u64::MAX - 1,
        _ => u64::MAX,
    }
}

fn gen_op(rng: &mut Rng, h: &Hist, prop: Prop) -> Op {
    if h.chans.is_empty() || (h.chans.len() < 2 && rng.chance(1, 40)) {
        return Op::NewChannel;
    }
    let c = rng.usize(h.chans.len());
    let ch = &h.chans[c];
    if !ch.ready {
        // stub phase: requests are sent to the stub too
        return match rng.below(10) {
            0 | 1 | 2 | 3 => Op::Setup { c },
            4 => Op::GetSecret { c, n: rng.below(3), or_none: rng.bool() },
            5 => Op::GetPoint { c, n: rng.below(4), api: pick_api(rng) },
            6 => Op::ValidateHolder { c, n: 0, api: Api::Direct, sigs: SigVariant::Valid, fresh_content: false, register: false },
            7 => Op::Revoke { c, n: rng.below(2), api: pick_api(rng) },
            8 => Op::CheckFutureSecret { c, n: rng.below(3), api: pick_api(rng) },
            // node-level histories also forget channels that were never set up
            _ if matches!(prop, Prop::C10 | Prop::C11) && rng.chance(1, 3) => Op::ForgetChannel { c },
            _ => Op::Restart,
        };
    }
    let (nh, nc, nr) = h.peek_counters(c);
    let node_level = matches!(prop, Prop::C10 | Prop::C11);
    // in-sync "next right step" with probability ~55%
    if rng.chance(55, 100) {
        let pending = h.world.node.with_channel(&ch.m.id0, |x| Ok(x.enforcement_state.next_holder_commit_info.is_some())).unwrap_or(false);
        let choice = rng.below(10);
        if choice < 5 {
            // holder side
            if pending {
                return if nh == 0 { Op::Activate { c } } else { Op::Revoke { c, n: nh, api: pick_api(rng) } };
            }
            return Op::ValidateHolder { c, n: nh, api: pick_api(rng), sigs: SigVariant::Valid, fresh_content: true, register: true };
        } else if choice < 9 {
            // counterparty side
            if nc >= 1 && nr + 1 < nc + 0 && nr < nc {
                // something to revoke: revoke the oldest unrevoked
                if nc >= nr + 2 || rng.bool() {
                    return Op::ValidateRevocation { c, n: nr, api: pick_api(rng), secret: SecretVariant::Right };
                }
            }
            return Op::SignCounterparty { c, n: nc, api: pick_api(rng), point: PointVariant::Right, mutate_content: false };
        } else {
            return Op::AddBlock;
        }
    }
    let w: u32 = if node_level { 16 } else { 13 };
    match rng.below(w as u64) {
        0 => {
            let sigs = *rng.pick(&[SigVariant::Valid, SigVariant::Valid, SigVariant::WrongKey, SigVariant::OtherContent, SigVariant::OtherNumber, SigVariant::OneHtlcSigWrong, SigVariant::HtlcSigsPermuted, SigVariant::TooFewHtlcSigs]);
            Op::ValidateHolder { c, n: rel(rng, nh), api: pick_api(rng), sigs, fresh_content: rng.chance(1, 3), register: rng.chance(4, 5) }
        }
        1 => Op::Revoke { c, n: rel(rng, nh), api: pick_api(rng) },
        2 => Op::GetPoint { c, n: rel(rng, nh), api: pick_api(rng) },
        3 => Op::GetSecret { c, n: rel(rng, nh.saturating_sub(1)), or_none: rng.bool() },
        4 => {
            if rng.chance(1, 3) {
                match rng.below(3) {
                    0 => Op::SignHolderRecovery { c },
                    _ => Op::SignHolderRedundant { c, n: rel(rng, nh.saturating_sub(1)), fresh_content: rng.chance(1, 3) },
                }
            } else {
                Op::SignHolder { c, n: rel(rng, nh.saturating_sub(1)), api: pick_api(rng) }
            }
        }
        5 | 6 => {
            let point = *rng.pick(&[PointVariant::Right, PointVariant::Right, PointVariant::Right, PointVariant::Random, PointVariant::OtherNumber, PointVariant::OtherSeed]);
            Op::SignCounterparty { c, n: rel(rng, nc), api: pick_api(rng), point, mutate_content: rng.chance(1, 4) }
        }
        7 | 8 => {
            let secret = *rng.pick(&[SecretVariant::Right, SecretVariant::Right, SecretVariant::Random, SecretVariant::RightForOther(1), SecretVariant::RightForOther(-1), SecretVariant::OtherSeed]);
            Op::ValidateRevocation { c, n: rel(rng, nr), api: pick_api(rng), secret }
        }
        9 => Op::Restart,
        10 => Op::Activate { c },
        11 => {
            if rng.chance(1, 4) { Op::MutualClose { c, api: pick_api(rng), bad: rng.chance(1, 3) } } else { Op::CheckFutureSecret { c, n: rel(rng, nh), api: pick_api(rng) } }
        }
        12 => match rng.below(if node_level { 6 } else { 2 }) {
            0 => Op::AddBlock,
            1 => Op::Heartbeat,
            2 | 3 => Op::AddBadBlock { kind: rng.below(3) as u8 },
            _ => Op::RemoveBlock { bad: rng.below(3) as u8 },
        },
        13 => Op::Allowlist { kind: rng.below(3) as u8, sel: rng.below(32) as u8, bad_pos: if rng.chance(1, 3) { 1 + rng.below(4) as u8 } else { 0 }, rot: rng.below(5) as u8 },
        14 => match rng.below(5) {
            4 => Op::SignOnchain { c, bad: rng.below(3) as u8 },
            0 => Op::Keysend { conflict: false },
            1 => Op::NewChannelReused,
            2 => Op::SetupAgainDifferent { c },
            _ => Op::Setup { c },
        },
        _ => if rng.chance(1, 6) { Op::ForgetChannel { c } } else { Op::Heartbeat },
    }
}

// ---------------------------------------------------------------------------------------------
// monitors

fn op_channel(op: &Op) -> Option<usize> {
    match op {
        Op::Setup { c } | Op::ValidateHolder { c, .. } | Op::Revoke { c, .. } | Op::Activate { c } | Op::GetPoint { c, .. } | Op::GetSecret { c, .. } | Op::CheckFutureSecret { c, .. } | Op::SignHolder { c, .. } | Op::SignHolderRecovery { c } | Op::SignHolderRedundant { c, .. } | Op::SignCounterparty { c, .. } | Op::ValidateRevocation { c, .. } | Op::MutualClose { c, .. } | Op::ForgetChannel { c } | Op::SetupAgainDifferent { c } | Op::SignOnchain { c, .. } => Some(*c),
        _ => None,
    }
}

fn op_kind(op: &Op) -> String {
    let s = format!("{:?}", op);
    s.split(|ch: char| !ch.is_alphanumeric()).next().unwrap_or("").to_string()
}

fn op_api(op: &Op) -> String {
    match op {
        Op::ValidateHolder { api, .. } | Op::Revoke { api, .. } | Op::GetPoint { api, .. } | Op::CheckFutureSecret { api, .. } | Op::SignHolder { api, .. } | Op::SignCounterparty { api, .. } | Op::ValidateRevocation { api, .. } | Op::MutualClose { api, .. } => format!("{:?}", api),
        _ => "Direct".into(),
    }
}

fn witness(h: &Hist, cli: &Cli, extra: Value) -> Value {
    let tail: Vec<Value> = h.log.iter().rev().take(60).rev().cloned().collect();
    json!({"seed": cli.seed, "shard": h.shard, "history": h.index, "what": extra, "history_tail(op,result)": tail})
}

/// BOLT-3 consistency of an accepted counterparty secret with all earlier accepted ones:
/// a secret at backwards index I with z trailing zero bits must derive every earlier
/// accepted secret whose index shares I's upper (48 - z) bits.
fn secret_tree_consistent(accepted: &[(u64, [u8; 32])], n: u64, secret: &[u8; 32]) -> bool {
    if n > oracle::INITIAL_COMMITMENT_NUMBER {
        return false;
    }
    let idx = oracle::INITIAL_COMMITMENT_NUMBER - n;
    let z = idx.trailing_zeros().min(48);
    for (m, old) in accepted {
        if *m > oracle::INITIAL_COMMITMENT_NUMBER {
            continue;
        }
        let j = oracle::INITIAL_COMMITMENT_NUMBER - *m;
        if z < 64 && (j >> z) == (idx >> z) && j != idx {
            if &oracle::bolt3_derive(secret, z, j) != old {
                return false;
            }
        }
        if j == idx && old != secret {
            return false;
        }
    }
    true
}

fn monitors(h: &mut Hist, r: &mut Report, cli: &Cli, prop: Prop, op: &Op, out: &Outcome) {
    let c = match op_channel(op) {
        Some(c) => c,
        None => return,
    };
    let secp = h.secp.clone();
    // ---- keys are a function of (seed, channel id, commitment number): every secret and point in a reply is
    // the value of that function at the number the reply stands for (own derivation, oracle.rs)
    for (what, n, bytes) in &out.key_claims {
        let ch = &h.chans[c];
        let seed = match ch.m.holder_commitment_seed {
            Some(s) => s,
            None => continue,
        };
        if *n >= (1u64 << 48) {
            r.count("keyfn.number_out_of_range_not_judged");
            continue;
        }
        let want_secret = oracle::commitment_secret(&seed, *n);
        let ok = if bytes.len() == 32 {
            bytes[..] == want_secret[..]
        } else {
            let sk = SecretKey::from_slice(&want_secret).unwrap();
            bytes[..] == PublicKey::from_secret_key(&secp, &sk).serialize()[..]
        };
        r.count("keyfn.reply_values_checked");
        if prop == Prop::C18 {
            r.distinct_hash(fnv_str(&format!("keyfn:{}:{}:{}", what, ch.ready, h.world.restarts.min(2))));
        }
        if !ok {
            if prop == Prop::C18 {
                let sig = format!("keys:reply-value-is-not-the-one-for-the-requested-number:{}", what);
                r.violation(&sig, witness(h, cli, json!({"op": format!("{:?}", op), "field": what, "stands_for_commitment_number": n, "got": hex::encode(bytes),
                    "is_the_value_for_number": oracle::identify_secret(&seed, &{ let mut a = [0u8; 32]; if bytes.len() == 32 { a.copy_from_slice(bytes) }; a }, n + 80) })));
            } else {
                r.count("cross.c18");
            }
        }
    }
    // ---- ghost update: validated submissions
    if let Some((n, content)) = &out.valid_submission {
        h.chans[c].g.validated.insert(*n, content.clone());
        r.count("holder.validate.accepted_valid");
    }
    if let Some((n, content)) = &out.redundant {
        h.chans[c].g.extra_contents.push((*n, content.clone()));
    }
    // ---- disclosures
    for s in &out.secrets {
        r.count("secret.disclosed");
        let ch = &h.chans[c];
        if !ch.ready {
            r.count("secret.disclosed_by_stub");
            if prop == Prop::C01 {
                r.violation("c01:stub-disclosed-secret", witness(h, cli, json!({"op": format!("{:?}", op)})));
            }
            continue;
        }
        let seed = ch.m.holder_commitment_seed.unwrap();
        let upper = ch.g.validated.keys().next_back().copied().unwrap_or(0) + 80;
        match oracle::identify_secret(&seed, s, upper) {
            None => {
                r.count("secret.unidentified");
                r.inconclusive("a disclosed 32-byte secret could not be identified with any commitment number");
            }
            Some(k) => {
                let ok = ch.g.validated.contains_key(&(k + 1));
                let newly = !ch.g.disclosed.contains(&k);
                r.distinct_hash(fnv_str(&format!("disc:{}:{}:{}:{}", op_kind(op), op_api(op), newly, ok)));
                if !ok {
                    if prop == Prop::C01 {
                        let sig = if k >= (1 << 47) { "c01:secret-disclosed-for-wrapped-commitment-number" } else { "c01:secret-disclosed-without-validated-successor" };
                        r.violation(sig, witness(h, cli, json!({"op": format!("{:?}", op), "disclosed_commitment_number": k, "validated_numbers": ch.g.validated.keys().rev().take(6).collect::<Vec<_>>() })));
                    } else {
                        r.count("cross.c01");
                    }
                }
                // C02: nothing new may be disclosed once a holder commitment was signed
                // (after a storage failure a refused revoke may have advanced the signer's memory without
                // releasing the secret, so the late release of an older secret is not by itself the stated
                // violation: in such histories only "same commitment signed and revoked" counts)
                if newly && !ch.g.signed.is_empty() && !r.sig_suffix.is_empty() && !ch.g.signed.contains(&k) {
                    r.count("c02.late_release_after_storage_failure_not_judged");
                } else if newly && !ch.g.signed.is_empty() {
                    if prop == Prop::C02 {
                        let sig = if ch.g.signed.contains(&k) { "c02:revoked-after-signing-same-commitment" } else { "c02:new-revocation-after-holder-signature-released" };
                        r.violation(sig, witness(h, cli, json!({"op": format!("{:?}", op), "disclosed": k, "signed": ch.g.signed })));
                    } else {
                        r.count("cross.c02");
                    }
                }
                if newly {
                    r.count("secret.newly_disclosed");
                }
                h.chans[c].g.disclosed.insert(k);
            }
        }
    }
    // ---- holder signatures
    let mut signed_numbers: Vec<u64> = vec![];
    if let Some(sig) = &out.holder_sig {
        r.count("holder.sign.ok");
        let ch = &h.chans[c];
        let mut cands: Vec<(u64, Content)> = ch.g.validated.iter().rev().take(4).map(|(n, c)| (*n, c.clone())).collect();
        cands.extend(ch.g.extra_contents.iter().rev().take(3).cloned());
        if let Some((n, cn)) = &ch.next_content {
            cands.push((*n, cn.clone()));
        }
        for (n, content) in cands {
            if n > oracle::INITIAL_COMMITMENT_NUMBER {
                continue; // not a commitment number (an extreme the generator asked for)
            }
            if ch.m.holder_sig_verifies(&secp, n, &content, sig) && !signed_numbers.contains(&n) {
                signed_numbers.push(n);
            }
        }
        if signed_numbers.is_empty() {
            r.count("holder.sign.unidentified");
        }
    }
    if let Some(txid) = &out.recovery_txid {
        r.count("holder.sign.ok");
        let ch = &h.chans[c];
        for (n, content) in ch.g.validated.iter().rev().take(4) {
            if *n > oracle::INITIAL_COMMITMENT_NUMBER {
                continue;
            }
            if &ch.m.holder_commitment_txid(&secp, *n, content) == txid {
                signed_numbers.push(*n);
            }
        }
        if signed_numbers.is_empty() {
            r.count("holder.sign.unidentified");
        }
    }
    for n in signed_numbers {
        let ch = &h.chans[c];
        r.distinct_hash(fnv_str(&format!("sign:{}:{}:{}", op_kind(op), op_api(op), ch.g.disclosed.contains(&n))));
        if ch.g.disclosed.contains(&n) {
            if prop == Prop::C02 {
                r.violation("c02:signed-a-revoked-commitment", witness(h, cli, json!({"op": format!("{:?}", op), "signed": n})));
            } else {
                r.count("cross.c02");
            }
        }
        if !ch.g.disclosed.is_empty() || true {
            r.count("holder.sign.identified");
        }
        h.chans[c].g.signed.insert(n);
    }
    // ---- counterparty commitments
    if let Some((n, point, ckey)) = &out.cp_sign {
        r.count("cp.sign.ok");
        let ch = &h.chans[c];
        let mut bad_unrevoked = None;
        if *n >= 2 {
            // every m <= n-2 that we ever signed must have been revoked by a verified secret;
            // checking the latest few is enough (older ones were checked when n was smaller)
            for m in n.saturating_sub(6)..=(n - 2) {
                if !ch.g.cp_revoked.contains(&m) {
                    bad_unrevoked = Some(m);
                }
            }
        }
        let retry = ch.g.cp_signed.get(n).cloned();
        r.distinct_hash(fnv_str(&format!("cps:{}:{}:{}", op_api(op), retry.is_some(), n.min(&5))));
        if let Some(m) = bad_unrevoked {
            if prop == Prop::C03 {
                r.violation("c03:signed-counterparty-commitment-over-unrevoked-predecessor", witness(h, cli, json!({"op": format!("{:?}", op), "signed": n, "unrevoked": m, "revoked": ch.g.cp_revoked.iter().rev().take(6).collect::<Vec<_>>() })));
            } else {
                r.count("cross.c03");
            }
        }
        if let Some((p0, k0)) = retry {
            r.count("cp.sign.retry_ok");
            if p0 != *point || k0 != *ckey {
                if prop == Prop::C03 {
                    let sig = if p0 != *point { "c03:resigned-with-different-point" } else { "c03:resigned-with-different-content" };
                    r.violation(sig, witness(h, cli, json!({"op": format!("{:?}", op), "number": n})));
                } else {
                    r.count("cross.c03");
                }
            }
        } else {
            h.chans[c].g.cp_signed.insert(*n, (*point, *ckey));
        }
    }
    if let Some((n, secret)) = &out.cp_revocation {
        r.count("cp.revoke.ok");
        let ch = &h.chans[c];
        let sk = SecretKey::from_slice(secret).unwrap();
        let p = PublicKey::from_secret_key(&secp, &sk);
        let expect = ch.g.cp_signed.get(n).map(|x| x.0);
        let point_ok = expect == Some(p) || ch.g.cp_unreleased.get(n).map(|v| v.contains(&p)).unwrap_or(false);
        let tree_ok = secret_tree_consistent(&ch.g.cp_secrets, *n, secret);
        r.distinct_hash(fnv_str(&format!("cpr:{}:{}:{}:{}", op_api(op), point_ok, tree_ok, ch.g.cp_revoked.contains(n))));
        if !point_ok {
            if prop == Prop::C03 {
                let sig = if expect.is_none() { "c03:accepted-revocation-for-unsigned-number" } else { "c03:accepted-revocation-secret-not-matching-signed-point" };
                r.violation(sig, witness(h, cli, json!({"op": format!("{:?}", op), "number": n})));
            } else {
                r.count("cross.c03");
            }
        } else if !tree_ok {
            if prop == Prop::C03 {
                r.violation("c03:accepted-revocation-secret-inconsistent-with-bolt3-tree", witness(h, cli, json!({"op": format!("{:?}", op), "number": n})));
            } else {
                r.count("cross.c03");
            }
        } else {
            h.chans[c].g.cp_revoked.insert(*n);
            h.chans[c].g.cp_secrets.push((*n, *secret));
        }
    }
}

// ---------------------------------------------------------------------------------------------
// C11: compare the running signer with one restored from a copy of its store

fn c11_check(h: &mut Hist, r: &mut Report, cli: &Cli, op: &Op, out: &Outcome) {
    let now = h.world.now();
    let live = snapshot::take_memory(&h.world.node, now, false);
    let shadow = match report::catch(|| h.world.crash_copy()) {
        Ok(Ok((_store, node))) => node,
        Ok(Err(e)) => {
            r.violation("c11:store-not-restorable-after-request", witness(h, cli, json!({"op": format!("{:?}", op), "error": e})));
            return;
        }
        Err(p) => {
            r.violation("c11:restore-panicked-after-request", witness(h, cli, json!({"op": format!("{:?}", op), "panic": p})));
            return;
        }
    };
    let rest = snapshot::take_memory(&shadow, now, false);
    r.count("c11.crash_points");
    let d = snapshot::diff(&live, &rest);
    // what the property lists: per channel counters/contents/points/secrets/closed flag (estate), setup, ids;
    // tracker tip/height/headers/listeners(monitor state); allowlist; approved invoices; dbid high water mark
    let mut relevant = vec![];
    let mut current: BTreeSet<String> = BTreeSet::new();
    for (k, a, b) in d {
        current.insert(format!("{}={}", k, fnv_str(&b)));
        // a difference that already existed after the previous request was reported then
        if h.c11_known.contains(&format!("{}={}", k, fnv_str(&b))) {
            continue;
        }
        let listed = k.starts_with("chan.") || k.starts_with("tracker.") || k == "node.allowlist" || k == "node.invoices" || k == "node.dbid_high_water_mark";
        if listed {
            relevant.push((k, a, b));
        } else {
            r.note(&format!("restart changes unlisted item {} (not part of C11)", k));
            r.count("c11.unlisted_difference");
        }
    }
    h.c11_known = current;
    r.distinct_hash(fnv_str(&format!("c11:{}:{}:{}", op_kind(op), op_api(op), out.res.tag())));
    // differential replies: the restored signer must answer read-only requests as the running one does
    c11_probe(h, &shadow, r, cli, op, "store-copy");
    if h.world.store.is_cloud() {
        c11_external(h, &live, now, r, cli, op);
    }
    if h.world.store.is_backup() {
        c11_backup(h, &live, now, r, cli, op);
    }
    if !relevant.is_empty() {
        let labels: Vec<String> = relevant.iter().map(|x| {
            let k = &x.0;
            if k.starts_with("chan.") { format!("chan.{}", k.rsplit('.').next().unwrap_or("")) } else if k.starts_with("tracker.listener.") { "tracker.listener".into() } else { k.clone() }
        }).collect::<BTreeSet<_>>().into_iter().collect();
        let sig = format!("c11:not-durable:{}:{}", op_kind(op), labels.join("+"));
        r.violation(&sig, witness(h, cli, json!({"op": format!("{:?}", op), "result": out.res.tag(), "differences(running vs restored)": snapshot::brief(&relevant)})));
    }
}

/// Read-only questions asked of both signers.  Answers are compared, never interpreted.
fn c11_probe(h: &mut Hist, shadow: &Arc<Node>, r: &mut Report, cli: &Cli, op: &Op, how: &str) {
    let mut diffs = vec![];
    for c in 0..h.chans.len() {
        let id = h.chans[c].m.id0.clone();
        let lo = h.peek_counters(c).0.saturating_sub(4);
        let ask = |node: &Arc<Node>| -> Vec<String> {
            let mut v = vec![];
            let base = report::catch(|| {
                node.with_channel_base(&id, |b| {
                    let mut a = vec![];
                    // every per-commitment secret the signer is willing to disclose in a small window around the
                    // revocation frontier, and the points around the holder frontier
                    for n in lo..lo + 7 {
                        a.push(format!("secret_or_none({})={:?}", n, b.get_per_commitment_secret_or_none(n).map(|s| fnv_str(&hex::encode(s.secret_bytes())))));
                    }
                    for n in lo..lo + 7 {
                        a.push(format!("point({})={:?}", n, b.get_per_commitment_point(n).map(|p| p.to_string()).map_err(|e| err_tag(&format!("{:?}", e)))));
                    }
                    Ok(a)
                })
            });
            match base {
                Ok(Ok(a)) => v.extend(a),
                Ok(Err(e)) => v.push(format!("base-err:{}", err_tag(&format!("{:?}", e)))),
                Err(p) => v.push(format!("base-panic:{}", p.chars().take(60).collect::<String>())),
            }
            let bal = report::catch(|| node.with_channel(&id, |ch| Ok(format!("{:?}", ch.balance()))));
            v.push(format!("balance={:?}", bal.map(|x| x.map_err(|e| err_tag(&format!("{:?}", e))))));
            v
        };
        let a = ask(&h.world.node);
        let b = ask(shadow);
        r.count("c11.probe_answers_compared");
        for (x, y) in a.iter().zip(b.iter()) {
            if x != y {
                diffs.push(json!({"channel": c, "running": x, "restored": y}));
            }
        }
        if a.len() != b.len() {
            diffs.push(json!({"channel": c, "running_answers": a.len(), "restored_answers": b.len()}));
        }
    }
    let a = format!("{:?}", h.world.node.channel_balance());
    let b = format!("{:?}", shadow.channel_balance());
    if a != b {
        diffs.push(json!({"node": "channel_balance", "running": a, "restored": b}));
    }
    let a: Vec<String> = h.world.node.allowlist().map(|v| v.into_iter().collect::<BTreeSet<_>>().into_iter().collect()).unwrap_or_default();
    let b: Vec<String> = shadow.allowlist().map(|v| v.into_iter().collect::<BTreeSet<_>>().into_iter().collect()).unwrap_or_default();
    if a != b {
        diffs.push(json!({"node": "allowlist", "running": a, "restored": b}));
    }
    if !diffs.is_empty() {
        // the same difference persists until the next persist of that item: report on appearance only
        let key = fnv_str(&format!("{}:{}", how, serde_json::to_string(&diffs).unwrap_or_default()));
        if h.c11_probe_known != key {
            h.c11_probe_known = key;
            let sig = format!("c11:restored-signer-answers-differently:{}:{}", how, op_kind(op));
            r.violation(&sig, witness(h, cli, json!({"op": format!("{:?}", op), "differences": diffs})));
        }
    } else {
        h.c11_probe_known = 0;
    }
}

/// Main + backup composite store: what the BACKUP store holds alone must restore the same signer (the main store
/// is lost - the case the backup exists for).  The composite writes main first and backup second and fails the
/// request when either write fails, so at the moment a request is acknowledged both hold what it changed.
fn c11_backup(h: &mut Hist, live: &snapshot::Snapshot, now: u64, r: &mut Report, cli: &Cli, op: &Op) {
    let shadow = match report::catch(|| h.world.crash_copy_backup()) {
        Ok(Ok((_s, node))) => node,
        Ok(Err(e)) => {
            r.violation("c11:backup-store-not-restorable-after-request", witness(h, cli, json!({"op": format!("{:?}", op), "error": e})));
            return;
        }
        Err(p) => {
            r.violation("c11:backup-restore-panicked-after-request", witness(h, cli, json!({"op": format!("{:?}", op), "panic": p})));
            return;
        }
    };
    r.count("c11.crash_points_restored_from_backup_store_alone");
    let rest = snapshot::take_memory(&shadow, now, false);
    let mut relevant = vec![];
    let mut current: BTreeSet<String> = BTreeSet::new();
    for (k, a, b) in snapshot::diff(live, &rest) {
        let listed = k.starts_with("chan.") || k.starts_with("tracker.") || k == "node.allowlist" || k == "node.invoices" || k == "node.dbid_high_water_mark";
        if !listed {
            continue;
        }
        let key = format!("{}={}", k, fnv_str(&b));
        current.insert(key.clone());
        if !h.c11_bk_known.contains(&key) {
            relevant.push((k, a, b));
        }
    }
    h.c11_bk_known = current;
    if !relevant.is_empty() {
        let labels: Vec<String> = relevant.iter().map(|x| {
            let k = &x.0;
            if k.starts_with("chan.") { format!("chan.{}", k.rsplit('.').next().unwrap_or("")) } else if k.starts_with("tracker.listener.") { "tracker.listener".into() } else { k.clone() }
        }).collect::<BTreeSet<_>>().into_iter().collect();
        let sig = format!("c11:not-durable-in-backup-store:{}:{}", op_kind(op), labels.join("+"));
        r.violation(&sig, witness(h, cli, json!({"op": format!("{:?}", op), "differences(running vs restored from the backup store alone)": snapshot::brief(&relevant)})));
    }
}

/// Cloud-staged store: what the external store received (the reported mutations alone) must restore the same
/// signer.  That is the restart after a crash between `prepare` and `commit`: the local store is gone or stale,
/// the external one has everything that was reported.
fn c11_external(h: &mut Hist, live: &snapshot::Snapshot, now: u64, r: &mut Report, cli: &Cli, op: &Op) {
    {
        let x = h.world.external.lock().unwrap();
        if x.conflicts.len() > h.c11_ext_conflicts {
            let new: Vec<String> = x.conflicts[h.c11_ext_conflicts..].to_vec();
            drop(x);
            h.c11_ext_conflicts += new.len();
            r.violation(&format!("c11:reported-mutation-conflicts-with-external-store:{}", op_kind(op)), witness(h, cli, json!({"op": format!("{:?}", op), "conflicts": new})));
        }
    }
    let shadow = match report::catch(|| h.world.crash_copy_external()) {
        Ok(Ok((_s, node))) => node,
        Ok(Err(e)) => {
            r.violation("c11:external-store-not-restorable-after-request", witness(h, cli, json!({"op": format!("{:?}", op), "error": e})));
            return;
        }
        Err(p) => {
            r.violation("c11:external-restore-panicked-after-request", witness(h, cli, json!({"op": format!("{:?}", op), "panic": p})));
            return;
        }
    };
    r.count("c11.crash_points_between_prepare_and_commit");
    let rest = snapshot::take_memory(&shadow, now, false);
    let mut relevant = vec![];
    let mut current: BTreeSet<String> = BTreeSet::new();
    for (k, a, b) in snapshot::diff(live, &rest) {
        let listed = k.starts_with("chan.") || k.starts_with("tracker.") || k == "node.allowlist" || k == "node.invoices" || k == "node.dbid_high_water_mark";
        if !listed {
            continue;
        }
        let key = format!("{}={}", k, fnv_str(&b));
        current.insert(key.clone());
        if !h.c11_ext_known.contains(&key) {
            relevant.push((k, a, b));
        }
    }
    h.c11_ext_known = current;
    if !relevant.is_empty() {
        let labels: Vec<String> = relevant.iter().map(|x| {
            let k = &x.0;
            if k.starts_with("chan.") { format!("chan.{}", k.rsplit('.').next().unwrap_or("")) } else if k.starts_with("tracker.listener.") { "tracker.listener".into() } else { k.clone() }
        }).collect::<BTreeSet<_>>().into_iter().collect();
        let sig = format!("c11:not-in-reported-mutations:{}:{}", op_kind(op), labels.join("+"));
        r.violation(&sig, witness(h, cli, json!({"op": format!("{:?}", op), "differences(running vs restored from the reported mutations)": snapshot::brief(&relevant)})));
    }
    c11_probe(h, &shadow, r, cli, op, "reported-mutations");
}

// ---------------------------------------------------------------------------------------------

fn run_history(rng: &mut Rng, r: &mut Report, cli: &Cli, prop: Prop, shard: usize, index: u64, steps: u64) {
    let cloud = matches!(prop, Prop::C10 | Prop::C11) && index % 3 == 2;
    // C11: a third of the plain-store fault histories run on the main + backup composite persister (the signer
    // restarts from the main store, which is also the one that fails)
    let backup = prop == Prop::C11 && !cloud && index % 6 == 1;
    if backup {
        r.count("histories_on_main_plus_backup_store");
    }
    let mut h = Hist::new(rng, shard, index, cloud, backup);
    h.shared_hash_enabled = matches!(prop, Prop::C10 | Prop::C11) && index % 2 == 0;
    h.funding_txs = matches!(prop, Prop::C10 | Prop::C11);
    if matches!(prop, Prop::C10 | Prop::C11) && index % 3 == 1 {
        // fill the tracker's header window (MAX_REORG_SIZE = 100) so that requests act on a full window
        let n = 98 + rng.below(8);
        for _ in 0..n {
            let _ = h.world.request(|_| h.world.add_empty_block());
        }
        r.count("histories_with_full_header_window");
    }
    let mut both_sign_and_revoke_attempt = (false, false);
    // Storage faults (C01-C03, every fourth history): one episode per history.  From a random step on, the next
    // channel request that reaches the store finds it unavailable for its first 1-2 writes (the persister's
    // "temporarily unavailable, might work later"); afterwards the request is usually retried, and the daemon is
    // restarted at once, a few requests later, or not at all.  Every violation raised after the episode carries
    // the kind of the request that met the fault in its signature.
    r.sig_suffix.clear();
    // C11 takes part too (plain store only): a request that failed at the store was not acknowledged and the
    // signer's memory may legitimately be ahead of the store until the next restart, so the comparison is
    // suspended from the failure to the next restart - except for the retried request itself: when the retry is
    // acknowledged, what it acknowledged must be in the store.
    let with_fault = match prop {
        Prop::C01 | Prop::C02 | Prop::C03 => index % 4 == 3,
        Prop::C11 => !cloud && index % 2 == 1,
        _ => false,
    };
    let mut fault_from: Option<u64> = if with_fault { Some(rng.below(steps.max(1))) } else { None };
    let mut c11_suspended = false;
    // the kind of request the fault is aimed at (7: whichever state-changing request comes first)
    let fault_kind = rng.below(8);
    let fault_len = 1 + rng.below(2);
    // some requests write twice (old-protocol validate = validate + revoke, channel setup = channel + tracker)
    let fault_skip = if rng.chance(1, 4) { 1 } else { 0 };
    // composite store: in half of the histories it is the backup store that is unavailable (the main write of the
    // same request went through)
    let fault_on_backup = backup && rng.bool();
    let mut retry: Option<Op> = None;
    let mut restart_in: Option<u64> = None;
    if fault_from.is_some() {
        r.count("histories_with_storage_fault_plan");
    }
    for step in 0..steps {
        let is_retry_step = retry.is_some();
        let op = match retry.take() {
            Some(o) => o,
            None => {
                if restart_in == Some(0) {
                    restart_in = None;
                    Op::Restart
                } else if fault_from.map(|f| step >= f).unwrap_or(false) && !h.chans.is_empty() && rng.chance(1, if fault_kind < 7 { 2 } else { 3 }) {
                    // while the storage fault is pending, steer towards every kind of state-changing request
                    let c = rng.usize(h.chans.len());
                    if h.chans[c].ready {
                        let (nh, nc, nr) = h.peek_counters(c);
                        match if fault_kind < 7 { fault_kind } else { rng.below(7) } {
                            0 => Op::MutualClose { c, api: pick_api(rng), bad: false },
                            1 => Op::SignHolder { c, n: nh.saturating_sub(1), api: pick_api(rng) },
                            2 => Op::SignHolderRecovery { c },
                            3 => Op::SignCounterparty { c, n: nc, api: pick_api(rng), point: PointVariant::Right, mutate_content: false },
                            4 => Op::ValidateRevocation { c, n: nr, api: pick_api(rng), secret: SecretVariant::Right },
                            5 => Op::ValidateHolder { c, n: nh, api: pick_api(rng), sigs: SigVariant::Valid, fresh_content: true, register: true },
                            _ => Op::Revoke { c, n: nh, api: pick_api(rng) },
                        }
                    } else {
                        gen_op(rng, &h, prop)
                    }
                } else {
                    gen_op(rng, &h, prop)
                }
            }
        };
        if let Some(k) = restart_in.as_mut() {
            *k = k.saturating_sub(1);
        }
        let arm = fault_from.map(|f| step >= f).unwrap_or(false)
            && match fault_kind {
                0 => matches!(op, Op::MutualClose { .. }),
                1 => matches!(op, Op::SignHolder { .. }),
                2 => matches!(op, Op::SignHolderRecovery { .. } | Op::SignHolderRedundant { .. }),
                3 => matches!(op, Op::SignCounterparty { .. }),
                4 => matches!(op, Op::ValidateRevocation { .. }),
                5 => matches!(op, Op::ValidateHolder { .. }),
                6 => matches!(op, Op::Revoke { .. }),
                _ => matches!(op, Op::Setup { .. } | Op::ValidateHolder { .. } | Op::Revoke { .. } | Op::Activate { .. } | Op::SignHolder { .. } | Op::SignHolderRecovery { .. } | Op::SignHolderRedundant { .. } | Op::SignCounterparty { .. } | Op::ValidateRevocation { .. } | Op::MutualClose { .. }),
            };
        // content generation and payment registration are separate requests: do them before the snapshot
        if let Op::ValidateHolder { c, n, fresh_content, register, .. } = &op {
            if h.chans[*c].ready {
                let _ = h.holder_content(rng, *c, *n, *fresh_content, *register);
            }
        }
        let before = if prop == Prop::C10 { Some(snapshot::take(&h.world)) } else { None };
        if arm {
            if fault_on_backup {
                h.world.store.arm_backup_faults(fault_len);
            } else {
                h.world.store.arm_faults(fault_skip, fault_len);
            }
        }
        // (what the previous request prepared must not be taken for this one's when the harness cannot even
        // build the request)
        h.world.last_mutations.lock().unwrap().clear();
        let mut out = h.exec(rng, &op);
        let fired = if !arm { 0 } else if fault_on_backup { h.world.store.disarm_backup_faults() } else { h.world.store.disarm_faults() };
        if fired > 0 && fault_on_backup {
            r.count("storage_fault.episodes_on_the_backup_store");
        }
        r.eval(1);
        let kind = op_kind(&op);
        if fired > 0 {
            fault_from = None;
            // a request that is acknowledged although one of its writes failed gets no allowance: what it
            // acknowledged must be in the store like anything else
            c11_suspended = !out.res.is_ok();
            if out.res.is_ok() {
                r.count("storage_fault.request_acknowledged_although_a_write_failed");
            }
            r.sig_suffix = format!(":after-storage-failure-in-{}{}", kind, if matches!(op, Op::ValidateHolder { api: Api::Handler(4) | Api::HandlerRaw(4), .. }) { ":old-protocol" } else { "" });
            r.count("storage_fault.episodes");
            r.count(&format!("storage_fault.{}.{}.{}", kind, op_api(&op), match &out.res { Res::Ok => "ok", Res::Err(_) => "err", Res::Panic(_) => "panic" }));
            r.distinct_hash(fnv_str(&format!("fault:{}:{}:{}", kind, op_api(&op), out.res.tag())));
            // The request got as far as writing, so the signer had checked what it was given.  What the harness
            // knows to be true of the submission (signatures valid for exactly this content, the right secret)
            // is true whatever the reply says: the ghost state is told, so that it never knows less than a
            // correct signer's memory does.
            if !out.res.is_ok() {
                if out.valid_submission.is_none() {
                    out.valid_submission = out.valid_attempt.clone();
                }
                if let (Some((n, point)), Some(c)) = (out.cp_sign_attempt, op_channel(&op)) {
                    h.chans[c].g.cp_unreleased.entry(n).or_default().push(point);
                }
                if out.cp_revocation.is_none() {
                    if let (Some((n, secret)), Some(c)) = (out.cp_revocation_attempt, op_channel(&op)) {
                        let sk = SecretKey::from_slice(&secret).unwrap();
                        let p = PublicKey::from_secret_key(&h.secp, &sk);
                        let ch = &h.chans[c];
                        let known = ch.g.cp_signed.get(&n).map(|x| x.0) == Some(p) || ch.g.cp_unreleased.get(&n).map(|v| v.contains(&p)).unwrap_or(false);
                        if known && secret_tree_consistent(&ch.g.cp_secrets, n, &secret) {
                            out.cp_revocation = Some((n, secret));
                        }
                    }
                }
            }
            if !matches!(out.res, Res::Panic(_)) {
                match if prop == Prop::C11 { 1 + rng.below(4) } else { rng.below(8) } {
                    0 => restart_in = Some(0),
                    1 | 2 | 3 | 4 => {
                        retry = Some(op.clone());
                        if rng.chance(2, 3) {
                            restart_in = Some(rng.below(3));
                        }
                    }
                    5 => restart_in = Some(1 + rng.below(3)),
                    _ => {}
                }
            }
        }
        r.count(&format!("op.{}.{}", kind, match &out.res { Res::Ok => "ok", Res::Err(_) => "err", Res::Panic(_) => "panic" }));
        if matches!(op, Op::ValidateHolder { .. } | Op::SignCounterparty { .. }) {
            r.count(&format!("api.{}.{}.{}", kind, op_api(&op), match &out.res { Res::Ok => "ok", Res::Err(_) => "err", Res::Panic(_) => "panic" }));
        }
        h.log.push(json!([format!("{:?}", op), out.res.tag()]));
        if h.log.len() > 400 {
            h.log.drain(0..200);
        }
        match &op {
            Op::SignHolder { .. } | Op::SignHolderRecovery { .. } | Op::SignHolderRedundant { .. } => if out.res.is_ok() { both_sign_and_revoke_attempt.0 = true },
            Op::Revoke { .. } | Op::ValidateHolder { api: Api::Handler(4) | Api::HandlerRaw(4), .. } => if both_sign_and_revoke_attempt.0 { both_sign_and_revoke_attempt.1 = true },
            _ => {}
        }
        if let Res::Err(e) = &out.res {
            r.set_add("refusals", &format!("{}:{}", kind, err_tag(e)));
            r.count("refused");
            if let Api::Handler(v) | Api::HandlerRaw(v) = match &op { Op::Revoke { api, .. } | Op::GetPoint { api, .. } | Op::ValidateHolder { api, .. } => *api, _ => Api::Direct } {
                if matches!(op, Op::Revoke { .. } | Op::GetPoint { .. }) || matches!(op, Op::ValidateHolder { sigs: SigVariant::WrongKey | SigVariant::OtherContent | SigVariant::OtherNumber | SigVariant::OneHtlcSigWrong, .. }) {
                    r.count(&format!("disclosure_attempt_refused.v{}", v));
                }
            }
        }
        if let Res::Panic(p) = &out.res {
            r.set_add("panics", &format!("{}:{}", kind, p.chars().take(100).collect::<String>()));
            // the daemon would die here: restart from the store
            if h.world.store.is_cloud() {
                // an aborted transaction: the commit log is lost with the process; rebuild the cloud store wrapper
                let copy = h.world.store.deep_copy();
                h.world.store = copy;
            }
            match report::catch(|| h.world.restart()) {
                Ok(Ok(())) => {}
                Ok(Err(e)) => {
                    r.note(&format!("restart after panic failed: {}", e));
                    break;
                }
                Err(p) => {
                    // a store left half-written by an injected storage failure may not be restorable at all
                    // (the signer stays down, which no property of this driver forbids); anywhere else the
                    // running signer could not have produced such a store
                    if r.sig_suffix.is_empty() {
                        r.inconclusive(&format!("restart panicked without any injected fault: {}", p.chars().take(160).collect::<String>()));
                    } else {
                        r.count("storage_fault.store_not_restorable_afterwards");
                    }
                    break;
                }
            }
        }
        // C10, transactional store: a refused request ends without pending mutations (the daemon's
        // with_persist panics on "stranded mutations")
        if let (Prop::C10, Res::Err(e), true) = (prop, &out.res, h.world.store.is_cloud()) {
            let keys: Vec<String> = h.world.last_mutations.lock().unwrap().iter().filter(|k| k.as_str() != "_WRITER").cloned().collect();
            r.count("c10.cloud_refusals_checked_for_pending_mutations");
            if !keys.is_empty() {
                let classes: BTreeSet<String> = keys.iter().map(|k| k.split('/').next().unwrap_or("").to_string()).collect();
                let sig = format!("c10:refused-request-left-pending-mutations:{}:{}", kind, classes.into_iter().collect::<Vec<_>>().join("+"));
                r.violation(&sig, witness(&h, cli, json!({"op": format!("{:?}", op), "error": e, "mutation_keys": keys})));
            }
        }
        // C10: refused => nothing changed
        if let (Some(before), Res::Err(e)) = (&before, &out.res) {
            let after = snapshot::take(&h.world);
            let mut d = snapshot::diff(before, &after);
            // a store entry rewritten with the identical value (version bump only) is not a change of
            // contents; the cloud store's last-writer record moves with every non-empty transaction
            let before_len = d.len();
            d.retain(|(k, a, b)| {
                if k == "store._WRITER" {
                    return false;
                }
                if k.starts_with("store.") {
                    let va = a.splitn(2, ':').nth(1);
                    let vb = b.splitn(2, ':').nth(1);
                    if va.is_some() && va == vb {
                        return false;
                    }
                }
                true
            });
            if d.len() != before_len {
                r.count("c10.version_only_rewrites_ignored");
            }
            r.count("c10.refusals_checked");
            r.distinct_hash(fnv_str(&format!("c10:{}:{}:{}", kind, op_api(&op), err_tag(e))));
            if !d.is_empty() {
                let labels: Vec<String> = d.iter().map(|x| {
                    let k = &x.0;
                    if k.starts_with("chan.") { format!("chan.{}", k.rsplit('.').next().unwrap_or("")) } else if k.starts_with("store.") { format!("store.{}", k.split('/').next().unwrap_or("").trim_start_matches("store.")) } else if k.starts_with("tracker.listener.") { "tracker.listener".into() } else { k.clone() }
                }).collect::<BTreeSet<_>>().into_iter().collect();
                let sig = format!("c10:refused-request-changed-state:{}:{}", kind, labels.join("+"));
                r.violation(&sig, witness(&h, cli, json!({"op": format!("{:?}", op), "error": e, "differences": snapshot::brief(&d)})));
            }
        }
        monitors(&mut h, r, cli, prop, &op, &out);
        if matches!(op, Op::Restart) && out.res.is_ok() {
            c11_suspended = false;
        }
        if prop == Prop::C11 && !matches!(out.res, Res::Panic(_)) {
            if !c11_suspended {
                c11_check(&mut h, r, cli, &op, &out);
            } else if is_retry_step && fired == 0 && out.res.is_ok() {
                r.count("c11.acknowledged_retries_after_storage_failure_checked");
                // one finding per request kind, whatever the comparison and the probes turn up
                let mut tmp = Report::new(&cli.prop);
                c11_check(&mut h, &mut tmp, cli, &op, &out);
                if !tmp.violations.is_empty() {
                    let old_protocol = matches!(op, Op::ValidateHolder { api: Api::Handler(4) | Api::HandlerRaw(4), .. });
                    let saved = std::mem::take(&mut r.sig_suffix);
                    let sig = format!("c11:acknowledged-retry-after-storage-failure-not-durable:{}{}", kind, if old_protocol { ":old-protocol" } else { "" });
                    let found: Vec<Value> = tmp.violations.iter().map(|v| json!({"signature": v.signature, "detail": v.detail})).collect();
                    r.violation(&sig, json!({"op": format!("{:?}", op), "seed": cli.seed, "shard": shard, "history": index, "found_by_the_comparison": found}));
                    r.sig_suffix = saved;
                }
            } else {
                r.count("c11.suspended_between_storage_failure_and_restart");
            }
        }
        // distinct situations for C01-C03: (kind, api, relation of n to counter, outcome class)
        if matches!(prop, Prop::C01 | Prop::C02 | Prop::C03 | Prop::C18) {
            r.distinct_hash(fnv_str(&format!("{}:{}:{}", kind, op_api(&op), out.res.tag())));
        }
    }
    if both_sign_and_revoke_attempt.1 {
        r.count("histories_with_sign_then_revoke_attempt");
    }
    r.sig_suffix.clear();
    if index < 2 && shard == 0 {
        r.sample(json!({"history": index, "first_ops": h.log.iter().take(25).collect::<Vec<_>>() }));
    }
}

fn main() {
    let cli = Cli::parse("C01");
    report::install_quiet_panic_hook();
    let start = Instant::now();
    let prop = match cli.prop.as_str() {
        "C01" => Prop::C01,
        "C02" => Prop::C02,
        "C03" => Prop::C03,
        "C10" => Prop::C10,
        "C11" => Prop::C11,
        "C18" => Prop::C18,
        other => {
            println!("INCONCLUSIVE property={} not served by the chan driver", other);
            std::process::exit(2);
        }
    };
    let quick = cli.tier.is_quick();
    let shards = if quick { 16 } else { 64 };
    let (histories, steps) = match (prop, quick) {
        (Prop::C10, true) => (10, 120),
        (Prop::C10, false) => (60, 160),
        (Prop::C11, true) => (8, 100),
        (Prop::C11, false) => (50, 140),
        (_, true) => (30, 120),
        (_, false) => (250, 160),
    };
    let histories = cli.scaled(histories);
    let mut report = run_sharded(&cli.prop, cli.threads, shards, |i, r| {
        let mut rng = Rng::new(cli.seed.wrapping_mul(7_000_003).wrapping_add(i as u64).wrapping_add(fnv_str(&cli.prop)));
        for hidx in 0..histories {
            let mut hr = rng.fork(hidx);
            run_history(&mut hr, r, &cli, prop, i, hidx, steps);
        }
    });
    match prop {
        Prop::C01 => {
            report.require("secret.disclosed", 200);
            report.require("disclosure_attempt_refused.v4", 20);
            report.require("disclosure_attempt_refused.v5", 20);
            report.require("disclosure_attempt_refused.v6", 20);
        }
        Prop::C02 => {
            report.require("holder.sign.identified", 50);
            report.require("histories_with_sign_then_revoke_attempt", 30);
            if report.get("holder.sign.unidentified") * 20 > report.get("holder.sign.ok") {
                report.inconclusive("more than 5% of released holder signatures could not be attributed to a commitment number");
            }
        }
        Prop::C03 => {
            report.require("cp.sign.ok", 200);
            report.require("cp.revoke.ok", 100);
            report.require("cp.sign.retry_ok", 10);
        }
        Prop::C10 => {
            report.require("c10.refusals_checked", 500);
        }
        Prop::C11 => {
            report.require("c11.crash_points", 1000);
            report.require("c11.crash_points_restored_from_backup_store_alone", 500);
            report.require("storage_fault.episodes_on_the_backup_store", 3);
        }
        Prop::C18 => {
            report.require("keyfn.reply_values_checked", 2000);
        }
    }
    let (level, rule) = match prop {
        Prop::C11 => ("fault_enumeration", "every step of every generated request history is a crash point: after each request a second signer is restored from a deep copy of the store and compared label by label (per-channel EnforcementState, setup, ids; tracker tip/height/headers/listener monitor states; allowlist; approved invoices; dbid high-water mark) with the running one; on the cloud-staged store a third signer is restored from the reported mutations alone, on the main + backup composite store a third signer is restored from the backup store alone (storage-fault episodes hit the main or the backup store). distinct = (request kind, api, outcome tag)"),
        Prop::C18 => ("exploration", "the C01 request histories (validate/revoke/get-point/get-secret incl. stale retries and extremes, protocol versions 4/5/6 and the direct API, restarts, storage-fault episodes): every per-commitment secret and point in a reply (revoke and old-protocol validate replies: secret n-1 and point n+1; get-point: point n and, before protocol 6, secret n-2; get-secret: secret n) must be the harness's own derivation from (seed, channel id) at the commitment number the reply stands for. distinct = (reply field, channel ready?, restarts so far)"),
        Prop::C10 => ("exploration", "request histories (valid and invalid requests at handler protocol versions 4/5/6 and direct API, node-level requests, restarts; every third history on the cloud-staged store in the daemon's enter/prepare/commit cycle); a full snapshot (all channels' EnforcementState, node state entry with payments and allowlist, tracker entry, store dump) is taken before every request and compared after every refused one. distinct = (request kind, api, error tag)"),
        _ => ("exploration", "seeded request histories on 1-2 channels: validate/revoke/activate/get-point/get-secret/sign (phase2, recovery, redundant)/sign-counterparty/validate-revocation/mutual-close/restart through ChannelHandler at protocol versions 4, 5, 6 and the direct Channel API, commitment numbers drawn relative to the live counters plus extremes, valid and six kinds of invalid counterparty signatures, right/wrong/stale secrets and points. Ghost state is updated only from replies; disclosed secrets are attributed to commitment numbers by an independent BOLT-3 derivation from the node seed. distinct = (request kind, api, outcome tag) plus monitor-specific (disclosure/sign/revocation situation) tuples"),
    };
    finish(
        report,
        FinishSpec {
            cli: &cli,
            level,
            rule,
            assumptions: vec![
                "counterparty signatures are produced by the harness with LDK chan_utils on transactions it builds from harness-held parameters; LDK / rust-bitcoin / libsecp256k1 are trusted".into(),
                "native key derivation style (the harness re-derives the channel commitment seed independently to attribute disclosed secrets)".into(),
            ],
            start,
            extra_coverage: Default::default(),
        },
    );
}
