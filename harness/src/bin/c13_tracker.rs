//! C13 — the chain tracker follows only validated blocks and rejects atomically.
//!
//! Drives the real `ChainTracker` (regtest, real `SimpleValidator`) with sequences of add/remove
//! requests, each built with a *known validity class*: valid by construction, or carrying exactly
//! one defect (wrong prev hash, PoW above target, changed bits off a retarget boundary, bad
//! retarget, proof for another block / missing watched tx / wrong filter header / wrong height,
//! attestations from too few trusted oracles / untrusted keys / forged signature, wrong
//! `prev_headers` on removal, removal beyond the header window, streamed block mismatch).
//!
//! Monitors (one-directional):
//!  * Ok  => the class is not `invalid` (proof/attestation clauses are waived on top of a tip whose
//!           stored filter header is all-zero: the documented upgrade path), and the successor state
//!           is "tip moved by exactly that block" (tip, height, remembered headers).
//!  * Err => full snapshot equality before/after (tip, height, headers deque, listener keys, slots
//!           txid_watches/watches/seen, listener-internal persisted state, trusted oracle set).
//!  * after any Err a by-construction-correct request for the same tip is issued and must be Ok
//!    ("a later correct request still succeeds"); any later valid request in the same history
//!    that is refused or panics after an earlier refusal is reported the same way.
//!
//! Listeners: `MockListener` (test_utils) and the real `ChainMonitor` (funding inputs watched,
//! funding confirmation, double spend, mutual close) so that "watches and monitors" is observed
//! on the real monitor state.  Validity is known by construction; proofs are produced with
//! `TxoProof::prove` (trusted component), never re-verified by the oracle.

use lightning_signer::bitcoin;
use lightning_signer::bitcoin::absolute::LockTime;
use lightning_signer::bitcoin::block::{Header as BlockHeader, Version as BlockVersion};
use lightning_signer::bitcoin::blockdata::constants::{genesis_block, DIFFCHANGE_INTERVAL};
use lightning_signer::bitcoin::consensus::serialize;
use lightning_signer::bitcoin::hash_types::{FilterHeader, TxMerkleNode};
use lightning_signer::bitcoin::hashes::Hash;
use lightning_signer::bitcoin::secp256k1::{All, Keypair, PublicKey, Secp256k1, SecretKey};
use lightning_signer::bitcoin::transaction::Version as TxVersion;
use lightning_signer::bitcoin::{
    Amount, Block, BlockHash, CompactTarget, Network, OutPoint, ScriptBuf, Sequence, Transaction,
    TxIn, TxOut, Txid, Witness,
};
use lightning_signer::chain::tracker::{ChainListener, ChainTracker, Error as TrackerError, Headers};
use lightning_signer::channel::ChannelId;
use lightning_signer::lightning::ln::chan_utils::{
    ChannelTransactionParameters, CounterpartyChannelTransactionParameters,
};
use lightning_signer::lightning::types::features::ChannelTypeFeatures;
use lightning_signer::monitor::{ChainMonitor, ChainMonitorBase};
use lightning_signer::policy::simple_validator::SimpleValidatorFactory;
use lightning_signer::policy::validator::ValidatorFactory;
use lightning_signer::txoo::filter::BlockSpendFilter;
use lightning_signer::txoo::proof::{ProofType, TxoProof};
use lightning_signer::txoo::spv::SpvProof;
use lightning_signer::txoo::util::sign_attestation;
use lightning_signer::txoo::{Attestation, SignedAttestation};
use lightning_signer::util::status::Status;
use lightning_signer::util::test_utils::key::make_test_counterparty_points;
use lightning_signer::util::test_utils::MockListener;
use lightning_signer::{CommitmentPointProvider, SendSync};
use serde_json::{json, Value};
use std::collections::{BTreeMap, BTreeSet, VecDeque};
use std::sync::Arc;
use std::time::Instant;
use vls_verif::report::{self, finish, run_sharded, FinishSpec};
use vls_verif::{Cli, Report, Rng};

const MAX_REORG: usize = ChainTracker::<MockListener>::MAX_REORG_SIZE;

// ---------------------------------------------------------------------------------------------
// listeners
// ---------------------------------------------------------------------------------------------

/// What the driver needs from a listener type
trait TL: ChainListener<Key = OutPoint> + Clone + 'static {
    const NAME: &'static str;
    /// whether the listener implements the streamed removal callback
    const STREAM_REMOVE: bool;
    /// persisted / observable internal state of the listener ("monitor state")
    fn internal(&self) -> String;
    /// the listener as a restarted signer would re-create it from its persisted state
    /// (`persisted` = what `internal()` returned when the state was last persisted)
    fn reborn(&self, persisted: &str) -> Self;
    /// register listener number `i`; returns "special" spends: watched outpoint -> the transaction
    /// that should preferably spend it (e.g. the funding transaction)
    fn install(
        tracker: &mut ChainTracker<Self>,
        rng: &mut Rng,
        i: u32,
        special: &mut BTreeMap<OutPoint, Transaction>,
    );
}

fn rand_outpoint(rng: &mut Rng, vout: u32) -> OutPoint {
    OutPoint { txid: Txid::from_byte_array(rng.bytes::<32>()), vout }
}

fn spend_tx(prev: OutPoint, uniq: u64, nouts: usize) -> Transaction {
    Transaction {
        version: TxVersion::TWO,
        lock_time: LockTime::ZERO,
        input: vec![TxIn {
            previous_output: prev,
            script_sig: ScriptBuf::new(),
            sequence: Sequence::ZERO,
            witness: Witness::default(),
        }],
        output: (0..nouts.max(1))
            .map(|k| TxOut {
                value: Amount::from_sat(1000 + (uniq % 1_000_000) * 10 + k as u64),
                script_pubkey: ScriptBuf::from_bytes(vec![0x51]),
            })
            .collect(),
    }
}

impl TL for MockListener {
    const NAME: &'static str = "mock";
    const STREAM_REMOVE: bool = false; // MockListener::on_remove_streamed_block_end is unimplemented!()
    fn internal(&self) -> String {
        String::new() // private fields; only the tracker's slot for it is observable
    }
    fn reborn(&self, _persisted: &str) -> Self {
        self.clone()
    }
    fn install(
        tracker: &mut ChainTracker<Self>,
        rng: &mut Rng,
        i: u32,
        _special: &mut BTreeMap<OutPoint, Transaction>,
    ) {
        let key = rand_outpoint(rng, i);
        let mut txids = BTreeSet::new();
        if rng.chance(1, 3) {
            txids.insert(Txid::from_byte_array(rng.bytes::<32>()));
        }
        tracker.add_listener(MockListener::new(key), txids);
        let mut w = BTreeSet::new();
        w.insert(key);
        if rng.chance(1, 3) {
            // an extra watched outpoint the listener itself does not react to
            w.insert(rand_outpoint(rng, 7));
        }
        tracker.add_listener_watches(&key, w);
    }
}

/// A commitment point provider that can only say "this is not a commitment transaction"
/// (every closing transaction generated here is a mutual close).
struct FixedParams;
impl SendSync for FixedParams {}
impl CommitmentPointProvider for FixedParams {
    fn get_holder_commitment_point(&self, _n: u64) -> PublicKey {
        make_test_counterparty_points().funding_pubkey
    }
    fn get_counterparty_commitment_point(&self, _n: u64) -> Option<PublicKey> {
        None
    }
    fn get_transaction_parameters(&self) -> ChannelTransactionParameters {
        ChannelTransactionParameters {
            holder_pubkeys: make_test_counterparty_points(),
            holder_selected_contest_delay: 6,
            is_outbound_from_holder: true,
            counterparty_parameters: Some(CounterpartyChannelTransactionParameters {
                pubkeys: make_test_counterparty_points(),
                selected_contest_delay: 6,
            }),
            funding_outpoint: None,
            channel_type_features: ChannelTypeFeatures::empty(),
        }
    }
    fn get_spendable_htlc_indices(&self, _tx: &Transaction, _n: u64) -> Result<Vec<u32>, Status> {
        Ok(vec![])
    }
    fn clone_box(&self) -> Box<dyn CommitmentPointProvider> {
        Box::new(FixedParams)
    }
}

impl TL for ChainMonitor {
    const NAME: &'static str = "monitor";
    const STREAM_REMOVE: bool = true;
    fn internal(&self) -> String {
        serde_json::to_string(&*self.get_state()).unwrap_or_else(|e| format!("unserializable: {}", e))
    }
    fn reborn(&self, persisted: &str) -> Self {
        let state: lightning_signer::monitor::State =
            serde_json::from_str(persisted).expect("monitor state round trip");
        ChainMonitorBase::new_from_persistence(self.funding_outpoint, state, &ChannelId::new(&[7u8; 32]))
            .as_monitor(Box::new(FixedParams))
    }
    fn install(
        tracker: &mut ChainTracker<Self>,
        rng: &mut Rng,
        i: u32,
        special: &mut BTreeMap<OutPoint, Transaction>,
    ) {
        // the funding transaction: one wallet input, the channel output at index 0
        let input = rand_outpoint(rng, i);
        let ftx = spend_tx(input, rng.below(1_000_000), 1 + rng.usize(2));
        let key = OutPoint { txid: ftx.compute_txid(), vout: 0 };
        let base = ChainMonitorBase::new(key, tracker.height(), &ChannelId::new(&rng.bytes::<32>()));
        let monitor = base.as_monitor(Box::new(FixedParams));
        monitor.add_funding(&ftx, 0);
        let mut txids = BTreeSet::new();
        txids.insert(key.txid);
        tracker.add_listener(monitor, txids);
        let mut w = BTreeSet::new();
        w.insert(input);
        tracker.add_listener_watches(&key, w);
        special.insert(input, ftx);
    }
}

// ---------------------------------------------------------------------------------------------
// snapshot
// ---------------------------------------------------------------------------------------------

#[derive(Clone, PartialEq, Debug)]
struct LSnap {
    key: OutPoint,
    txid_watches: Vec<Txid>,
    watches: Vec<OutPoint>,
    seen: Vec<OutPoint>,
    internal: String,
}

#[derive(Clone, PartialEq, Debug)]
struct Snap {
    tip: (BlockHeader, FilterHeader),
    height: u32,
    headers: Vec<(BlockHeader, FilterHeader)>,
    listeners: Vec<LSnap>,
    oracles: Vec<PublicKey>,
    network: Network,
}

fn snap<L: TL>(t: &ChainTracker<L>) -> Snap {
    Snap {
        tip: (t.tip.0, t.tip.1),
        height: t.height,
        headers: t.headers.iter().map(|h| (h.0, h.1)).collect(),
        listeners: t
            .listeners
            .iter()
            .map(|(k, (l, s))| LSnap {
                key: *k,
                txid_watches: s.txid_watches.iter().cloned().collect(),
                watches: s.watches.iter().cloned().collect(),
                seen: s.seen.iter().cloned().collect(),
                internal: l.internal(),
            })
            .collect(),
        oracles: t.trusted_oracle_pubkeys.clone(),
        network: t.network,
    }
}

fn diff_fields(a: &Snap, b: &Snap) -> Vec<String> {
    let mut d = vec![];
    if a.tip != b.tip {
        d.push("tip".to_string());
    }
    if a.height != b.height {
        d.push("height".to_string());
    }
    if a.headers != b.headers {
        d.push("headers".to_string());
    }
    if a.oracles != b.oracles {
        d.push("trusted_oracle_pubkeys".to_string());
    }
    if a.network != b.network {
        d.push("network".to_string());
    }
    if a.listeners.len() != b.listeners.len() {
        d.push("listeners.len".to_string());
    } else {
        for (x, y) in a.listeners.iter().zip(b.listeners.iter()) {
            if x.key != y.key {
                d.push("listeners.key".to_string());
            }
            if x.txid_watches != y.txid_watches {
                d.push("listeners.txid_watches".to_string());
            }
            if x.watches != y.watches {
                d.push("listeners.watches".to_string());
            }
            if x.seen != y.seen {
                d.push("listeners.seen".to_string());
            }
            if x.internal != y.internal {
                let (a, b): (Value, Value) = (
                    serde_json::from_str(&x.internal).unwrap_or(Value::Null),
                    serde_json::from_str(&y.internal).unwrap_or(Value::Null),
                );
                match (a.as_object(), b.as_object()) {
                    (Some(a), Some(b)) =>
                        for (k, v) in a {
                            if b.get(k) != Some(v) {
                                d.push(format!("listeners.monitor_state.{}", k));
                            }
                        },
                    _ => d.push("listeners.monitor_state".to_string()),
                }
            }
        }
    }
    d.sort();
    d.dedup();
    d
}

fn hdr_hex(h: &(BlockHeader, FilterHeader)) -> String {
    format!("{}|{}", hex::encode(serialize(&h.0)), h.1)
}

// ---------------------------------------------------------------------------------------------
// building blocks, proofs, attestations
// ---------------------------------------------------------------------------------------------

struct Oracles {
    trusted: Vec<Keypair>,
    untrusted: Vec<Keypair>,
}

fn gen_keypair(rng: &mut Rng, secp: &Secp256k1<All>) -> Keypair {
    loop {
        if let Ok(sk) = SecretKey::from_slice(&rng.bytes::<32>()) {
            return Keypair::from_secret_key(secp, &sk);
        }
    }
}

fn pk(kp: &Keypair) -> PublicKey {
    PublicKey::from_keypair(kp)
}

type Att = (PublicKey, SignedAttestation);

fn attest(
    secp: &Secp256k1<All>,
    claimed: &Keypair,
    signer: &Keypair,
    hash: BlockHash,
    height: u32,
    fh: FilterHeader,
) -> Att {
    let a = Attestation { block_hash: hash, block_height: height, filter_header: fh, time: 1_700_000_000 };
    (pk(claimed), sign_attestation(a, signer, secp))
}

#[derive(Clone, Copy, PartialEq, Eq, Debug)]
enum AttMode {
    Valid,
    Minority,
    UntrustedOnly,
    DupTrusted,
    ForgedSig,
}

/// Build the attestation list.  `Valid`: at least ceil(n/2) distinct trusted keys, all signatures
/// genuine, optionally some untrusted ones too.  Defective modes have fewer than ceil(n/2)
/// genuinely signed distinct trusted keys (and at least one attestation, the API requires it).
fn att_set(
    rng: &mut Rng,
    secp: &Secp256k1<All>,
    o: &Oracles,
    mode: AttMode,
    hash: BlockHash,
    height: u32,
    fh: FilterHeader,
) -> Vec<Att> {
    let n = o.trusted.len();
    let need = (n + 1) / 2; // "at least half of the trusted oracles"
    let mut idx: Vec<usize> = (0..n).collect();
    rng.shuffle(&mut idx);
    let mut out = vec![];
    let genuine = |kp: &Keypair| attest(secp, kp, kp, hash, height, fh);
    match mode {
        AttMode::Valid => {
            let k = if n == 0 { 0 } else { rng.range(need as u64, n as u64) as usize };
            for i in idx.iter().take(k) {
                out.push(genuine(&o.trusted[*i]));
            }
            let extra = if out.is_empty() { 1 + rng.usize(2) } else { rng.usize(3) };
            for j in 0..extra.min(o.untrusted.len()) {
                out.push(genuine(&o.untrusted[j]));
            }
        }
        AttMode::Minority => {
            // need >= 1 here; take fewer than `need` trusted keys (possibly zero) + untrusted filler
            let k = rng.usize(need);
            for i in idx.iter().take(k) {
                out.push(genuine(&o.trusted[*i]));
            }
            let extra = 1 + rng.usize(2);
            for j in 0..extra.min(o.untrusted.len()) {
                out.push(genuine(&o.untrusted[j]));
            }
        }
        AttMode::UntrustedOnly => {
            let extra = 1 + rng.usize(2);
            for j in 0..extra.min(o.untrusted.len()) {
                out.push(genuine(&o.untrusted[j]));
            }
        }
        AttMode::DupTrusted => {
            // n == 3: the same trusted key several times is still one oracle
            let i = idx[0];
            out.push(genuine(&o.trusted[i]));
            out.push(genuine(&o.trusted[i]));
            if rng.bool() {
                out.push(genuine(&o.trusted[i]));
            }
        }
        AttMode::ForgedSig => {
            // claims trusted keys, but signed by a key the attacker holds; the genuinely signed
            // trusted attestations stay below the required number
            let k = rng.usize(need);
            for (pos, i) in idx.iter().enumerate() {
                if pos < k {
                    out.push(genuine(&o.trusted[*i]));
                } else {
                    out.push(attest(secp, &o.trusted[*i], &o.untrusted[0], hash, height, fh));
                }
            }
        }
    }
    rng.shuffle(&mut out);
    out
}

const TOP_EXP: u32 = 0x2000_0000;
const TOP_MANT: u32 = 0x7f_ffff;

/// regtest difficulty "level" s: target = chain max >> s
fn level_bits(s: u32) -> CompactTarget {
    let raw = CompactTarget::from_consensus(TOP_EXP | (TOP_MANT >> s));
    bitcoin::Target::from_compact(raw).to_compact_lossy()
}

fn bits_level(bits: CompactTarget) -> Option<u32> {
    (0..=12).find(|s| level_bits(*s) == bits)
}

fn above_chain_max_bits() -> CompactTarget {
    CompactTarget::from_consensus(0x2100_ffff)
}

fn coinbase(height: u32, uniq: u64) -> Transaction {
    let mut sig = vec![4u8];
    sig.extend_from_slice(&height.to_le_bytes());
    sig.push(8);
    sig.extend_from_slice(&uniq.to_le_bytes());
    Transaction {
        version: TxVersion::TWO,
        lock_time: LockTime::ZERO,
        input: vec![TxIn {
            previous_output: OutPoint::null(),
            script_sig: ScriptBuf::from_bytes(sig),
            sequence: Sequence::MAX,
            witness: Witness::default(),
        }],
        output: vec![TxOut {
            value: Amount::from_sat(50_0000_0000),
            script_pubkey: ScriptBuf::from_bytes(vec![0x51]),
        }],
    }
}

fn mine(
    prev: BlockHash,
    merkle: TxMerkleNode,
    bits: CompactTarget,
    time: u32,
    pow_ok: bool,
    nonce0: u32,
) -> BlockHeader {
    let mut nonce = nonce0;
    loop {
        let h = BlockHeader {
            version: BlockVersion::from_consensus(0x2000_0000),
            prev_blockhash: prev,
            merkle_root: merkle,
            time,
            bits,
            nonce,
        };
        if h.validate_pow(h.target()).is_ok() == pow_ok {
            return h;
        }
        nonce = nonce.wrapping_add(1);
    }
}

fn make_block(
    prev: BlockHash,
    bits: CompactTarget,
    time: u32,
    pow_ok: bool,
    txs: Vec<Transaction>,
    nonce0: u32,
) -> Block {
    let mut b = Block {
        header: BlockHeader {
            version: BlockVersion::from_consensus(0x2000_0000),
            prev_blockhash: prev,
            merkle_root: TxMerkleNode::all_zeros(),
            time,
            bits,
            nonce: 0,
        },
        txdata: txs,
    };
    let root = b.compute_merkle_root().expect("non-empty block");
    b.header = mine(prev, root, bits, time, pow_ok, nonce0);
    b
}

/// A compact proof assembled by hand (no sanity checks), for defective requests
fn manual_filter_proof(
    atts: Vec<Att>,
    block: &Block,
    txid_watches: &[Txid],
    outpoint_watches: &[OutPoint],
) -> TxoProof {
    let filter = BlockSpendFilter::from_block(block);
    let (spv, _, _) = SpvProof::build(block, txid_watches, outpoint_watches);
    TxoProof { attestations: atts, proof: ProofType::Filter(filter.content, spv) }
}

/// Same construction as txoo's `TxoProof::prove` (that function is behind the `prover` feature,
/// which is not enabled in this build), including its sanity checks on the attestations.
/// Returns a `ProofType::Block` proof on a filter false positive, as the original does.
fn prove_checked(
    atts: Vec<Att>,
    prev_fh: &FilterHeader,
    block: &Block,
    height: u32,
    outpoint_watches: &[OutPoint],
    txid_watches: &[Txid],
) -> TxoProof {
    assert!(!atts.is_empty(), "generator: no attestations");
    let filter = BlockSpendFilter::from_block(block);
    let fh = filter.filter_header(prev_fh);
    let hash = block.block_hash();
    for (_, a) in atts.iter() {
        assert_eq!(a.attestation.block_hash, hash, "generator: attestation for wrong block");
        assert_eq!(a.attestation.block_height, height, "generator: attestation for wrong height");
        assert_eq!(a.attestation.filter_header, fh, "generator: attestation for wrong filter header");
    }
    let (spv, _spent, unspent) = SpvProof::build(block, txid_watches, outpoint_watches);
    let proof = if !unspent.is_empty() && filter.match_any(&hash, &mut unspent.iter()) {
        ProofType::Block(block.clone())
    } else {
        ProofType::Filter(filter.content, spv)
    };
    TxoProof { attestations: atts, proof }
}

fn true_fh(block: &Block, prev_fh: &FilterHeader) -> FilterHeader {
    BlockSpendFilter::from_block(block).filter_header(prev_fh)
}

fn is_zero_fh(fh: &FilterHeader) -> bool {
    fh.to_byte_array().iter().all(|b| *b == 0)
}

// ---------------------------------------------------------------------------------------------
// request classes
// ---------------------------------------------------------------------------------------------

#[derive(Clone, Copy, PartialEq, Eq, Debug)]
enum V {
    Valid,
    Invalid,
    /// acceptance is not judged (waived proof clauses, exact x4 retarget, unsupported proof form)
    Unjudged,
}

#[derive(Clone, Copy, PartialEq, Eq, Debug)]
enum Defect {
    None,
    // retarget variants that are valid / exactly at the x4 limit
    RetargetStep,
    RetargetExact4,
    // header defects
    BadPrevRandom,
    BadPrevGrandparent,
    PowAboveTarget,
    BitsOffBoundary,
    TargetAboveChainMax,
    RetargetTooHard,
    RetargetTooEasy,
    // proof defects
    ProofOtherBlock,
    ProofMissingWatchedTx,
    ProofWrongFilterHeader,
    ProofWrongHeight,
    // attestation defects
    AttMinority,
    AttUntrustedOnly,
    AttDupTrusted,
    AttForgedSig,
    // streamed delivery defects
    StreamOtherBlock,
    StreamTruncated,
    // proof carrying the whole block inline (not supported by the tracker)
    FullBlockProof,
    // ... with the genuine header and attestations but a transaction list that leaves out the spend of a watched
    // outpoint: no unspent-output proof for the watched outpoints, whatever the tracker makes of inline blocks
    FullBlockProofHidesWatchedSpend,
    // removal only
    RmWrongPrevHeader,
    RmPrevGrandparent,
    RmWrongPrevFilterHeader,
    RmBeyondWindow,
}

impl Defect {
    fn name(&self) -> &'static str {
        match self {
            Defect::None => "valid",
            Defect::RetargetStep => "valid-retarget-x2",
            Defect::RetargetExact4 => "retarget-exactly-x4",
            Defect::BadPrevRandom => "wrong-prev-hash-random",
            Defect::BadPrevGrandparent => "wrong-prev-hash-grandparent",
            Defect::PowAboveTarget => "pow-above-target",
            Defect::BitsOffBoundary => "bits-changed-off-boundary",
            Defect::TargetAboveChainMax => "target-above-chain-max",
            Defect::RetargetTooHard => "retarget-beyond-x4-harder",
            Defect::RetargetTooEasy => "retarget-beyond-x4-easier",
            Defect::ProofOtherBlock => "proof-for-other-block",
            Defect::ProofMissingWatchedTx => "proof-missing-watched-tx",
            Defect::ProofWrongFilterHeader => "proof-wrong-filter-header",
            Defect::ProofWrongHeight => "attestation-wrong-height",
            Defect::AttMinority => "attestations-minority",
            Defect::AttUntrustedOnly => "attestations-untrusted-only",
            Defect::AttDupTrusted => "attestations-duplicate-trusted",
            Defect::AttForgedSig => "attestations-forged-signature",
            Defect::StreamOtherBlock => "streamed-other-block",
            Defect::StreamTruncated => "streamed-truncated",
            Defect::FullBlockProof => "inline-full-block-proof",
            Defect::FullBlockProofHidesWatchedSpend => "inline-full-block-proof-hiding-watched-spend",
            Defect::RmWrongPrevHeader => "wrong-prev-headers-random",
            Defect::RmPrevGrandparent => "wrong-prev-headers-grandparent",
            Defect::RmWrongPrevFilterHeader => "wrong-prev-filter-header",
            Defect::RmBeyondWindow => "beyond-header-window",
        }
    }
    fn is_proof_clause(&self) -> bool {
        matches!(
            self,
            Defect::ProofOtherBlock
                | Defect::ProofMissingWatchedTx
                | Defect::FullBlockProofHidesWatchedSpend
                | Defect::ProofWrongFilterHeader
                | Defect::ProofWrongHeight
                | Defect::AttMinority
                | Defect::AttUntrustedOnly
                | Defect::AttDupTrusted
                | Defect::AttForgedSig
        )
    }
    fn att_mode(&self) -> AttMode {
        match self {
            Defect::AttMinority => AttMode::Minority,
            Defect::AttUntrustedOnly => AttMode::UntrustedOnly,
            Defect::AttDupTrusted => AttMode::DupTrusted,
            Defect::AttForgedSig => AttMode::ForgedSig,
            _ => AttMode::Valid,
        }
    }
}

struct Stream {
    hash: BlockHash,
    bytes: Vec<u8>,
    cuts: Vec<usize>,
}

struct Req {
    is_add: bool,
    defect: Defect,
    validity: V,
    streamed: bool,
    // add
    header: BlockHeader,
    // remove
    prev: Headers,
    proof: TxoProof,
    stream: Option<Stream>,
    /// the block whose acceptance would become / cease to be the tip
    block: Block,
    spent_watched: Vec<OutPoint>,
    at_boundary: bool,
}

impl Req {
    fn label(&self) -> String {
        format!(
            "{}.{}{}",
            if self.is_add { "add" } else { "remove" },
            self.defect.name(),
            if self.streamed { ".streamed" } else { "" }
        )
    }
}

// ---------------------------------------------------------------------------------------------
// history state
// ---------------------------------------------------------------------------------------------

#[derive(Clone)]
struct Entry {
    block: Option<Block>,
    headers: (BlockHeader, FilterHeader),
    height: u32,
    spent_watched: Vec<OutPoint>,
}

struct Hist<L: TL> {
    tracker: ChainTracker<L>,
    /// the chain as the reference knows it: chain[0] = start tip, last = current tip
    chain: Vec<Entry>,
    /// how many predecessors of the tip should be remembered (reference)
    remembered: usize,
    oracles: Oracles,
    special: BTreeMap<OutPoint, Transaction>,
    uniq: u64,
    time: u32,
    /// label of the most recent refused request (None if nothing refused so far)
    last_refusal: Option<String>,
    /// a streamed request was refused and no streamed request has completed since
    open_stream_refusal: Option<String>,
    /// the header window has been completely full at some point (older headers were dropped)
    was_full: bool,
    /// the request executed last was refused (Err)
    just_refused: bool,
    log: Vec<Value>,
    start_desc: Value,
    node_id: PublicKey,
    factory: Arc<dyn ValidatorFactory>,
    dead: bool,
    sampled: bool,
}

impl<L: TL> Hist<L> {
    fn next_uniq(&mut self) -> u64 {
        self.uniq += 1;
        self.uniq
    }
    fn expected_headers(&self) -> Vec<(BlockHeader, FilterHeader)> {
        let n = self.chain.len();
        (0..self.remembered).map(|k| self.chain[n - 2 - k].headers).collect()
    }
    fn push_log(&mut self, v: Value) {
        if self.log.len() >= 400 {
            self.log.drain(0..200);
        }
        self.log.push(v);
    }
    fn log_tail(&self, n: usize) -> Vec<Value> {
        self.log.iter().rev().take(n).rev().cloned().collect()
    }
}

/// What a signer restart does: the tracker is re-created from its persisted fields, the listeners
/// from their persisted state (transient block-stream decode state is gone).
fn restart<L: TL>(h: &mut Hist<L>, persisted: &Snap) {
    use lightning_signer::chain::tracker::ListenSlot;
    let mut listeners: BTreeMap<OutPoint, (L, ListenSlot)> = BTreeMap::new();
    for ls in persisted.listeners.iter() {
        if let Some((l, _)) = h.tracker.listeners.get(&ls.key) {
            let slot = ListenSlot {
                txid_watches: ls.txid_watches.iter().cloned().collect(),
                watches: ls.watches.iter().cloned().collect(),
                seen: ls.seen.iter().cloned().collect(),
            };
            listeners.insert(ls.key, (l.reborn(&ls.internal), slot));
        }
    }
    let t = ChainTracker::restore(
        persisted.headers.iter().map(|x| Headers(x.0, x.1)).collect(),
        Headers(persisted.tip.0, persisted.tip.1),
        persisted.height,
        persisted.network,
        listeners,
        h.node_id,
        h.factory.clone(),
        persisted.oracles.clone(),
    );
    h.tracker = t;
    h.open_stream_refusal = None;
}

struct Ctx<'a> {
    secp: &'a Secp256k1<All>,
    seed: u64,
    shard: usize,
    hist: u64,
}

// ---------------------------------------------------------------------------------------------
// request builders
// ---------------------------------------------------------------------------------------------

fn cuts_for(rng: &mut Rng, len: usize) -> Vec<usize> {
    let mut cuts = vec![];
    if len > 2 {
        match rng.below(4) {
            0 => {}
            1 => cuts.push(1 + rng.usize(len - 1)),
            2 => {
                cuts.push(80.min(len - 1)); // header | rest
                if len > 90 {
                    cuts.push(81 + rng.usize(len - 81));
                }
            }
            _ => {
                let k = 2 + rng.usize(4);
                for _ in 0..k {
                    cuts.push(1 + rng.usize(len - 1));
                }
            }
        }
    }
    cuts.sort();
    cuts.dedup();
    cuts
}

/// Transactions for a new block: coinbase, some spends of currently watched outpoints, noise
fn gen_txs<L: TL>(
    h: &mut Hist<L>,
    rng: &mut Rng,
    height: u32,
    must_spend: bool,
    allow_spend: bool,
) -> (Vec<Transaction>, Vec<OutPoint>) {
    let u = h.next_uniq();
    let mut txs = vec![coinbase(height, u)];
    let mut spent = vec![];
    let fwd = h.tracker.get_all_forward_watches().1;
    let nspend = if !allow_spend || fwd.is_empty() {
        0
    } else if must_spend {
        1 + rng.usize(2)
    } else {
        match rng.below(10) {
            0..=4 => 0,
            5..=8 => 1,
            _ => 2,
        }
    };
    let mut cands = fwd.clone();
    rng.shuffle(&mut cands);
    for w in cands.into_iter().take(nspend) {
        let tx = match h.special.get(&w) {
            Some(ftx) if rng.chance(3, 4) => ftx.clone(),
            _ => {
                let u = h.next_uniq();
                spend_tx(w, u, 1 + rng.usize(2))
            }
        };
        // sometimes spend the first output of that transaction in the same block as well
        let chain_spend = rng.chance(1, 6);
        let child = OutPoint { txid: tx.compute_txid(), vout: 0 };
        txs.push(tx);
        spent.push(w);
        if chain_spend {
            let u = h.next_uniq();
            txs.push(spend_tx(child, u, 1));
        }
    }
    for _ in 0..rng.usize(3) {
        let u = h.next_uniq();
        let vout = rng.below(4) as u32;
        let op = rand_outpoint(rng, vout);
        txs.push(spend_tx(op, u, 1 + rng.usize(2)));
    }
    (txs, spent)
}

/// Defects applicable to an addition in the current state
fn add_defects<L: TL>(h: &Hist<L>, streamed: bool, at_boundary: bool) -> Vec<Defect> {
    let n = h.oracles.trusted.len();
    let level = bits_level(h.tracker.tip().0.bits);
    let mut d = vec![
        Defect::BadPrevRandom,
        Defect::BadPrevGrandparent,
        Defect::PowAboveTarget,
        Defect::TargetAboveChainMax,
        Defect::ProofWrongHeight,
    ];
    if at_boundary {
        if level.map(|s| s + 3 <= 11).unwrap_or(false) {
            d.push(Defect::RetargetTooHard);
            d.push(Defect::RetargetTooHard);
        }
        if level.map(|s| s >= 3).unwrap_or(false) {
            d.push(Defect::RetargetTooEasy);
            d.push(Defect::RetargetTooEasy);
        }
    } else if level.is_some() {
        d.push(Defect::BitsOffBoundary);
        d.push(Defect::BitsOffBoundary);
    }
    if n >= 1 {
        d.push(Defect::AttMinority);
        d.push(Defect::AttUntrustedOnly);
        d.push(Defect::AttForgedSig);
    }
    if n >= 3 {
        d.push(Defect::AttDupTrusted);
    }
    if streamed {
        d.push(Defect::StreamOtherBlock);
        d.push(Defect::StreamOtherBlock);
        d.push(Defect::StreamTruncated);
    } else {
        d.push(Defect::ProofWrongFilterHeader);
        d.push(Defect::FullBlockProof);
        // (on a tip without filter header the proof is not checked at all and the listeners only
        // see the transactions of the proof: hiding transactions there is the documented upgrade
        // path, not a defect the tracker could notice, and would desynchronise the listeners)
        if !is_zero_fh(&h.tracker.tip().1) {
            d.push(Defect::ProofOtherBlock);
            if !h.tracker.get_all_forward_watches().1.is_empty() {
                d.push(Defect::ProofMissingWatchedTx);
                d.push(Defect::ProofMissingWatchedTx);
                d.push(Defect::FullBlockProofHidesWatchedSpend);
            }
        }
    }
    d
}

fn build_add<L: TL>(h: &mut Hist<L>, rng: &mut Rng, cx: &Ctx, defect: Defect, streamed: bool) -> Req {
    let tip = h.tracker.tip().clone();
    let height = h.tracker.height();
    let newh = height + 1;
    let at_boundary = newh % DIFFCHANGE_INTERVAL == 0;
    let level = bits_level(tip.0.bits);
    h.time += 1 + rng.below(600) as u32;
    let time = h.time;

    let must_spend = matches!(defect, Defect::ProofMissingWatchedTx | Defect::FullBlockProofHidesWatchedSpend);
    let (txs, spent_watched) = gen_txs(h, rng, newh, must_spend, true);

    // header fields
    let mut defect = defect;
    let prev = match defect {
        Defect::BadPrevRandom => BlockHash::from_byte_array(rng.bytes::<32>()),
        Defect::BadPrevGrandparent => match h.tracker.headers().front() {
            Some(g) => g.0.block_hash(),
            None => tip.0.prev_blockhash,
        },
        _ => tip.0.block_hash(),
    };
    let bits = match (defect, level) {
        (Defect::RetargetStep, Some(s)) =>
            if s >= 1 && rng.bool() {
                level_bits(s - 1)
            } else {
                level_bits(s + 1)
            },
        (Defect::RetargetExact4, Some(s)) =>
            if s >= 2 && rng.bool() {
                level_bits(s - 2)
            } else {
                level_bits(s + 2)
            },
        (Defect::RetargetTooHard, Some(s)) => level_bits((s + 3 + rng.below(2) as u32).min(11)),
        (Defect::RetargetTooEasy, Some(s)) => level_bits(s - 3),
        (Defect::BitsOffBoundary, Some(s)) => match rng.below(3) {
            0 if s >= 1 => level_bits(s - 1),
            1 => level_bits(s + 3),
            _ => level_bits(s + 1),
        },
        (Defect::TargetAboveChainMax, _) => above_chain_max_bits(),
        _ => tip.0.bits,
    };
    let pow_ok = defect != Defect::PowAboveTarget;
    let block = make_block(prev, bits, time, pow_ok, txs, rng.next_u64() as u32);
    let hash = block.block_hash();

    let (txid_w, fwd) = h.tracker.get_all_forward_watches();
    let fh = true_fh(&block, &tip.1);
    let att_height = if defect == Defect::ProofWrongHeight {
        if rng.bool() {
            newh + 1
        } else {
            newh - 1
        }
    } else {
        newh
    };
    let att_fh = if defect == Defect::ProofWrongFilterHeader {
        true_fh(&block, &FilterHeader::from_byte_array(rng.bytes::<32>()))
    } else {
        fh
    };

    let mut stream = None;
    let mut streamed = streamed;
    let proof = if defect == Defect::ProofOtherBlock {
        // everything (filter, spv, attestations) is for a sibling of the announced block
        let u = h.next_uniq();
        let other = make_block(prev, bits, time, true, vec![coinbase(newh, u)], rng.next_u64() as u32);
        let ofh = true_fh(&other, &tip.1);
        let atts = att_set(rng, cx.secp, &h.oracles, AttMode::Valid, other.block_hash(), newh, ofh);
        manual_filter_proof(atts, &other, &txid_w, &fwd)
    } else {
        let atts = att_set(rng, cx.secp, &h.oracles, defect.att_mode(), hash, att_height, att_fh);
        if streamed {
            TxoProof { attestations: atts, proof: ProofType::ExternalBlock() }
        } else {
            match defect {
                Defect::FullBlockProof =>
                    TxoProof { attestations: atts, proof: ProofType::Block(block.clone()) },
                Defect::FullBlockProofHidesWatchedSpend => {
                    let mut b = block.clone();
                    b.txdata.truncate(1); // the coinbase only; header (and so the block hash) as announced
                    TxoProof { attestations: atts, proof: ProofType::Block(b) }
                }
                Defect::ProofMissingWatchedTx => manual_filter_proof(atts, &block, &[], &[]),
                Defect::ProofWrongFilterHeader | Defect::ProofWrongHeight =>
                    manual_filter_proof(atts, &block, &txid_w, &fwd),
                _ => {
                    let p = prove_checked(atts, &tip.1, &block, newh, &fwd, &txid_w);
                    if matches!(p.proof, ProofType::Block(_)) {
                        // filter false positive: the protocol streams the block instead
                        streamed = true;
                        TxoProof { attestations: p.attestations, proof: ProofType::ExternalBlock() }
                    } else {
                        p
                    }
                }
            }
        }
    };
    if streamed {
        let (sblock, truncate) = match defect {
            Defect::StreamOtherBlock => {
                let u = h.next_uniq();
                let mut txs = vec![coinbase(newh, u)];
                txs.extend(block.txdata.iter().skip(1).cloned());
                (make_block(prev, bits, time, true, txs, rng.next_u64() as u32), false)
            }
            Defect::StreamTruncated => (block.clone(), true),
            _ => (block.clone(), false),
        };
        let mut bytes = serialize(&sblock);
        if truncate {
            let cut = 1 + rng.usize(bytes.len().saturating_sub(82).max(1)).min(40);
            let newlen = bytes.len() - cut.min(bytes.len() - 81);
            bytes.truncate(newlen);
        }
        let cuts = cuts_for(rng, bytes.len());
        stream = Some(Stream { hash: sblock.block_hash(), bytes, cuts });
    }

    // validity class
    if defect == Defect::RetargetStep && !at_boundary {
        defect = Defect::BitsOffBoundary;
    }
    let validity = match defect {
        Defect::None | Defect::RetargetStep => V::Valid,
        Defect::RetargetExact4 | Defect::FullBlockProof => V::Unjudged,
        d if d.is_proof_clause() && is_zero_fh(&tip.1) => V::Unjudged,
        _ => V::Invalid,
    };
    Req {
        is_add: true,
        defect,
        validity,
        streamed,
        header: block.header,
        prev: tip,
        proof,
        stream,
        block,
        spent_watched,
        at_boundary,
    }
}

fn rm_defects<L: TL>(h: &Hist<L>, streamed: bool) -> Vec<Defect> {
    let n = h.oracles.trusted.len();
    if h.remembered == 0 {
        return vec![Defect::RmBeyondWindow];
    }
    let mut d = vec![
        Defect::RmWrongPrevHeader,
        Defect::RmWrongPrevFilterHeader,
        Defect::ProofWrongHeight,
    ];
    if h.remembered >= 2 {
        d.push(Defect::RmPrevGrandparent);
    }
    if n >= 1 {
        d.push(Defect::AttMinority);
        d.push(Defect::AttUntrustedOnly);
        d.push(Defect::AttForgedSig);
    }
    if n >= 3 {
        d.push(Defect::AttDupTrusted);
    }
    if !streamed {
        d.push(Defect::ProofWrongFilterHeader);
        d.push(Defect::FullBlockProof);
        let prev_zero = h.tracker.headers().front().map(|p| is_zero_fh(&p.1)).unwrap_or(false);
        if !prev_zero {
            d.push(Defect::ProofOtherBlock);
            let tip = h.chain.last().unwrap();
            let rev: BTreeSet<OutPoint> = h.tracker.get_all_reverse_watches().1.into_iter().collect();
            if tip.spent_watched.iter().any(|o| rev.contains(o)) {
                d.push(Defect::ProofMissingWatchedTx);
                d.push(Defect::ProofMissingWatchedTx);
                d.push(Defect::FullBlockProofHidesWatchedSpend);
            }
        }
    }
    d
}

/// Returns None when the reference does not hold the tip's block (start tip without a block)
fn build_remove<L: TL>(
    h: &mut Hist<L>,
    rng: &mut Rng,
    cx: &Ctx,
    defect: Defect,
    streamed: bool,
) -> Option<Req> {
    let n = h.chain.len();
    let tip_entry = h.chain[n - 1].clone();
    let block = tip_entry.block.clone()?;
    let height = h.tracker.height();
    let at_boundary = height % DIFFCHANGE_INTERVAL == 0;
    // the true predecessor as far as the reference knows it
    let true_prev: (BlockHeader, FilterHeader) = if n >= 2 {
        h.chain[n - 2].headers
    } else {
        // nothing known below the start tip: any predecessor is as good as another
        let hd = mine(
            BlockHash::from_byte_array(rng.bytes::<32>()),
            TxMerkleNode::all_zeros(),
            level_bits(0),
            1,
            true,
            0,
        );
        (hd, FilterHeader::from_byte_array(rng.bytes::<32>()))
    };
    let mut defect = defect;
    if h.remembered == 0 {
        defect = Defect::RmBeyondWindow;
    }
    let supplied = match defect {
        Defect::RmWrongPrevHeader => {
            let hd = mine(
                true_prev.0.prev_blockhash,
                TxMerkleNode::from_byte_array(rng.bytes::<32>()),
                true_prev.0.bits,
                true_prev.0.time,
                true,
                rng.next_u64() as u32,
            );
            Headers(hd, true_prev.1)
        }
        Defect::RmPrevGrandparent => {
            let g = h.chain[n - 3].headers;
            Headers(g.0, g.1)
        }
        Defect::RmWrongPrevFilterHeader =>
            Headers(true_prev.0, FilterHeader::from_byte_array(rng.bytes::<32>())),
        _ => Headers(true_prev.0, true_prev.1),
    };
    let (txid_w, rev) = h.tracker.get_all_reverse_watches();
    let hash = block.block_hash();
    let fh = true_fh(&block, &true_prev.1);
    let att_height = if defect == Defect::ProofWrongHeight {
        if rng.bool() {
            height + 1
        } else {
            height.saturating_sub(1)
        }
    } else {
        height
    };
    let att_fh = if defect == Defect::ProofWrongFilterHeader {
        true_fh(&block, &FilterHeader::from_byte_array(rng.bytes::<32>()))
    } else {
        fh
    };
    let mut stream = None;
    let proof = if defect == Defect::ProofOtherBlock {
        let u = h.next_uniq();
        let other = make_block(
            block.header.prev_blockhash,
            block.header.bits,
            block.header.time,
            true,
            vec![coinbase(height, u)],
            rng.next_u64() as u32,
        );
        let ofh = true_fh(&other, &true_prev.1);
        let atts = att_set(rng, cx.secp, &h.oracles, AttMode::Valid, other.block_hash(), height, ofh);
        manual_filter_proof(atts, &other, &txid_w, &rev)
    } else {
        let atts = att_set(rng, cx.secp, &h.oracles, defect.att_mode(), hash, att_height, att_fh);
        if streamed {
            TxoProof { attestations: atts, proof: ProofType::ExternalBlock() }
        } else {
            match defect {
                Defect::FullBlockProof =>
                    TxoProof { attestations: atts, proof: ProofType::Block(block.clone()) },
                Defect::FullBlockProofHidesWatchedSpend => {
                    let mut b = block.clone();
                    b.txdata.truncate(1); // the coinbase only; header (and so the block hash) as announced
                    TxoProof { attestations: atts, proof: ProofType::Block(b) }
                }
                Defect::ProofMissingWatchedTx => manual_filter_proof(atts, &block, &[], &[]),
                Defect::ProofWrongFilterHeader | Defect::ProofWrongHeight =>
                    manual_filter_proof(atts, &block, &txid_w, &rev),
                _ => {
                    let p = prove_checked(atts, &true_prev.1, &block, height, &rev, &txid_w);
                    if matches!(p.proof, ProofType::Block(_)) {
                        return None; // filter false positive; skip
                    }
                    p
                }
            }
        }
    };
    if streamed {
        let bytes = serialize(&block);
        let cuts = cuts_for(rng, bytes.len());
        stream = Some(Stream { hash, bytes, cuts });
    }
    let validity = match defect {
        Defect::RmBeyondWindow => V::Invalid,
        Defect::FullBlockProof => V::Unjudged,
        d if d.is_proof_clause() && is_zero_fh(&true_prev.1) => V::Unjudged,
        Defect::None => V::Valid,
        _ => V::Invalid,
    };
    Some(Req {
        is_add: false,
        defect,
        validity,
        streamed,
        header: block.header,
        prev: supplied,
        proof,
        stream,
        block,
        spent_watched: vec![],
        at_boundary,
    })
}

// ---------------------------------------------------------------------------------------------
// execution and judgement
// ---------------------------------------------------------------------------------------------

enum Outcome {
    Ok,
    Refused(TrackerError),
    Panic(String),
}

fn execute<L: TL>(t: &mut ChainTracker<L>, req: &Req) -> Outcome {
    if let Some(s) = &req.stream {
        let mut off = 0usize;
        let mut bounds = s.cuts.clone();
        bounds.push(s.bytes.len());
        for b in bounds {
            if b <= off {
                continue;
            }
            let chunk = &s.bytes[off..b];
            match report::catch(|| t.block_chunk(s.hash, off as u32, chunk)) {
                Ok(Ok(())) => {}
                Ok(Err(e)) => return Outcome::Refused(e),
                Err(p) => return Outcome::Panic(format!("block_chunk: {}", p)),
            }
            off = b;
        }
    }
    if req.is_add {
        match report::catch(|| t.add_block(req.header, req.proof.clone())) {
            Ok(Ok(())) => Outcome::Ok,
            Ok(Err(e)) => Outcome::Refused(e),
            Err(p) => Outcome::Panic(format!("add_block: {}", p)),
        }
    } else {
        match report::catch(|| t.remove_block(req.proof.clone(), req.prev.clone())) {
            Ok(Ok(_)) => Outcome::Ok,
            Ok(Err(e)) => Outcome::Refused(e),
            Err(p) => Outcome::Panic(format!("remove_block: {}", p)),
        }
    }
}

fn err_tag(e: &TrackerError) -> &'static str {
    match e {
        TrackerError::InvalidChain => "InvalidChain",
        TrackerError::OrphanBlock(_) => "OrphanBlock",
        TrackerError::InvalidBlock => "InvalidBlock",
        TrackerError::BlockDecodeError => "BlockDecodeError",
        TrackerError::ReorgTooDeep => "ReorgTooDeep",
        TrackerError::InvalidProof => "InvalidProof",
    }
}

fn req_detail(req: &Req) -> Value {
    let mut v = json!({
        "request": req.label(),
        "validity_class": format!("{:?}", req.validity),
        "block_header_hex": hex::encode(serialize(&req.header)),
        "block_hash": req.header.block_hash().to_string(),
        "block_hex": hex::encode(serialize(&req.block)),
        "proof_hex": hex::encode(serialize(&req.proof)),
        "attesting_keys": req.proof.attestations.iter().map(|(k, _)| k.to_string()).collect::<Vec<_>>(),
    });
    if !req.is_add {
        v["supplied_prev_header_hex"] = json!(hex::encode(serialize(&req.prev.0)));
        v["supplied_prev_filter_header"] = json!(req.prev.1.to_string());
    }
    if let Some(s) = &req.stream {
        v["streamed_block_hash"] = json!(s.hash.to_string());
        v["streamed_bytes"] = json!(s.bytes.len());
        v["chunk_cuts"] = json!(s.cuts);
    }
    v
}

fn base_detail<L: TL>(h: &Hist<L>, cx: &Ctx, op: u64) -> Value {
    json!({
        "seed": cx.seed, "shard": cx.shard, "history": cx.hist, "op_index": op,
        "listener_kind": L::NAME,
        "start": h.start_desc,
        "trusted_oracles": h.oracles.trusted.iter().map(|k| pk(k).to_string()).collect::<Vec<_>>(),
        "ops_before_[op,request,outcome,height_after]": h.log_tail(25),
    })
}

fn merge(mut a: Value, b: Value) -> Value {
    if let (Some(x), Some(y)) = (a.as_object_mut(), b.as_object()) {
        for (k, v) in y {
            x.insert(k.clone(), v.clone());
        }
    }
    a
}

fn window_class(rem: usize) -> &'static str {
    if rem == 0 {
        "w0"
    } else if rem == 1 {
        "w1"
    } else if rem >= MAX_REORG {
        "wfull"
    } else if rem + 2 >= MAX_REORG {
        "wnearfull"
    } else {
        "wmid"
    }
}

/// Run one request, judge it.  `demanded`: it is a by-construction-correct request issued right
/// after a refusal (must succeed).
fn step<L: TL>(h: &mut Hist<L>, r: &mut Report, cx: &Ctx, op: u64, req: Req, demanded: bool) -> bool {
    let label = req.label();
    let kind = if req.is_add { "add" } else { "remove" };
    let before = snap(&h.tracker);
    let before_headers: VecDeque<Headers> = h.tracker.headers.clone();
    let zero = is_zero_fh(&if req.is_add {
        before.tip.1
    } else {
        before.headers.first().map(|x| x.1).unwrap_or(before.tip.1)
    });
    let out = execute(&mut h.tracker, &req);
    r.eval(1);
    h.just_refused = matches!(out, Outcome::Refused(_));
    let tag = match &out {
        Outcome::Ok => "Ok".to_string(),
        Outcome::Refused(e) => format!("Err({})", err_tag(e)),
        Outcome::Panic(_) => "panic".to_string(),
    };
    r.distinct_str(&format!(
        "{}|{}|n{}|{}|{}|{}|z{}|{}|d{}",
        L::NAME,
        h.start_desc["kind"].as_str().unwrap_or(""),
        h.oracles.trusted.len(),
        label,
        if req.at_boundary { "boundary" } else { "off" },
        window_class(h.remembered),
        zero,
        tag,
        demanded
    ));
    h.push_log(json!([op, label, tag, h.tracker.height()]));
    r.set_add("outcomes_by_request", &format!("{} -> {}", label, tag));

    match out {
        Outcome::Ok => {
            r.count(&format!("{}.accepted", label));
            r.count(&format!("{}.accepted.total", kind));
            match req.validity {
                V::Valid => r.count("rule.ok_implies_valid.checked_valid"),
                V::Unjudged => {
                    r.count("rule.ok_implies_valid.unjudged");
                    if zero && req.defect.is_proof_clause() {
                        r.count("waived.proof_clause_defect_accepted_on_zero_filter_header_tip");
                    }
                }
                V::Invalid => {
                    r.violation(
                        &format!("tracker:accepted-invalid:{}", label),
                        merge(
                            merge(base_detail(h, cx, op), req_detail(&req)),
                            json!({"observed": "Ok", "tip_filter_header_zero": zero,
                                   "height_before": before.height, "remembered_before": before.headers.len(),
                                   "reference_remembered": h.remembered}),
                        ),
                    );
                    h.dead = true;
                    return false;
                }
            }
            if zero {
                r.count("ok.on_zero_filter_header_tip");
            }
            if req.at_boundary {
                r.count(&format!("{}.accepted.at_retarget_boundary", kind));
            }
            if req.streamed {
                r.count(&format!("{}.accepted.streamed", kind));
                h.open_stream_refusal = None;
            }
            // reference successor
            if req.is_add {
                let fh = req.proof.attestations[0].1.attestation.filter_header;
                h.chain.push(Entry {
                    block: Some(req.block.clone()),
                    headers: (req.header, fh),
                    height: before.height + 1,
                    spent_watched: req.spent_watched.clone(),
                });
                h.remembered = (h.remembered + 1).min(MAX_REORG);
                if h.remembered == MAX_REORG {
                    r.count("window.full_observed");
                    if h.chain.len() > MAX_REORG + 1 {
                        h.was_full = true; // at least one header fell out of the window
                    }
                }
            } else {
                h.chain.pop();
                h.remembered -= 1;
                if h.remembered == 0 {
                    r.count("window.emptied_by_removals");
                }
            }
            let after = snap(&h.tracker);
            let exp_tip = h.chain.last().unwrap();
            let exp_headers = h.expected_headers();
            r.count(&format!("rule.ok_successor.checked.{}", kind));
            if after.tip != exp_tip.headers || after.height != exp_tip.height || after.headers != exp_headers {
                r.violation(
                    &format!("tracker:{}-block-ok-wrong-successor-state", kind),
                    merge(
                        merge(base_detail(h, cx, op), req_detail(&req)),
                        json!({"expected_tip": hdr_hex(&exp_tip.headers), "observed_tip": hdr_hex(&after.tip),
                               "expected_height": exp_tip.height, "observed_height": after.height,
                               "expected_remembered": exp_headers.len(), "observed_remembered": after.headers.len(),
                               "first_remembered_expected": exp_headers.first().map(hdr_hex),
                               "first_remembered_observed": after.headers.first().map(hdr_hex)}),
                    ),
                );
                h.dead = true;
                return false;
            }
            if h.last_refusal.is_some() && req.validity == V::Valid {
                r.count("rule.later_correct_request.succeeded");
                if demanded {
                    r.count(&format!("rule.later_correct_request.succeeded.immediately.{}", kind));
                }
            }
            true
        }
        Outcome::Refused(e) => {
            r.count(&format!("{}.refused", label));
            r.count(&format!("{}.refused.total", kind));
            if req.defect == Defect::RmBeyondWindow && h.chain.len() > 1 {
                // the reference knows the true predecessor (the window was unwound or truncated)
                r.count("remove.beyond-header-window.refused.true_predecessor_supplied");
                if h.was_full {
                    r.count("remove.beyond-header-window.refused.after_unwinding_the_full_window");
                }
            }
            r.set_add("errors_seen", err_tag(&e));
            let after = snap(&h.tracker);
            r.count(&format!("rule.refusal_atomic.checked.{}", kind));
            if !req.is_add && !before.headers.is_empty() {
                r.count("rule.refusal_atomic.checked.remove_with_remembered_headers");
            }
            if req.streamed {
                r.count(&format!("rule.refusal_atomic.checked.streamed.{}", kind));
            }
            let mut alive = true;
            if after != before {
                let mut fields = diff_fields(&before, &after);
                let lost_front = !req.is_add
                    && fields.contains(&"headers".to_string())
                    && before.headers.len() == after.headers.len() + 1
                    && before.headers[1..] == after.headers[..];
                if lost_front {
                    // witness of the consequence: on a copy of the post-refusal tracker (without
                    // listeners) the correct removal for the unchanged tip is refused
                    let consequence = if req.validity != V::Valid {
                        let mut copy: ChainTracker<L> = ChainTracker::restore(
                            h.tracker.headers.clone(),
                            h.tracker.tip.clone(),
                            h.tracker.height,
                            h.tracker.network,
                            Default::default(),
                            h.node_id,
                            h.factory.clone(),
                            h.tracker.trusted_oracle_pubkeys.clone(),
                        );
                        let mut wr = Rng::new(cx.seed ^ op.wrapping_mul(0x9E37) ^ 0xE4);
                        // rebuild the correct request against the reference (pre-refusal) state
                        let saved = std::mem::replace(&mut h.tracker.headers, before_headers.clone());
                        let good = build_remove(h, &mut wr, cx, Defect::None, false);
                        h.tracker.headers = saved;
                        match good {
                            Some(g) => match execute(&mut copy, &g) {
                                Outcome::Ok => json!("Ok"),
                                Outcome::Refused(e2) => json!(format!("Err({:?})", e2)),
                                Outcome::Panic(p) => json!(format!("panic: {}", p)),
                            },
                            None => json!("not built"),
                        }
                    } else {
                        json!("n/a")
                    };
                    r.violation(
                        "tracker:refused-remove-block-loses-header",
                        merge(
                            merge(base_detail(h, cx, op), req_detail(&req)),
                            json!({"observed": format!("Err({:?})", e),
                                   "remembered_headers_before": before.headers.len(),
                                   "remembered_headers_after": after.headers.len(),
                                   "lost_header": hdr_hex(&before.headers[0]),
                                   "tip_unchanged": before.tip == after.tip,
                                   "height_unchanged": before.height == after.height,
                                   "correct_removal_for_same_tip_afterwards": consequence}),
                        ),
                    );
                    // repair the tracker so that the rest of the history still exercises the others
                    h.tracker.headers = before_headers;
                    r.count("harness.repaired_lost_header");
                    fields.retain(|f| f != "headers");
                }
                if !fields.is_empty() {
                    let only_monitor = fields.iter().all(|f| f.starts_with("listeners.monitor_state"));
                    // signature = which parts of the state moved (not which individual keys)
                    let sig = if only_monitor && req.streamed && fields.len() <= 2 {
                        format!(
                            "tracker:refused-streamed-block-changed-monitor-state:{}",
                            fields.iter().map(|f| f.trim_start_matches("listeners.monitor_state.")).collect::<Vec<_>>().join("+")
                        )
                    } else {
                        let mut parts: Vec<&str> = fields
                            .iter()
                            .map(|f| {
                                if f.starts_with("listeners.monitor_state") {
                                    "monitor_state"
                                } else if f.starts_with("listeners.") {
                                    "watches"
                                } else {
                                    f.as_str()
                                }
                            })
                            .collect();
                        parts.sort();
                        parts.dedup();
                        format!(
                            "tracker:refused-{}-block-changed-state:{}",
                            if req.streamed { format!("streamed-{}", kind) } else { kind.to_string() },
                            parts.join("+")
                        )
                    };
                    let lj = |s: &Snap| {
                        s.listeners
                            .iter()
                            .map(|l| {
                                json!({"key": l.key.to_string(),
                                       "watches": l.watches.iter().map(|o| o.to_string()).collect::<Vec<_>>(),
                                       "seen": l.seen.iter().map(|o| o.to_string()).collect::<Vec<_>>(),
                                       "state": l.internal})
                            })
                            .collect::<Vec<_>>()
                    };
                    r.violation(
                        &sig,
                        merge(
                            merge(base_detail(h, cx, op), req_detail(&req)),
                            json!({"observed": format!("Err({:?})", e), "changed_fields": fields,
                                   "before": {"tip": hdr_hex(&before.tip), "height": before.height, "remembered": before.headers.len(), "listeners": lj(&before)},
                                   "after": {"tip": hdr_hex(&after.tip), "height": after.height, "remembered": after.headers.len(), "listeners": lj(&after)}}),
                        ),
                    );
                    if only_monitor {
                        // the reference does not depend on the monitors' state: keep going
                        r.count("harness.continued_after_monitor_state_change");
                    } else {
                        r.count("histories.ended_early.state_changed_by_refusal");
                        h.dead = true;
                        alive = false;
                    }
                }
            } else {
                r.count("rule.refusal_atomic.held");
            }
            if req.validity == V::Valid {
                if let (true, Some(prev_ref)) = (demanded, h.last_refusal.clone()) {
                    r.violation(
                        &format!(
                            "tracker:correct-{}-refused-after-refused-{}",
                            if req.streamed { format!("streamed-{}", kind) } else { kind.to_string() },
                            prev_ref.split('.').next().unwrap_or("request")
                        ),
                        merge(
                            merge(base_detail(h, cx, op), req_detail(&req)),
                            json!({"observed": format!("Err({:?})", e), "earlier_refused_request": prev_ref,
                                   "issued_right_after_the_refusal": demanded}),
                        ),
                    );
                    h.dead = true;
                    alive = false;
                } else {
                    // not the request issued right after a refusal: the generator (or a liveness
                    // problem that the property does not speak about) — not a violation
                    r.count("harness.valid_request_refused_unexpectedly");
                    r.note(&format!("valid {} refused with {:?} (not directly after a refusal)", label, e));
                    r.sample(merge(base_detail(h, cx, op), req_detail(&req)));
                }
            }
            if req.streamed {
                h.open_stream_refusal = Some(label.clone());
            }
            h.last_refusal = Some(label);
            alive
        }
        Outcome::Panic(p) => {
            r.count(&format!("{}.panicked", label));
            // which refusal is this the "later correct request" of?
            let blame = if req.validity != V::Valid {
                None
            } else if let Some(s) = h.open_stream_refusal.clone() {
                Some(s)
            } else if demanded {
                h.last_refusal.clone()
            } else {
                None
            };
            match blame {
                Some(prev_ref) => {
                    let prev_kind = prev_ref.split('.').next().unwrap_or("request").to_string();
                    let prev_streamed = prev_ref.ends_with(".streamed");
                    let sig = if prev_streamed && prev_kind == "remove" {
                        "tracker:next-request-panics-after-refused-streamed-remove".to_string()
                    } else if prev_streamed && req.streamed {
                        "tracker:next-streamed-block-panics-after-refused-streamed-add".to_string()
                    } else {
                        format!(
                            "tracker:correct-{}-panics-after-refused-{}{}",
                            if req.streamed { format!("streamed-{}", kind) } else { kind.to_string() },
                            if prev_streamed { "streamed-" } else { "" },
                            prev_kind
                        )
                    };
                    r.violation(
                        &sig,
                        merge(
                            merge(base_detail(h, cx, op), req_detail(&req)),
                            json!({"observed": format!("panic: {}", p), "earlier_refused_request": prev_ref,
                                   "issued_right_after_the_refusal": demanded}),
                        ),
                    );
                }
                None if req.defect == Defect::StreamTruncated && p.contains("merkle") => {
                    // bitcoin-push-decoder's finish() asserts the merkle root before it checks
                    // completeness: an incomplete stream is answered by a panic, not by
                    // BlockDecodeError.  Not a rejection; the restart below restores the state.
                    r.count("observed.truncated_stream_panics_in_block_decoder");
                }
                None if req.streamed && h.open_stream_refusal.is_some() => {
                    // a defective streamed request hit the same leftover as a correct one would
                    r.count("observed.defective_streamed_request_panics_after_refused_streamed_request");
                }
                None => {
                    r.count("harness.unexpected_panic");
                    r.note(&format!("{} panicked: {}", label, p));
                }
            }
            // what the real signer does after a panic: restart from the persisted state (the
            // state before this request; nothing is persisted for a request that did not succeed)
            restart(h, &before);
            r.count("harness.restarted_after_panic");
            if snap(&h.tracker) != before {
                r.count("histories.ended_early.state_differs_after_panic_and_restart");
                h.dead = true;
                return false;
            }
            true
        }
    }
}

// ---------------------------------------------------------------------------------------------
// one history
// ---------------------------------------------------------------------------------------------

#[derive(Clone, Copy, PartialEq, Eq, Debug)]
enum Shape {
    Random,
    /// fill the header window, then unwind it completely and knock below it
    Window,
    /// start just below a retarget boundary and oscillate across it
    Boundary,
}

fn run_history<L: TL>(rng: &mut Rng, r: &mut Report, cx: &Ctx, shape: Shape, ops: u64, allow_stream: bool) {
    let secp = cx.secp;
    // --- oracles
    let n_trusted = rng.weighted(&[2, 3, 3, 3]);
    let oracles = Oracles {
        trusted: (0..n_trusted).map(|_| gen_keypair(rng, secp)).collect(),
        untrusted: (0..2).map(|_| gen_keypair(rng, secp)).collect(),
    };
    // --- start position
    let genesis_start = shape == Shape::Random && rng.chance(1, 4);
    let (start_block, start_height, start_fh, kind) = if genesis_start {
        (genesis_block(Network::Regtest), 0u32, FilterHeader::all_zeros(), "genesis")
    } else {
        let k = *rng.pick(&[1u32, 1, 2, 3, 100]);
        let height = match shape {
            Shape::Boundary => k * DIFFCHANGE_INTERVAL - 1 - rng.below(4) as u32,
            Shape::Window => rng.range(1, 1_000_000) as u32,
            Shape::Random => match rng.below(3) {
                0 => k * DIFFCHANGE_INTERVAL - 1 - rng.below(12) as u32,
                1 => k * DIFFCHANGE_INTERVAL + rng.below(5) as u32,
                _ => rng.range(1, 3_000_000) as u32,
            },
        };
        let level = if shape == Shape::Window { rng.below(2) as u32 } else { rng.weighted(&[3, 2, 2, 2, 1]) as u32 };
        let zero = rng.chance(1, 6);
        let fh = if zero { FilterHeader::all_zeros() } else { FilterHeader::from_byte_array(rng.bytes::<32>()) };
        let b = make_block(
            BlockHash::from_byte_array(rng.bytes::<32>()),
            level_bits(level),
            1_600_000_000,
            true,
            vec![coinbase(height, rng.next_u64())],
            rng.next_u64() as u32,
        );
        (b, height, fh, if zero { "checkpoint-zero-filter-header" } else { "checkpoint" })
    };
    let node_id = pk(&gen_keypair(rng, secp));
    let factory: Arc<dyn ValidatorFactory> = Arc::new(SimpleValidatorFactory::new());
    let trusted_pks: Vec<PublicKey> = oracles.trusted.iter().map(pk).collect();
    let tracker = match ChainTracker::<L>::new(
        Network::Regtest,
        start_height,
        Headers(start_block.header, start_fh),
        node_id,
        factory.clone(),
        trusted_pks,
    ) {
        Ok(t) => t,
        Err(e) => {
            r.inconclusive(&format!("could not construct the start tracker: {:?}", e));
            return;
        }
    };
    let start_desc = json!({"kind": kind, "height": start_height, "tip_header_hex": hex::encode(serialize(&start_block.header)),
                            "tip_filter_header": start_fh.to_string(), "bits": format!("{:#x}", start_block.header.bits.to_consensus()),
                            "n_trusted_oracles": n_trusted, "shape": format!("{:?}", shape)});
    let mut h = Hist {
        tracker,
        chain: vec![Entry {
            block: Some(start_block.clone()),
            headers: (start_block.header, start_fh),
            height: start_height,
            spent_watched: vec![],
        }],
        remembered: 0,
        oracles,
        special: BTreeMap::new(),
        uniq: rng.next_u64() >> 16,
        time: 1_600_000_000,
        last_refusal: None,
        open_stream_refusal: None,
        was_full: false,
        just_refused: false,
        log: vec![],
        start_desc,
        node_id,
        factory,
        dead: false,
        sampled: false,
    };
    let n_listeners = rng.weighted(&[1, 3, 3, 2]) as u32;
    for i in 0..n_listeners {
        L::install(&mut h.tracker, rng, i, &mut h.special);
    }
    r.count(&format!("histories.{}.{:?}", L::NAME, shape));
    r.count(&format!("histories.trusted_oracles.{}", n_trusted));

    let mut phase_fill = shape == Shape::Window;
    let mut phase_unwind = false;
    let mut knocks = 0u32;
    let boundary_h = ((start_height / DIFFCHANGE_INTERVAL) + 1) * DIFFCHANGE_INTERVAL;
    let mut op = 0u64;
    let budget = if shape == Shape::Window { ops.max(3 * MAX_REORG as u64 + 200) } else { ops };
    while op < budget && !h.dead {
        op += 1;
        // late listener registration (watches change between requests)
        if rng.chance(1, 60) && h.tracker.listeners.len() < 4 {
            let i = 10 + h.tracker.listeners.len() as u32;
            L::install(&mut h.tracker, rng, i, &mut h.special);
        }
        let height = h.tracker.height();
        // --- choose add / remove
        let p_remove_pct: u64 = if phase_fill {
            if h.remembered >= MAX_REORG + 0 && h.chain.len() > MAX_REORG + 4 {
                phase_fill = false;
                phase_unwind = true;
            }
            4
        } else if phase_unwind {
            if h.remembered == 0 {
                knocks += 1;
                if knocks > 3 {
                    phase_unwind = false;
                }
            }
            96
        } else if shape == Shape::Boundary {
            if height >= boundary_h + 1 {
                70
            } else if height == boundary_h {
                50
            } else if height + 3 < boundary_h {
                15
            } else {
                40
            }
        } else if h.remembered == 0 {
            12
        } else if h.remembered < 4 {
            35
        } else {
            48
        };
        let is_add = !rng.chance(p_remove_pct, 100);
        let defect_pct: u64 = if phase_fill || (phase_unwind && h.remembered > 0) { 12 } else { 45 };
        let want_defect = rng.chance(defect_pct, 100);
        let streamed = allow_stream && (is_add || L::STREAM_REMOVE) && rng.chance(if is_add { 22 } else { 14 }, 100);

        let req = if is_add {
            let at_boundary = (height + 1) % DIFFCHANGE_INTERVAL == 0;
            let defect = if want_defect {
                let mut cands = add_defects(&h, streamed, at_boundary);
                if at_boundary && rng.chance(1, 2) {
                    cands.retain(|d| {
                        matches!(d, Defect::RetargetTooHard | Defect::RetargetTooEasy | Defect::TargetAboveChainMax)
                    });
                }
                *rng.pick(&cands)
            } else if at_boundary && bits_level(h.tracker.tip().0.bits).is_some() {
                match rng.below(5) {
                    0 | 1 => Defect::None,
                    2 | 3 => Defect::RetargetStep,
                    _ => Defect::RetargetExact4,
                }
            } else {
                Defect::None
            };
            Some(build_add(&mut h, rng, cx, defect, streamed))
        } else {
            let defect = if want_defect || h.remembered == 0 {
                let cands = rm_defects(&h, streamed);
                *rng.pick(&cands)
            } else {
                Defect::None
            };
            build_remove(&mut h, rng, cx, defect, streamed)
        };
        let req = match req {
            Some(q) => q,
            None => {
                r.count("harness.request_not_built");
                continue;
            }
        };
        let was_add = req.is_add;
        let was_streamed = req.streamed;
        let alive = step(&mut h, r, cx, op, req, false);
        if !alive {
            break;
        }
        // --- the clause "a later correct request still succeeds": issue it right after a refusal
        if h.just_refused {
            op += 1;
            let do_remove = h.remembered > 0 && (rng.chance(if was_add { 30 } else { 70 }, 100) || phase_unwind);
            let follow_streamed = allow_stream && !do_remove && rng.chance(if was_streamed { 60 } else { 15 }, 100);
            let follow = if do_remove {
                let rs = allow_stream && L::STREAM_REMOVE && rng.chance(if was_streamed { 60 } else { 15 }, 100);
                build_remove(&mut h, rng, cx, Defect::None, rs)
            } else {
                let at_boundary = (h.tracker.height() + 1) % DIFFCHANGE_INTERVAL == 0;
                let d = if at_boundary && rng.bool() && bits_level(h.tracker.tip().0.bits).is_some() {
                    Defect::RetargetStep
                } else {
                    Defect::None
                };
                Some(build_add(&mut h, rng, cx, d, follow_streamed))
            };
            match follow {
                Some(f) => {
                    r.count(&format!(
                        "rule.later_correct_request.issued.{}_after_refused_{}",
                        if f.is_add { "add" } else { "remove" },
                        if was_add { "add" } else { "remove" }
                    ));
                    if was_streamed && f.streamed {
                        r.count("rule.later_correct_request.issued.streamed_after_refused_streamed");
                    }
                    if !step(&mut h, r, cx, op, f, true) {
                        break;
                    }
                }
                None => r.count("harness.request_not_built"),
            }
        }
        if !h.sampled && op >= 14 {
            h.sampled = true;
            r.sample(json!({"listener_kind": L::NAME, "start": h.start_desc,
                            "first_ops_[op,request,outcome,height_after]": h.log.iter().take(16).collect::<Vec<_>>(),
                            "listeners": h.tracker.listeners.len()}));
        }
    }
    r.count("histories.total");
    if h.dead {
        r.count("histories.ended_early");
    }
    node_level_probe(rng, r, cx);
}

// ---------------------------------------------------------------------------------------------
// node level: the tracker as the signer itself keeps, persists and restores it
// ---------------------------------------------------------------------------------------------

/// The histories above restart a bare tracker; a signer restart goes through the node's store and
/// `Node::restore_node`.  This probe runs a real node (in-memory or cloud-staged store) configured with 1-3
/// trusted oracle keys: valid blocks, restart, then a block attested only by an untrusted key / a minority /
/// forged signatures must still be refused, the oracle set must be what was configured, and a valid block must
/// still be accepted.
fn node_level_probe(rng: &mut Rng, r: &mut Report, cx: &Ctx) {
    use lightning_signer::persist::Persist;
    use vls_verif::world::{World, WorldCfg};
    let secp = cx.secp;
    let n = 1 + rng.usize(3);
    let oracles = Oracles {
        trusted: (0..n).map(|_| gen_keypair(rng, secp)).collect(),
        untrusted: (0..2).map(|_| gen_keypair(rng, secp)).collect(),
    };
    let mut cfg = WorldCfg::regtest(rng.bytes::<32>());
    cfg.oracles = oracles.trusted.iter().map(pk).collect();
    cfg.cloud = rng.chance(1, 3);
    let configured = cfg.oracles.clone();
    let mut w = match report::catch(|| World::new(cfg)) {
        Ok(w) => w,
        Err(p) => {
            r.inconclusive(&format!("node-level probe: could not create a node: {}", p));
            return;
        }
    };
    let mut log: Vec<Value> = vec![];
    let mut uniq = rng.next_u64() >> 16;
    // blocks connected by this probe, with the filter header of their predecessor
    let mut chain: Vec<(Block, FilterHeader)> = vec![];
    // the next block on the current tip, with its proof under the given attestation mode
    let mut next_block = |w: &World, rng: &mut Rng, mode: AttMode| -> (Block, FilterHeader, TxoProof) {
        uniq += 1;
        let tracker = w.node.get_tracker();
        let tip = tracker.tip().clone();
        let newh = tracker.height() + 1;
        let block = make_block(tip.0.block_hash(), tip.0.bits, tip.0.time + 600, true, vec![coinbase(newh, uniq)], rng.next_u64() as u32);
        let fh = true_fh(&block, &tip.1);
        let atts = att_set(rng, secp, &oracles, mode, block.block_hash(), newh, fh);
        let (txid_w, fwd) = tracker.get_all_forward_watches();
        let proof = manual_filter_proof(atts, &block, &txid_w, &fwd);
        (block, tip.1, proof)
    };
    let add_direct = |w: &World, block: &Block, proof: TxoProof| -> Result<Result<(), String>, String> {
        report::catch(|| {
            w.request(|node| {
                let mut tracker = node.get_tracker();
                tracker.add_block(block.header, proof).map_err(|e| format!("{:?}", e))?;
                node.get_persister().update_tracker(&node.get_id(), &tracker).map_err(|e| format!("persist: {:?}", e))
            })
            .0
        })
    };
    let tracker_view = |w: &World| -> (String, u32, Vec<String>) {
        let t = w.node.get_tracker();
        (t.tip().0.block_hash().to_string(), t.height(), t.headers().iter().map(|h| format!("{}/{}", h.0.block_hash(), h.1)).collect())
    };
    let detail = |log: &Vec<Value>, what: Value| json!({"seed": cx.seed, "shard": cx.shard, "history": cx.hist, "n_trusted_oracles": n, "node_level_log": log, "what": what});
    let bad_modes = |n: usize| -> Vec<AttMode> {
        let mut v = vec![AttMode::UntrustedOnly, AttMode::Minority, AttMode::ForgedSig];
        if n >= 3 {
            v.push(AttMode::DupTrusted);
        }
        v
    };
    let rounds = 1 + rng.usize(2);
    for round in 0..=rounds {
        // valid blocks first (the very first block on the filter-header-less genesis tip is not proof-checked)
        for _ in 0..1 + rng.usize(3) {
            let (block, prev_fh, proof) = next_block(&w, rng, AttMode::Valid);
            let res = add_direct(&w, &block, proof);
            log.push(json!(["add valid", format!("{:?}", res)]));
            r.count("node_level.valid_blocks");
            if !matches!(res, Ok(Ok(()))) {
                r.violation(if round == 0 { "tracker:node-level:valid-block-refused" } else { "tracker:node-level:valid-block-refused-after-restart" }, detail(&log, json!({"result": format!("{:?}", res)})));
                return;
            }
            chain.push((block, prev_fh));
        }
        let tip_fh_zero = is_zero_fh(&w.node.get_tracker().tip().1);
        if !tip_fh_zero {
            let mode = *rng.pick(&bad_modes(n));
            let before = w.node.get_tracker().tip().0.block_hash();
            let (block, _, proof) = next_block(&w, rng, mode);
            let res = add_direct(&w, &block, proof);
            log.push(json!([format!("add {:?}", mode), format!("{:?}", res)]));
            r.count(if round == 0 { "node_level.defective_blocks_before_restart" } else { "node_level.defective_blocks_after_restart" });
            r.distinct_hash(vls_verif::rng::fnv_str(&format!("node-level:{}:{:?}:{}:{}", n, mode, round.min(1), w.store.is_cloud())));
            let after = w.node.get_tracker().tip().0.block_hash();
            if matches!(res, Ok(Ok(()))) || before != after {
                let sig = if round == 0 { "tracker:node-level:accepted-block-without-trusted-majority" } else { "tracker:node-level:accepted-block-without-trusted-majority-after-restart" };
                r.violation(sig, detail(&log, json!({"attestations": format!("{:?}", mode), "tip_moved": before != after})));
                return;
            }
        }
        // a valid block through the protocol handler while the store is unavailable for one write: the
        // daemon may die (and restart from the store) or refuse; a refusal must leave the tip where it was
        if !w.store.is_cloud() && rng.chance(1, 2) {
            let before = tracker_view(&w);
            let (block, prev_fh, proof) = next_block(&w, rng, AttMode::Valid);
            let node = w.node.clone();
            let handler = report::catch(|| {
                use vls_protocol::model::Bip32KeyVersion;
                use vls_protocol::msgs::{self, Message};
                use vls_protocol_signer::approver::PositiveApprover;
                use vls_protocol_signer::handler::{Handler, InitHandler, RootHandler};
                let mut init = InitHandler::new(0, node.clone(), Arc::new(PositiveApprover()), 6);
                init.handle(Message::HsmdInit(msgs::HsmdInit {
                    key_version: Bip32KeyVersion { pubkey_version: 0x043587CF, privkey_version: 0x04358394 },
                    chain_params: BlockHash::all_zeros(),
                    encryption_key: None,
                    dev_privkey: None,
                    dev_bip32_seed: None,
                    dev_channel_secrets: None,
                    dev_channel_secrets_shaseed: None,
                    hsm_wire_min_version: 2,
                    hsm_wire_max_version: 6,
                }))
                .map_err(|e| format!("{:?}", e))?;
                let root: RootHandler = init.into();
                Ok::<_, String>(root)
            });
            if let Ok(Ok(root)) = handler {
                use vls_protocol::msgs::{self, Message};
                use vls_protocol::serde_bolt::Octets;
                use vls_protocol_signer::handler::Handler;
                let msg = Message::AddBlock(msgs::AddBlock { header: Octets(serialize(&block.header)), unspent_proof: Some(msgs::DebugTxoProof(proof)) });
                w.store.arm_faults(0, 1);
                let res = report::catch(|| root.handle(msg).map(|reply| reply.as_any().downcast_ref::<msgs::AddBlockReply>().is_some()).map_err(|e| format!("{:?}", e)));
                let fired = w.store.disarm_faults();
                r.count("node_level.handler_add_block_with_storage_failure");
                log.push(json!(["AddBlock via handler, store unavailable for one write", format!("{:?}", res).chars().take(120).collect::<String>(), fired]));
                match res {
                    Err(_) => {
                        // the daemon died: it comes back from the store, which the failed write did not change
                        r.count("node_level.storage_failure.daemon_died");
                        drop(root);
                        match report::catch(|| w.restart()) {
                            Ok(Ok(())) => {}
                            other => {
                                r.violation("tracker:node-level:restart-failed", detail(&log, json!({"result": format!("{:?}", other)})));
                                return;
                            }
                        }
                        let after = tracker_view(&w);
                        if after != before {
                            r.violation("tracker:node-level:tracker-differs-after-failed-write-and-restart", detail(&log, json!({"before": before, "after": after})));
                            return;
                        }
                    }
                    Ok(Ok(true)) => {
                        r.count("node_level.storage_failure.block_accepted");
                        chain.push((block, prev_fh));
                    }
                    Ok(Ok(false)) | Ok(Err(_)) => {
                        r.count("node_level.storage_failure.block_refused");
                        let after = tracker_view(&w);
                        if after != before {
                            r.violation("tracker:node-level:refused-block-changed-the-tracker:after-storage-failure", detail(&log, json!({"before": before, "after": after})));
                            return;
                        }
                    }
                }
            }
        }
        if round == rounds {
            break;
        }
        let before_restart = tracker_view(&w);
        match report::catch(|| w.restart()) {
            Ok(Ok(())) => {}
            other => {
                r.violation("tracker:node-level:restart-failed", detail(&log, json!({"result": format!("{:?}", other)})));
                return;
            }
        }
        log.push(json!(["restart"]));
        r.count("node_level.restarts");
        let have = w.node.get_tracker().trusted_oracle_pubkeys.clone();
        if have != configured {
            r.violation("tracker:node-level:trusted-oracle-set-changed-by-restart", detail(&log, json!({"configured": configured.iter().map(|k| k.to_string()).collect::<Vec<_>>(), "after_restart": have.iter().map(|k| k.to_string()).collect::<Vec<_>>() })));
            return;
        }
        let after_restart = tracker_view(&w);
        if after_restart != before_restart {
            let what = if after_restart.0 != before_restart.0 { "tip" } else if after_restart.1 != before_restart.1 { "height" } else { "remembered-headers" };
            r.violation(&format!("tracker:node-level:restart-changed-the-tracker:{}", what), detail(&log, json!({"before": before_restart, "after": after_restart})));
            return;
        }
        // after the restart a correct removal of the tip (right previous headers, valid proof) is accepted,
        // and the block can be connected again
        if chain.len() >= 2 && rng.chance(2, 3) {
            let (tip_block, tip_prev_fh) = chain[chain.len() - 1].clone();
            let (prev_block, prev_prev_fh) = chain[chain.len() - 2].clone();
            let tracker = w.node.get_tracker();
            if tracker.tip().0.block_hash() == tip_block.block_hash() {
                let height = tracker.height();
                let fh = true_fh(&tip_block, &tip_prev_fh);
                let prev_fh_of_tip = true_fh(&prev_block, &prev_prev_fh);
                let (txid_w, rev) = tracker.get_all_reverse_watches();
                drop(tracker);
                let atts = att_set(rng, secp, &oracles, AttMode::Valid, tip_block.block_hash(), height, fh);
                let proof = manual_filter_proof(atts, &tip_block, &txid_w, &rev);
                let res = report::catch(|| {
                    w.request(|node| {
                        let mut tracker = node.get_tracker();
                        tracker.remove_block(proof, Headers(prev_block.header, prev_fh_of_tip)).map_err(|e| format!("{:?}", e))?;
                        node.get_persister().update_tracker(&node.get_id(), &tracker).map_err(|e| format!("persist: {:?}", e))
                    })
                    .0
                });
                log.push(json!(["remove tip after restart", format!("{:?}", res)]));
                r.count("node_level.removals_after_restart");
                if !matches!(res, Ok(Ok(()))) {
                    r.violation("tracker:node-level:valid-removal-refused-after-restart", detail(&log, json!({"result": format!("{:?}", res)})));
                    return;
                }
                chain.pop();
            }
        }
    }
    r.count("node_level.probes_completed");
}

fn main() {
    let cli = Cli::parse("C13");
    report::install_quiet_panic_hook();
    let start = Instant::now();
    let quick = cli.tier.is_quick();
    let shards = if quick { 16 } else { 64 };
    // per shard
    let (n_random, n_boundary, n_window, ops) = if quick { (12u64, 8u64, 2u64, 160u64) } else { (36, 24, 6, 220) };
    let mut report = run_sharded("C13", cli.threads, shards, |i, r| {
        let secp = Secp256k1::new();
        let mut rng = Rng::new(cli.seed.wrapping_mul(1_000_003).wrapping_add(i as u64) ^ 0xC13);
        let mut hist = 0u64;
        let plan: Vec<(Shape, u64)> = vec![
            (Shape::Random, cli.scaled(n_random)),
            (Shape::Boundary, cli.scaled(n_boundary)),
            (Shape::Window, cli.scaled(n_window)),
        ];
        for (shape, count) in plan {
            for k in 0..count {
                hist += 1;
                let cx = Ctx { secp: &secp, seed: cli.seed, shard: i, hist };
                let mut hr = rng.fork(hist);
                // alternate listener kinds; the real monitor gets the streamed path as well
                if k % 2 == 0 {
                    run_history::<ChainMonitor>(&mut hr, r, &cx, shape, ops, true);
                } else {
                    let stream = hr.bool();
                    run_history::<MockListener>(&mut hr, r, &cx, shape, ops, stream);
                }
            }
        }
    });

    // antecedents that must have fired for a "held" verdict
    report.require("rule.ok_implies_valid.checked_valid", 2000);
    report.require("rule.ok_successor.checked.add", 1500);
    report.require("rule.ok_successor.checked.remove", 500);
    report.require("rule.refusal_atomic.checked.add", 1000);
    report.require("rule.refusal_atomic.checked.remove", 500);
    report.require("rule.refusal_atomic.checked.remove_with_remembered_headers", 300);
    report.require("rule.refusal_atomic.checked.streamed.add", 50);
    report.require("rule.later_correct_request.succeeded", 1000);
    report.require("rule.later_correct_request.issued.remove_after_refused_remove", 100);
    report.require("rule.later_correct_request.issued.add_after_refused_add", 300);
    report.require("add.accepted.at_retarget_boundary", 30);
    report.require("add.accepted.streamed", 100);
    report.require("remove.accepted.streamed", 50);
    report.require("window.full_observed", 1);
    report.require("window.emptied_by_removals", 20);
    report.require("remove.beyond-header-window.refused.after_unwinding_the_full_window", 10);
    report.require("ok.on_zero_filter_header_tip", 10);
    for class in [
        "add.wrong-prev-hash-random",
        "add.wrong-prev-hash-grandparent",
        "add.pow-above-target",
        "add.bits-changed-off-boundary",
        "add.target-above-chain-max",
        "add.retarget-beyond-x4-harder",
        "add.retarget-beyond-x4-easier",
        "add.proof-for-other-block",
        "add.proof-missing-watched-tx",
        "add.inline-full-block-proof-hiding-watched-spend",
        "add.proof-wrong-filter-header",
        "add.attestation-wrong-height",
        "add.attestations-minority",
        "add.attestations-untrusted-only",
        "add.attestations-forged-signature",
        "add.attestations-duplicate-trusted",
        "add.streamed-other-block.streamed",
        "remove.wrong-prev-headers-random",
        "remove.wrong-prev-headers-grandparent",
        "remove.wrong-prev-filter-header",
        "remove.beyond-header-window",
        "remove.proof-for-other-block",
        "remove.proof-missing-watched-tx",
        "remove.attestations-minority",
        "remove.attestations-untrusted-only",
    ] {
        // every defect class must have been presented (refused or, if a fault is present, accepted)
        let seen = report.get(&format!("{}.refused", class)) + report.get(&format!("{}.accepted", class));
        if seen < 3 {
            report.inconclusive(&format!("defect class '{}' presented only {} times", class, seen));
        }
    }
    if report.get("harness.unexpected_panic") > 0 {
        report.inconclusive("a request panicked outside the 'later correct request' rule (see notes)");
    }
    if report.get("harness.valid_request_refused_unexpectedly") > 0 {
        report.inconclusive("a by-construction-valid request was refused although it did not follow a refusal (generator or liveness problem; see notes and samples)");
    }

    finish(
        report,
        FinishSpec {
            cli: &cli,
            level: "exploration",
            rule: "seeded histories of add_block/remove_block/block_chunk on a real ChainTracker (regtest, SimpleValidator, 0-3 trusted oracle keys, MockListener or real ChainMonitor listeners, start at genesis / at a checkpoint with or without filter header / just below a 2016 boundary; shapes: random walk, oscillation across the retarget boundary, fill-and-unwind of the 100-header window). Each request is valid by construction or carries exactly one named defect. Monitors: Ok => class not invalid and successor state = tip moved by exactly that block; Err => snapshot (tip, height, headers deque, listener slots, monitor State JSON, oracle set) equal before/after; after each Err a correct request for the same tip is issued and must be Ok. distinct = (listener kind, start kind, #oracles, request class+delivery, boundary?, window fill class, zero-filter-header tip?, outcome, demanded?)",
            assumptions: vec![
                "validity of a request is known by construction; proofs come from txoo TxoProof::prove / SpvProof::build / BlockSpendFilter (trusted components), attestations are signed with keys the driver holds".into(),
                "regtest only (PoW is minable); the Testnet special cases in validate_block (20-minute rule, free bits changes) are not exercised".into(),
                "ChainTracker::MAX_REORG_SIZE (public constant, 100 in this build) is taken as the header-window depth".into(),
                "acceptance is not judged for: proof/attestation defects on top of a tip stored with an all-zero filter header (documented upgrade path), a retarget of exactly x4, and a proof carrying the full block inline; refusals of those are still checked for atomicity".into(),
                "streamed removals are only issued with ChainMonitor listeners (MockListener::on_remove_streamed_block_end is unimplemented!())".into(),
                "protocol misuse that the tracker answers with a panic by design (chunk at wrong offset, compact proof while a stream is open) is not generated".into(),
            ],
            start,
            extra_coverage: Default::default(),
        },
    );
}
