//! C18 — channel keys are a stable function of seed and channel id.
//!
//! One *case* = one (seed, network, style) with a set of target channel ids (some sharing the
//! dbid, some sharing the peer id, some differing in a single byte) and a set of unrelated
//! channels.  The case is executed in several *worlds* (independent signers built from the same
//! seed): a canonical one (targets only, listed order), a reordered one, one with unrelated
//! channels created / set up / advanced in between, and one with both.  Inside every world the
//! channels are set up (with varying setup parameters and optional permanent ids), advanced
//! along real holder-commitment updates (counter-signed commitments, revocations), the signer is
//! restarted from its store at random points, and key material is read through every public
//! route (with_channel_base, repeated new_channel, the channel slot, the InMemorySigner).
//!
//! Monitors
//!  * every reading for the same (seed, network, style, id0, field) is equal: inside a world
//!    (re-read, across setup, across restart) and across worlds (creation order, other channels);
//!  * different ids give pairwise different values of every field;
//!  * released secrets fed in release order into LDK's CounterpartyCommitmentSecrets are never
//!    rejected, all released secrets are pairwise consistent under BOLT-3 derive_secret, and
//!    secret*G equals the per-commitment point read for that number;
//!  * native style: every value equals the independent derivation in vls_verif::oracle.

use lightning_signer::bitcoin::bip32::DerivationPath;
use lightning_signer::bitcoin::hashes::Hash;
use lightning_signer::bitcoin::secp256k1::{All, PublicKey, Secp256k1, SecretKey};
use lightning_signer::bitcoin::{Network, OutPoint, Txid};
use lightning_signer::channel::{ChannelId, ChannelSetup, ChannelSlot, CommitmentType};
use lightning_signer::lightning::ln::chan_utils::{ChannelPublicKeys, CounterpartyCommitmentSecrets};
use lightning_signer::lightning::ln::channel_keys::{
    DelayedPaymentBasepoint, HtlcBasepoint, RevocationBasepoint,
};
use lightning_signer::lightning::sign::{ChannelSigner, InMemorySigner};
use lightning_signer::policy::simple_validator::make_default_simple_policy;
use lightning_signer::signer::derive::KeyDerivationStyle;
use serde_json::{json, Value};
use std::collections::BTreeMap;
use std::time::Instant;
use vls_verif::oracle;
use vls_verif::report::{self, finish, run_sharded, FinishSpec};
use lightning_signer::node::{Node, NodeConfig};
use lightning_signer::util::clock::ManualClock;
use lightning_signer::util::test_utils::FixedStartingTimeFactory;
use std::sync::Arc;
use std::time::Duration;
use vls_verif::world::{services, Store, World, WorldCfg};
use vls_verif::{Cli, Report, Rng};

const INITIAL: u64 = oracle::INITIAL_COMMITMENT_NUMBER;

#[derive(Clone, Copy, PartialEq, Eq, Debug)]
enum Style {
    Native,
    Ldk,
}

impl Style {
    fn name(&self) -> &'static str {
        match self {
            Style::Native => "native",
            Style::Ldk => "ldk",
        }
    }
    fn real(&self) -> KeyDerivationStyle {
        match self {
            Style::Native => KeyDerivationStyle::Native,
            Style::Ldk => KeyDerivationStyle::Ldk,
        }
    }
}

#[derive(Clone, Copy, PartialEq, Eq, PartialOrd, Ord, Debug)]
enum Field {
    Funding,
    Revocation,
    Payment,
    Delayed,
    Htlc,
    Point(u64),
    Secret(u64),
}

impl Field {
    fn kind(&self) -> &'static str {
        match self {
            Field::Funding => "funding_pubkey",
            Field::Revocation => "revocation_basepoint",
            Field::Payment => "payment_point",
            Field::Delayed => "delayed_payment_basepoint",
            Field::Htlc => "htlc_basepoint",
            Field::Point(_) => "per_commitment_point",
            Field::Secret(_) => "per_commitment_secret",
        }
    }
    fn label(&self) -> String {
        match self {
            Field::Point(n) => format!("per_commitment_point[{}]", n),
            Field::Secret(n) => format!("per_commitment_secret[{}]", n),
            f => f.kind().to_string(),
        }
    }
}

#[derive(Clone, Copy, PartialEq, Eq, Debug)]
enum Stage {
    Stub,
    Ready,
}

#[derive(Clone, Copy, PartialEq, Eq, Debug)]
enum WorldKind {
    Canonical,
    Reordered,
    Interleaved,
    Both,
}

impl WorldKind {
    fn name(&self) -> &'static str {
        match self {
            WorldKind::Canonical => "canonical",
            WorldKind::Reordered => "reordered",
            WorldKind::Interleaved => "interleaved",
            WorldKind::Both => "reordered+interleaved",
        }
    }
}

struct RefEntry {
    val: Vec<u8>,
    world: usize,
    kind: WorldKind,
    restarts: u64,
    at: String,
}

struct LastEntry {
    val: Vec<u8>,
    restarts: u64,
    stage: Stage,
    at: String,
}

struct NativeKeys {
    pubs: [Vec<u8>; 5],
    commitment_seed: [u8; 32],
}

/// All monitor state of a case (plus the part that is reset per world)
struct Mon {
    secp: Secp256k1<All>,
    cli_seed: u64,
    shard: usize,
    case_idx: u64,
    seed: [u8; 32],
    style: Style,
    network: Network,
    reference: BTreeMap<(Vec<u8>, Field), RefEntry>,
    native: BTreeMap<Vec<u8>, NativeKeys>,
    worlds_done: Vec<Value>,
    // current world
    widx: usize,
    kind: WorldKind,
    restarts: u64,
    last: BTreeMap<(Vec<u8>, Field), LastEntry>,
    oplog: Vec<String>,
}

fn pk_of_secret(secp: &Secp256k1<All>, secret: &[u8]) -> Option<Vec<u8>> {
    SecretKey::from_slice(secret).ok().map(|sk| PublicKey::from_secret_key(secp, &sk).serialize().to_vec())
}

impl Mon {
    fn log(&mut self, s: String) {
        if self.oplog.len() < 400 {
            self.oplog.push(s);
        }
    }

    fn begin_world(&mut self, widx: usize, kind: WorldKind) {
        self.widx = widx;
        self.kind = kind;
        self.restarts = 0;
        self.last.clear();
        self.oplog.clear();
    }

    fn end_world(&mut self) {
        let ops: Vec<String> = self.oplog.iter().take(120).cloned().collect();
        self.worlds_done.push(json!({"world": self.widx, "kind": self.kind.name(), "ops": ops}));
    }

    fn case_json(&self) -> Value {
        json!({
            "cli_seed": self.cli_seed, "shard": self.shard, "case": self.case_idx,
            "node_seed": hex::encode(self.seed), "style": self.style.name(),
            "network": self.network.to_string(),
        })
    }

    fn detail(&self, id0: &[u8], field: Field, extra: Value) -> Value {
        json!({
            "case": self.case_json(),
            "channel_id0": hex::encode(id0),
            "field": field.label(),
            "world": self.widx, "world_kind": self.kind.name(), "restarts_so_far": self.restarts,
            "observation": extra,
            "ops_of_this_world": self.oplog,
            "earlier_worlds": self.worlds_done,
        })
    }

    fn native_keys(&mut self, id0: &[u8]) -> &NativeKeys {
        if !self.native.contains_key(id0) {
            let mat = oracle::native_channel_key_material(&self.seed, id0);
            // order in the key material: funding, revocation base, htlc base, payment, delayed payment base, seed
            let p = |i: usize| pk_of_secret(&self.secp, &mat[i * 32..i * 32 + 32]).unwrap_or_default();
            let mut cs = [0u8; 32];
            cs.copy_from_slice(&mat[160..192]);
            let nk = NativeKeys { pubs: [p(0), p(1), p(3), p(4), p(2)], commitment_seed: cs };
            self.native.insert(id0.to_vec(), nk);
        }
        self.native.get(id0).unwrap()
    }

    fn native_expected(&mut self, id0: &[u8], field: Field) -> Vec<u8> {
        let secp = self.secp.clone();
        let nk = self.native_keys(id0);
        match field {
            Field::Funding => nk.pubs[0].clone(),
            Field::Revocation => nk.pubs[1].clone(),
            Field::Payment => nk.pubs[2].clone(),
            Field::Delayed => nk.pubs[3].clone(),
            Field::Htlc => nk.pubs[4].clone(),
            Field::Secret(n) => oracle::commitment_secret(&nk.commitment_seed, n).to_vec(),
            Field::Point(n) =>
                pk_of_secret(&secp, &oracle::commitment_secret(&nk.commitment_seed, n)).unwrap_or_default(),
        }
    }

    /// The central monitor: one reading of one field of one channel
    fn observe(&mut self, r: &mut Report, id0: &[u8], field: Field, val: Vec<u8>, stage: Stage, route: &str) {
        r.eval(1);
        r.count(&format!("read.{}", field.kind()));
        r.count(&format!("read.route.{}", route));
        let key = (id0.to_vec(), field);
        let at = format!("world {} ({}) op#{} restarts={} stage={:?} via {}", self.widx, self.kind.name(), self.oplog.len(), self.restarts, stage, route);
        let base = format!("{}:{}:{}:{}", self.style.name(), self.network, self.kind.name(), field.kind());
        if let Some(prev) = self.last.get(&key) {
            // within-world stability
            let (rel, sig) = if prev.restarts != self.restarts {
                ("across_restart", "keys:differ-across-restart")
            } else if prev.stage != stage {
                ("across_setup", "keys:differ-across-setup")
            } else {
                ("reread", "keys:unstable-reading")
            };
            r.count(&format!("check.{}", rel));
            r.distinct_str(&format!("{}:{}:{:?}:{}", base, rel, stage, route));
            if prev.val != val {
                let d = self.detail(id0, field, json!({"relation": rel, "earlier": hex::encode(&prev.val), "earlier_at": prev.at, "now": hex::encode(&val), "now_at": at}));
                r.violation(sig, d);
            }
        } else {
            // first reading in this world: cross-world comparison and native oracle
            if let Some(re) = self.reference.get(&key) {
                if re.world != self.widx {
                    // the two specific relations are only named when no restart confounds the comparison
                    let clean = re.restarts == 0 && self.restarts == 0;
                    let (rel, sig) = match (re.kind, self.kind, clean) {
                        (WorldKind::Canonical, WorldKind::Reordered, true) => ("cross_world.reordered", "keys:differ-by-creation-order"),
                        (WorldKind::Canonical, WorldKind::Interleaved, true) => ("cross_world.other_channels", "keys:differ-by-other-channels"),
                        _ => ("cross_world.history", "keys:differ-by-creation-history"),
                    };
                    r.count(&format!("check.{}", rel));
                    r.distinct_str(&format!("{}:{}:{:?}", base, rel, stage));
                    if re.val != val {
                        let d = self.detail(id0, field, json!({"relation": rel, "reference": hex::encode(&re.val), "reference_at": re.at, "now": hex::encode(&val), "now_at": at}));
                        r.violation(sig, d);
                    }
                }
            } else {
                self.reference.insert(key.clone(), RefEntry { val: val.clone(), world: self.widx, kind: self.kind, restarts: self.restarts, at: at.clone() });
            }
            if self.style == Style::Native {
                let exp = self.native_expected(id0, field);
                r.count("check.native_oracle");
                r.distinct_str(&format!("{}:native_oracle", base));
                if exp != val {
                    let d = self.detail(id0, field, json!({"relation": "native_oracle", "expected_from_hkdf_reference": hex::encode(&exp), "now": hex::encode(&val), "now_at": at}));
                    r.violation("keys:native-derivation-mismatch", d);
                }
            }
        }
        self.last.insert(key, LastEntry { val, restarts: self.restarts, stage, at });
    }

    fn observe_pubkeys(&mut self, r: &mut Report, id0: &[u8], keys: &ChannelPublicKeys, stage: Stage, route: &str) {
        self.observe(r, id0, Field::Funding, keys.funding_pubkey.serialize().to_vec(), stage, route);
        self.observe(r, id0, Field::Revocation, keys.revocation_basepoint.0.serialize().to_vec(), stage, route);
        self.observe(r, id0, Field::Payment, keys.payment_point.serialize().to_vec(), stage, route);
        self.observe(r, id0, Field::Delayed, keys.delayed_payment_basepoint.0.serialize().to_vec(), stage, route);
        self.observe(r, id0, Field::Htlc, keys.htlc_basepoint.0.serialize().to_vec(), stage, route);
    }

    /// secret*G must equal the point read (in this world) for the same commitment number
    fn check_secret_point(&mut self, r: &mut Report, id0: &[u8], n: u64, secret: &[u8], route: &str) {
        let pkey = (id0.to_vec(), Field::Point(n));
        if let Some(p) = self.last.get(&pkey) {
            r.count("check.secret_times_g_is_point");
            r.distinct_str(&format!("{}:{}:secret_point:{}", self.style.name(), self.kind.name(), route));
            let derived = pk_of_secret(&self.secp, secret).unwrap_or_default();
            if derived != p.val {
                let d = self.detail(id0, Field::Secret(n), json!({"relation": "secret*G == point", "secret": hex::encode(secret), "secret_times_G": hex::encode(&derived), "point_read": hex::encode(&p.val), "point_read_at": p.at, "route": route}));
                r.violation("keys:secret-point-mismatch", d);
            }
        }
    }

    /// all secrets seen in this world for the channel are pairwise consistent under BOLT-3 derive_secret
    fn check_tree(&mut self, r: &mut Report, id0: &[u8]) {
        let secrets: Vec<(u64, Vec<u8>)> = self
            .last
            .range((id0.to_vec(), Field::Secret(0))..=(id0.to_vec(), Field::Secret(u64::MAX)))
            .filter_map(|((_, f), e)| if let Field::Secret(n) = f { Some((*n, e.val.clone())) } else { None })
            .collect();
        for (na, sa) in secrets.iter() {
            let ia = INITIAL - *na;
            let tz = ia.trailing_zeros().min(48);
            if tz == 0 {
                continue;
            }
            let mut base = [0u8; 32];
            base.copy_from_slice(sa);
            for (nb, sb) in secrets.iter() {
                let ib = INITIAL - *nb;
                if ib == ia || (ib >> tz) != (ia >> tz) {
                    continue;
                }
                r.count("check.bolt3_pair_derivable");
                let d = oracle::bolt3_derive(&base, tz, ib);
                if d[..] != sb[..] {
                    let det = self.detail(id0, Field::Secret(*nb), json!({"relation": "derive_secret(secret[a], bits, index[b]) == secret[b]", "a": na, "b": nb, "secret_a": hex::encode(sa), "secret_b": hex::encode(sb), "derived": hex::encode(d), "bits": tz}));
                    r.violation("keys:secret-tree-inconsistent", det);
                    return;
                }
            }
        }
    }

    /// different ids => pairwise different values of every field (over everything read in the case)
    fn check_distinct(&mut self, r: &mut Report) {
        let mut by: BTreeMap<(Field, Vec<u8>), Vec<u8>> = BTreeMap::new();
        let mut per_field: BTreeMap<Field, u64> = BTreeMap::new();
        let mut dups = vec![];
        for ((id, f), e) in self.reference.iter() {
            *per_field.entry(*f).or_insert(0) += 1;
            if let Some(other) = by.get(&(*f, e.val.clone())) {
                dups.push((id.clone(), other.clone(), *f, e.val.clone()));
            } else {
                by.insert((*f, e.val.clone()), id.clone());
            }
        }
        for (_, n) in per_field.iter() {
            r.count_n("check.distinct_pairs", n * n.saturating_sub(1) / 2);
        }
        r.distinct_str(&format!("{}:{}:distinct", self.style.name(), self.network));
        for (a, b, f, v) in dups {
            let shape = id_relation(&a, &b);
            let d = json!({"case": self.case_json(), "field": f.label(), "value": hex::encode(v), "channel_id_a": hex::encode(a), "channel_id_b": hex::encode(b), "ids_relation": shape, "worlds": self.worlds_done});
            r.violation("keys:distinct-ids-same-keys", d);
        }
    }
}

fn id_relation(a: &[u8], b: &[u8]) -> &'static str {
    if a.len() == 41 && b.len() == 41 {
        if a[33..] == b[33..] {
            "same dbid, different peer id"
        } else if a[..33] == b[..33] {
            "same peer id, different dbid"
        } else {
            "different peer id and dbid"
        }
    } else {
        "other"
    }
}

#[derive(Clone)]
struct Spec {
    peer: [u8; 33],
    dbid: u64,
    target: bool,
}

struct Chan {
    spec: Option<usize>,
    created: bool,
    id0: Option<ChannelId>,
    perm: Option<ChannelId>,
    ready: bool,
    next: u64,
    value: u64,
    cp: [SecretKey; 5],
    store: CounterpartyCommitmentSecrets,
    provided: u64,
}

impl Chan {
    fn new(rng: &mut Rng, spec: Option<usize>) -> Chan {
        let mut sk = || loop {
            if let Ok(k) = SecretKey::from_slice(&rng.bytes::<32>()) {
                return k;
            }
        };
        Chan {
            spec,
            created: false,
            id0: None,
            perm: None,
            ready: false,
            next: 0,
            value: 0,
            cp: [sk(), sk(), sk(), sk(), sk()],
            store: CounterpartyCommitmentSecrets::new(),
            provided: 0,
        }
    }
    fn stage(&self) -> Stage {
        if self.ready {
            Stage::Ready
        } else {
            Stage::Stub
        }
    }
}

#[derive(Clone, Debug)]
enum Op {
    New(usize),
    NewRandom,
    Setup(usize),
    Advance(usize),
    Read(usize),
    Direct(usize),
    ReadAll,
    Restart,
}

struct Run<'a> {
    world: World,
    chans: Vec<Chan>,
    specs: &'a [Spec],
    secp: Secp256k1<All>,
    start_time: (u64, u32),
    dead: bool,
}

/// Same as vls_verif::world::build_node (what HandlerBuilder::build does), except that the
/// signer's starting time -- entropy that a real daemon takes from the wall clock at every start
/// and that must not influence channel keys -- is chosen by the caller.
fn build_node_at(cfg: &WorldCfg, store: &Store, clock: Arc<ManualClock>, st: (u64, u32)) -> Result<Arc<Node>, String> {
    let mut svc = services(cfg, store, clock);
    svc.starting_time_factory = FixedStartingTimeFactory::new(st.0, st.1);
    let persister = store.as_persist();
    let nodes = persister.get_nodes().map_err(|e| format!("get_nodes: {:?}", e))?;
    if nodes.is_empty() {
        let config = NodeConfig { network: cfg.network, key_derivation_style: cfg.style, use_checkpoints: true, allow_deep_reorgs: false };
        let node = Arc::new(Node::new(config, &cfg.seed, vec![], svc));
        persister.new_node(&node.get_id(), &config, &*node.get_state()).map_err(|e| format!("new_node: {:?}", e))?;
        persister.new_tracker(&node.get_id(), &node.get_tracker()).map_err(|e| format!("new_tracker: {:?}", e))?;
        node.add_allowlist(&[]).map_err(|e| format!("allowlist: {:?}", e))?;
        Ok(node)
    } else {
        if nodes.len() != 1 {
            return Err(format!("{} nodes in store", nodes.len()));
        }
        let (node_id, entry) = nodes.into_iter().next().unwrap();
        Node::restore_node(&node_id, entry, &cfg.seed, svc).map_err(|e| format!("restore: {:?}", e))
    }
}

fn gen_start_time(rng: &mut Rng) -> (u64, u32) {
    match rng.below(5) {
        0 => (1, 1),
        1 => (0, 0),
        2 => (u64::MAX, u32::MAX),
        _ => (1_600_000_000 + rng.below(200_000_000), rng.below(1_000_000_000) as u32),
    }
}

fn status_tag(e: &lightning_signer::util::status::Status) -> String {
    format!("{:?}", e).chars().take(110).collect()
}

impl<'a> Run<'a> {
    fn do_new(&mut self, mon: &mut Mon, r: &mut Report, c: usize) {
        let spec = self.specs[self.chans[c].spec.unwrap()].clone();
        let node = self.world.node.clone();
        let again = self.chans[c].created;
        let res = report::catch(|| node.new_channel(spec.dbid, &spec.peer, &node));
        mon.log(format!("new_channel(dbid={}, peer={}){}", spec.dbid, hex::encode(spec.peer), if again { " [again]" } else { "" }));
        match res {
            Ok(Ok((id, Some(slot)))) => {
                r.count(if again { "op.new_channel.again" } else { "op.new_channel.ok" });
                let expected = ChannelId::new_from_peer_id_and_oid(&spec.peer, spec.dbid);
                if id != expected {
                    r.note("new_channel returned an id different from peer_id||dbid_le");
                }
                if let Some(old) = &self.chans[c].id0 {
                    if *old != id {
                        r.note("new_channel returned a different id for the same (peer, dbid)");
                    }
                }
                let stage = match &slot {
                    ChannelSlot::Stub(_) => Stage::Stub,
                    ChannelSlot::Ready(_) => Stage::Ready,
                };
                if stage != self.chans[c].stage() {
                    r.note("slot returned by new_channel has an unexpected stage");
                }
                self.chans[c].created = true;
                self.chans[c].id0 = Some(id.clone());
                let pubs = slot.get_channel_basepoints();
                mon.observe_pubkeys(r, id.as_slice(), &pubs, stage, "new_channel_result");
            }
            Ok(Ok((_, None))) => {
                r.count("op.new_channel.none");
            }
            Ok(Err(e)) => {
                r.count("op.new_channel.err");
                r.set_add("new_channel_errors", &status_tag(&e));
            }
            Err(p) => {
                r.count("op.new_channel.panic");
                r.inconclusive(&format!("new_channel panicked: {}", p));
                self.dead = true;
            }
        }
    }

    fn do_new_random(&mut self, mon: &mut Mon, r: &mut Report, rng: &mut Rng) {
        let node = self.world.node.clone();
        let res = report::catch(|| node.new_channel_with_random_id(&node));
        match res {
            Ok(Ok((id, Some(slot)))) => {
                mon.log(format!("new_channel_with_random_id() -> {}", hex::encode(id.as_slice())));
                if let Some(pos) = self.chans.iter().position(|c| c.id0.as_ref() == Some(&id)) {
                    r.count("op.new_random.existing");
                    let st = self.chans[pos].stage();
                    mon.observe_pubkeys(r, id.as_slice(), &slot.get_channel_basepoints(), st, "new_channel_result");
                    return;
                }
                r.count("op.new_random.ok");
                let mut ch = Chan::new(rng, None);
                ch.created = true;
                ch.id0 = Some(id.clone());
                self.chans.push(ch);
                mon.observe_pubkeys(r, id.as_slice(), &slot.get_channel_basepoints(), Stage::Stub, "new_channel_result");
                // perturb the signer: set it up and advance it a little
                let c = self.chans.len() - 1;
                if rng.chance(2, 3) {
                    self.do_setup(mon, r, rng, c);
                    for _ in 0..rng.below(3) {
                        self.do_advance(mon, r, rng, c);
                    }
                }
            }
            Ok(Ok((_, None))) => r.count("op.new_random.none"),
            Ok(Err(e)) => {
                mon.log("new_channel_with_random_id() -> err".into());
                r.count("op.new_random.err");
                r.set_add("new_channel_errors", &status_tag(&e));
            }
            Err(p) => {
                r.count("op.new_random.panic");
                r.inconclusive(&format!("new_channel_with_random_id panicked: {}", p));
                self.dead = true;
            }
        }
    }

    fn do_setup(&mut self, mon: &mut Mon, r: &mut Report, rng: &mut Rng, c: usize) {
        if !self.chans[c].created || self.chans[c].ready {
            return;
        }
        let id0 = self.chans[c].id0.clone().unwrap();
        let pk = |k: &SecretKey| PublicKey::from_secret_key(&self.secp, k);
        let cp = &self.chans[c].cp;
        let points = ChannelPublicKeys {
            funding_pubkey: pk(&cp[0]),
            revocation_basepoint: RevocationBasepoint(pk(&cp[1])),
            payment_point: pk(&cp[2]),
            delayed_payment_basepoint: DelayedPaymentBasepoint(pk(&cp[3])),
            htlc_basepoint: HtlcBasepoint(pk(&cp[4])),
        };
        let value = match rng.below(4) {
            0 => 100_000,
            1 => 16_777_215,
            _ => rng.range(50_000, 900_000_000),
        };
        let anchors = rng.chance(1, 3);
        let setup = ChannelSetup {
            is_outbound: rng.chance(3, 4),
            channel_value_sat: value,
            push_value_msat: 0,
            funding_outpoint: OutPoint { txid: Txid::from_byte_array(rng.bytes::<32>()), vout: rng.below(3) as u32 },
            holder_selected_contest_delay: rng.range(144, 2016) as u16,
            holder_shutdown_script: None,
            counterparty_points: points,
            counterparty_selected_contest_delay: rng.range(144, 2016) as u16,
            counterparty_shutdown_script: None,
            commitment_type: if anchors { CommitmentType::AnchorsZeroFeeHtlc } else { CommitmentType::StaticRemoteKey },
        };
        let perm = if rng.bool() { Some(ChannelId::new(&rng.bytes::<32>())) } else { None };
        mon.log(format!(
            "setup_channel({}, perm={:?}, value={}, outbound={}, anchors={})",
            hex::encode(id0.as_slice()), perm.as_ref().map(|p| hex::encode(p.as_slice())), value, setup.is_outbound, anchors
        ));
        let node = self.world.node.clone();
        let res = report::catch(|| node.setup_channel(id0.clone(), perm.clone(), setup.clone(), &DerivationPath::master()));
        match res {
            Ok(Ok(chan)) => {
                r.count("op.setup.ok");
                if perm.is_some() {
                    r.count("op.setup.with_permanent_id");
                }
                self.chans[c].ready = true;
                self.chans[c].perm = perm;
                self.chans[c].value = value;
                // the returned Channel object is an observation route too
                mon.observe_pubkeys(r, id0.as_slice(), chan.keys.pubkeys(), Stage::Ready, "setup_channel_result");
            }
            Ok(Err(e)) => {
                r.count("op.setup.err");
                r.set_add("setup_errors", &status_tag(&e));
            }
            Err(p) => {
                r.count("op.setup.panic");
                r.inconclusive(&format!("setup_channel panicked: {}", p));
                self.dead = true;
            }
        }
    }

    fn do_advance(&mut self, mon: &mut Mon, r: &mut Report, rng: &mut Rng, c: usize) {
        if !self.chans[c].ready {
            return;
        }
        let id0 = self.chans[c].id0.clone().unwrap();
        let use_id = match (&self.chans[c].perm, rng.bool()) {
            (Some(p), true) => p.clone(),
            _ => id0.clone(),
        };
        let n = self.chans[c].next;
        // make sure the point of n (and n+1) was read before the update, as a node would
        self.read_points(mon, r, c, &use_id, &[n, n + 1], "with_channel_base");
        let to_holder = self.chans[c].value - 2_000 - rng.below(3) * 100;
        let (kf, kh) = (self.chans[c].cp[0], self.chans[c].cp[4]);
        mon.log(format!("advance_holder_commitment({}, n={}, to_holder={})", hex::encode(use_id.as_slice()), n, to_holder));
        let node = self.world.node.clone();
        let res = report::catch(|| node.with_channel(&use_id, |ch| ch.advance_holder_commitment(&kf, &kh, vec![], to_holder, n)));
        match res {
            Ok(Ok(())) => {
                r.count("op.advance.ok");
                self.chans[c].next = n + 1;
            }
            Ok(Err(e)) => {
                r.count("op.advance.err");
                r.set_add("advance_errors", &status_tag(&e));
                return;
            }
            Err(p) => {
                r.count("op.advance.panic");
                r.inconclusive(&format!("advance_holder_commitment panicked: {}", p));
                self.dead = true;
                return;
            }
        }
        if n == 0 {
            return;
        }
        // commitment n-1 is now revoked: fetch the secret the way a node does
        let m = n - 1;
        let via_revoke = rng.bool();
        let released: Result<Result<(Option<PublicKey>, Option<SecretKey>), _>, String> = if via_revoke {
            report::catch(|| node.with_channel(&use_id, |ch| ch.revoke_previous_holder_commitment(n).map(|(p, s)| (Some(p), s))))
        } else {
            report::catch(|| node.with_channel_base(&use_id, |b| b.get_per_commitment_secret(m).map(|s| (None, Some(s)))))
        };
        let route = if via_revoke { "revoke_previous_holder_commitment" } else { "get_per_commitment_secret" };
        mon.log(format!("{} -> secret of commitment {}", route, m));
        match released {
            Ok(Ok((pt, Some(secret)))) => {
                r.count("secret.released");
                let sb = secret.secret_bytes();
                if let Some(p) = pt {
                    mon.observe(r, id0.as_slice(), Field::Point(n + 1), p.serialize().to_vec(), Stage::Ready, route);
                }
                mon.observe(r, id0.as_slice(), Field::Secret(m), sb.to_vec(), Stage::Ready, route);
                mon.check_secret_point(r, id0.as_slice(), m, &sb, route);
                // LDK's compact store, fed in release order
                if self.chans[c].provided == m {
                    r.count("check.provide_secret");
                    r.distinct_str(&format!("{}:{}:provide:{}", mon.style.name(), mon.kind.name(), (INITIAL - m).trailing_zeros().min(6)));
                    let ok = self.chans[c].store.provide_secret(INITIAL - m, sb).is_ok();
                    self.chans[c].provided = m + 1;
                    if !ok {
                        let d = mon.detail(id0.as_slice(), Field::Secret(m), json!({"relation": "CounterpartyCommitmentSecrets::provide_secret accepted", "index": INITIAL - m, "commitment_number": m, "secret": hex::encode(sb), "route": route}));
                        r.violation("keys:secret-tree-rejected", d);
                    } else {
                        // what the counterparty reconstructs from the compact store must be what was released
                        let k = rng.below(m + 1);
                        let store = self.chans[c].store.clone();
                        let back = report::catch(move || store.get_secret(INITIAL - k)).ok().flatten();
                        let seen = mon.last.get(&(id0.as_slice().to_vec(), Field::Secret(k))).map(|e| e.val.clone());
                        if let Some(seen) = seen {
                            r.count("check.store_readback");
                            if back.map(|b| b.to_vec()) != Some(seen.clone()) {
                                let d = mon.detail(id0.as_slice(), Field::Secret(k), json!({"relation": "CounterpartyCommitmentSecrets::get_secret(index) == secret released for that index", "commitment_number": k, "released": hex::encode(seen), "reconstructed": back.map(hex::encode)}));
                                r.violation("keys:secret-tree-inconsistent", d);
                            }
                        }
                    }
                }
            }
            Ok(Ok((_, None))) => r.count("secret.release_none"),
            Ok(Err(e)) => {
                r.count("secret.release_err");
                r.set_add("release_errors", &status_tag(&e));
            }
            Err(p) => {
                r.inconclusive(&format!("secret release panicked: {}", p));
                self.dead = true;
            }
        }
    }

    fn read_points(&mut self, mon: &mut Mon, r: &mut Report, c: usize, use_id: &ChannelId, ns: &[u64], route: &str) {
        let id0 = self.chans[c].id0.clone().unwrap();
        let stage = self.chans[c].stage();
        let node = self.world.node.clone();
        let ns_v = ns.to_vec();
        let res = report::catch(|| {
            node.with_channel_base(use_id, |b| Ok(ns_v.iter().map(|n| (*n, b.get_per_commitment_point(*n))).collect::<Vec<_>>()))
        });
        match res {
            Ok(Ok(list)) =>
                for (n, p) in list {
                    match p {
                        Ok(p) => mon.observe(r, id0.as_slice(), Field::Point(n), p.serialize().to_vec(), stage, route),
                        Err(_) => r.count("read.point.refused"),
                    }
                },
            Ok(Err(e)) => {
                r.count("read.err");
                r.set_add("read_errors", &status_tag(&e));
            }
            Err(p) => {
                r.inconclusive(&format!("get_per_commitment_point panicked: {}", p));
                self.dead = true;
            }
        }
    }

    fn do_read(&mut self, mon: &mut Mon, r: &mut Report, rng: &mut Rng, c: usize) {
        if !self.chans[c].created {
            return;
        }
        let id0 = self.chans[c].id0.clone().unwrap();
        let stage = self.chans[c].stage();
        let (use_id, route) = match (&self.chans[c].perm, rng.bool()) {
            (Some(p), true) => (p.clone(), "with_channel_base(permanent id)"),
            _ => (id0.clone(), "with_channel_base"),
        };
        mon.log(format!("read {} via {}", hex::encode(id0.as_slice()), route));
        let node = self.world.node.clone();
        match report::catch(|| node.with_channel_base(&use_id, |b| Ok(b.get_channel_basepoints()))) {
            Ok(Ok(pubs)) => mon.observe_pubkeys(r, id0.as_slice(), &pubs, stage, route),
            Ok(Err(e)) => {
                r.count("read.err");
                r.set_add("read_errors", &status_tag(&e));
                return;
            }
            Err(p) => {
                r.inconclusive(&format!("get_channel_basepoints panicked: {}", p));
                self.dead = true;
                return;
            }
        }
        let next = self.chans[c].next;
        let ns: Vec<u64> = if stage == Stage::Stub { vec![0, 1] } else { vec![next + 1, next, rng.below(next + 2)] };
        self.read_points(mon, r, c, &use_id, &ns, route);
        // re-read of an already released secret (legitimate: commitment m is revoked)
        if stage == Stage::Ready && next >= 2 {
            let m = rng.below(next - 1);
            match report::catch(|| node.with_channel_base(&use_id, |b| b.get_per_commitment_secret(m))) {
                Ok(Ok(s)) => {
                    let sb = s.secret_bytes();
                    mon.observe(r, id0.as_slice(), Field::Secret(m), sb.to_vec(), stage, "get_per_commitment_secret");
                    mon.check_secret_point(r, id0.as_slice(), m, &sb, "get_per_commitment_secret");
                }
                Ok(Err(e)) => {
                    r.count("secret.reread_err");
                    r.set_add("release_errors", &status_tag(&e));
                }
                Err(p) => {
                    r.inconclusive(&format!("get_per_commitment_secret panicked: {}", p));
                    self.dead = true;
                }
            }
        }
        // asking new_channel again for an existing id returns the existing slot
        if self.chans[c].spec.is_some() && rng.chance(1, 4) {
            self.do_new(mon, r, c);
        }
    }

    /// Direct look at the InMemorySigner held in the slot (additional observation)
    fn do_direct(&mut self, mon: &mut Mon, r: &mut Report, rng: &mut Rng, c: usize, run_len: u64) {
        if !self.chans[c].created {
            return;
        }
        let id0 = self.chans[c].id0.clone().unwrap();
        let stage = self.chans[c].stage();
        mon.log(format!("direct read of slot keys {}", hex::encode(id0.as_slice())));
        let node = self.world.node.clone();
        let slot = match node.get_channel(&id0) {
            Ok(s) => s,
            Err(e) => {
                r.count("read.err");
                r.set_add("read_errors", &status_tag(&e));
                return;
            }
        };
        let mut ns: Vec<u64> = (0..run_len).collect();
        ns.push(INITIAL);
        ns.push(INITIAL - rng.below(1 << 20));
        ns.push(rng.below(INITIAL));
        ns.push(1u64 << rng.range(8, 47));
        let secp = self.secp.clone();
        let res = report::catch(|| {
            let guard = slot.lock().unwrap();
            let keys: &InMemorySigner = match &*guard {
                ChannelSlot::Stub(s) => &s.keys,
                ChannelSlot::Ready(ch) => &ch.keys,
            };
            let pubs = keys.pubkeys().clone();
            let slot_pubs = guard.get_channel_basepoints();
            let list: Vec<(u64, Result<[u8; 32], ()>, Result<PublicKey, ()>)> = ns
                .iter()
                .map(|n| (*n, keys.release_commitment_secret(INITIAL - *n), keys.get_per_commitment_point(INITIAL - *n, &secp)))
                .collect();
            (pubs, slot_pubs, list)
        });
        let (pubs, slot_pubs, list) = match res {
            Ok(x) => x,
            Err(p) => {
                r.inconclusive(&format!("direct signer read panicked: {}", p));
                self.dead = true;
                return;
            }
        };
        mon.observe_pubkeys(r, id0.as_slice(), &pubs, stage, "slot.keys.pubkeys");
        mon.observe_pubkeys(r, id0.as_slice(), &slot_pubs, stage, "slot.get_channel_basepoints");
        let mut store = CounterpartyCommitmentSecrets::new();
        for (n, s, p) in list {
            if let Ok(p) = p {
                mon.observe(r, id0.as_slice(), Field::Point(n), p.serialize().to_vec(), stage, "slot.keys.get_per_commitment_point");
            }
            if let Ok(s) = s {
                r.count("secret.direct");
                mon.observe(r, id0.as_slice(), Field::Secret(n), s.to_vec(), stage, "slot.keys.release_commitment_secret");
                mon.check_secret_point(r, id0.as_slice(), n, &s, "slot.keys.release_commitment_secret");
                if n < run_len {
                    r.count("check.provide_secret_direct_run");
                    if store.provide_secret(INITIAL - n, s).is_err() {
                        let d = mon.detail(id0.as_slice(), Field::Secret(n), json!({"relation": "CounterpartyCommitmentSecrets::provide_secret accepted (direct run 0..n)", "index": INITIAL - n, "commitment_number": n, "secret": hex::encode(s)}));
                        r.violation("keys:secret-tree-rejected", d);
                    }
                }
            }
        }
        mon.check_tree(r, id0.as_slice());
    }

    fn do_restart(&mut self, mon: &mut Mon, r: &mut Report, rng: &mut Rng) {
        let st = if rng.chance(1, 4) { self.start_time } else { gen_start_time(rng) };
        mon.log(format!("restart (starting time {}.{:09})", st.0, st.1));
        if st != self.start_time {
            r.count("op.restart.new_starting_time");
        }
        self.start_time = st;
        let (cfg, store, clock) = (self.world.cfg.clone(), self.world.store.clone(), self.world.clock.clone());
        match report::catch(|| build_node_at(&cfg, &store, clock, st)) {
            Ok(Ok(node)) => {
                self.world.node = node;
                self.world.restarts += 1;
                r.count("op.restart");
                mon.restarts += 1;
            }
            Ok(Err(e)) => {
                r.inconclusive(&format!("restart failed: {}", e));
                self.dead = true;
            }
            Err(p) => {
                r.inconclusive(&format!("restart panicked: {}", p));
                self.dead = true;
            }
        }
    }

    fn exec(&mut self, mon: &mut Mon, r: &mut Report, rng: &mut Rng, op: &Op, run_len: u64) {
        if self.dead {
            return;
        }
        match op {
            Op::New(c) => self.do_new(mon, r, *c),
            Op::NewRandom => self.do_new_random(mon, r, rng),
            Op::Setup(c) => self.do_setup(mon, r, rng, *c),
            Op::Advance(c) => self.do_advance(mon, r, rng, *c),
            Op::Read(c) => self.do_read(mon, r, rng, *c),
            Op::Direct(c) => self.do_direct(mon, r, rng, *c, run_len),
            Op::ReadAll =>
                for c in 0..self.chans.len() {
                    self.do_read(mon, r, rng, c);
                },
            Op::Restart => self.do_restart(mon, r, rng),
        }
    }
}

/// Build the operation script of one world
fn script(rng: &mut Rng, specs: &[Spec], kind: WorldKind, max_adv: u64) -> Vec<Op> {
    let targets: Vec<usize> = (0..specs.len()).filter(|i| specs[*i].target).collect();
    let others: Vec<usize> = (0..specs.len()).filter(|i| !specs[*i].target).collect();
    let with_others = matches!(kind, WorldKind::Interleaved | WorldKind::Both);
    let mut order = targets.clone();
    if matches!(kind, WorldKind::Reordered | WorldKind::Both) && order.len() >= 2 {
        let orig = order.clone();
        rng.shuffle(&mut order);
        if order == orig {
            order.rotate_left(1);
        }
    }
    // creation queue
    let mut creation: Vec<Op> = vec![];
    if with_others {
        // every gap (including before the first target) may receive unrelated channels
        let mut pool: Vec<Op> = others.iter().map(|i| Op::New(*i)).collect();
        for _ in 0..rng.range(1, 2) {
            pool.push(Op::NewRandom);
        }
        rng.shuffle(&mut pool);
        let gaps = order.len() + 1;
        let mut per_gap: Vec<Vec<Op>> = (0..gaps).map(|_| vec![]).collect();
        // guarantee something before the first target and something in between
        for (k, op) in pool.into_iter().enumerate() {
            let g = if k == 0 { 0 } else if k == 1 && gaps > 2 { 1 } else { rng.usize(gaps) };
            per_gap[g].push(op);
        }
        for (g, ops) in per_gap.into_iter().enumerate() {
            creation.extend(ops);
            if g < order.len() {
                creation.push(Op::New(order[g]));
            }
        }
    } else {
        creation.extend(order.iter().map(|i| Op::New(*i)));
    }
    // follow-up queues
    let mut follow: BTreeMap<usize, Vec<Op>> = BTreeMap::new();
    for i in 0..specs.len() {
        if !specs[i].target && !with_others {
            continue;
        }
        let mut q = vec![];
        if rng.chance(4, 5) {
            q.push(Op::Setup(i));
            let k = if specs[i].target { rng.range(1, max_adv) } else { rng.below(4) };
            for _ in 0..k {
                q.push(Op::Advance(i));
            }
        }
        follow.insert(i, q);
    }
    let pipelined = rng.bool();
    let mut ops: Vec<Op> = vec![];
    let mut created: Vec<usize> = vec![];
    let mut ci = 0usize;
    let mut heads: BTreeMap<usize, usize> = BTreeMap::new();
    loop {
        let pending: Vec<usize> =
            created.iter().copied().filter(|c| heads.get(c).copied().unwrap_or(0) < follow.get(c).map(|q| q.len()).unwrap_or(0)).collect();
        let can_create = ci < creation.len();
        if !can_create && pending.is_empty() {
            break;
        }
        let take_create = can_create && (pending.is_empty() || !pipelined || rng.chance(2, 5));
        if take_create {
            let op = creation[ci].clone();
            ci += 1;
            if let Op::New(c) = &op {
                created.push(*c);
            }
            ops.push(op);
        } else {
            let c = *rng.pick(&pending);
            let h = heads.entry(c).or_insert(0);
            ops.push(follow[&c][*h].clone());
            *h += 1;
        }
        if !created.is_empty() && rng.chance(1, 3) {
            ops.push(Op::Read(*rng.pick(&created)));
        }
        if rng.chance(1, 9) {
            ops.push(Op::Restart);
            if rng.bool() {
                ops.push(Op::ReadAll);
            }
        }
        if !created.is_empty() && rng.chance(1, 12) {
            ops.push(Op::Direct(*rng.pick(&created)));
        }
    }
    ops.push(Op::ReadAll);
    ops.push(Op::Restart);
    ops.push(Op::ReadAll);
    ops
}

fn gen_specs(rng: &mut Rng) -> Vec<Spec> {
    let peer = |rng: &mut Rng| {
        let mut p = rng.bytes::<33>();
        p[0] = 2 + (p[0] & 1);
        p
    };
    let pa = peer(rng);
    let mut pb = peer(rng);
    if rng.chance(1, 3) {
        // a peer id differing from pa in a single bit
        pb = pa;
        let i = rng.range(1, 32) as usize;
        pb[i] ^= 1 << rng.below(8);
    }
    let d1 = match rng.below(4) {
        0 => 1,
        1 => rng.range(1, 1000),
        2 => rng.range(1, u32::MAX as u64),
        _ => rng.range(1, u64::MAX - 10),
    };
    let d2 = match rng.below(3) {
        0 => d1 + 1,
        1 => d1.rotate_left(8).max(1),
        _ => rng.range(1, u64::MAX - 10),
    };
    let mut specs = vec![
        Spec { peer: pa, dbid: d1, target: true },
        Spec { peer: pb, dbid: d1, target: true }, // same dbid, other peer
    ];
    if d2 != d1 {
        specs.push(Spec { peer: pa, dbid: d2, target: true }); // same peer, other dbid
    }
    for _ in 0..rng.below(3) {
        let p = if rng.bool() { peer(rng) } else { pb };
        let d = rng.range(1, u64::MAX - 10);
        if !specs.iter().any(|s| s.peer == p && s.dbid == d) {
            specs.push(Spec { peer: p, dbid: d, target: true });
        }
    }
    // unrelated channels (only created in the interleaved worlds)
    for _ in 0..rng.range(1, 3) {
        let p = if rng.bool() { peer(rng) } else { pa };
        let d = match rng.below(3) {
            0 => d1.wrapping_add(2).max(1),
            1 => rng.range(1, 50),
            _ => rng.range(1, u64::MAX - 10),
        };
        if !specs.iter().any(|s| s.peer == p && s.dbid == d) {
            specs.push(Spec { peer: p, dbid: d, target: false });
        }
    }
    specs
}

fn run_case(cli: &Cli, shard: usize, case_idx: u64, rng: &mut Rng, r: &mut Report, max_adv: u64, run_len: u64) {
    let style = if rng.bool() { Style::Native } else { Style::Ldk };
    let network = match rng.below(8) {
        0 => Network::Testnet,
        1 => Network::Bitcoin,
        2 => Network::Signet,
        _ => Network::Regtest,
    };
    let seed = match rng.below(10) {
        0 => [0u8; 32],
        1 => [0xffu8; 32],
        _ => rng.bytes::<32>(),
    };
    r.count(&format!("case.style.{}", style.name()));
    r.count(&format!("case.network.{}", network));
    let specs = gen_specs(rng);
    let mut cfg = WorldCfg::regtest(seed);
    cfg.network = network;
    cfg.style = style.real();
    cfg.policy = make_default_simple_policy(network);
    let mut mon = Mon {
        secp: Secp256k1::new(),
        cli_seed: cli.seed,
        shard,
        case_idx,
        seed,
        style,
        network,
        reference: BTreeMap::new(),
        native: BTreeMap::new(),
        worlds_done: vec![],
        widx: 0,
        kind: WorldKind::Canonical,
        restarts: 0,
        last: BTreeMap::new(),
        oplog: vec![],
    };
    let mut kinds = vec![WorldKind::Reordered, WorldKind::Interleaved, WorldKind::Both];
    rng.shuffle(&mut kinds);
    let n_extra = if rng.chance(1, 3) { 3 } else { 2 };
    let mut worlds = vec![WorldKind::Canonical];
    worlds.extend(kinds.into_iter().take(n_extra));
    for (widx, kind) in worlds.iter().enumerate() {
        mon.begin_world(widx, *kind);
        let ops = script(rng, &specs, *kind, max_adv);
        let st = gen_start_time(rng);
        let store = Store::new_mem();
        let clock = Arc::new(ManualClock::new(Duration::from_secs(cfg.start_time)));
        let world = match report::catch(|| build_node_at(&cfg, &store, clock.clone(), st)) {
            Ok(Ok(node)) => World { cfg: cfg.clone(), store, clock, node, restarts: 0, external: Default::default(), last_mutations: Default::default() },
            Ok(Err(e)) => {
                r.inconclusive(&format!("cannot build node: {}", e));
                return;
            }
            Err(p) => {
                r.inconclusive(&format!("node construction panicked: {}", p));
                return;
            }
        };
        mon.log(format!("new signer (starting time {}.{:09})", st.0, st.1));
        r.count(&format!("world.{}", kind.name()));
        let mut chans = vec![];
        for i in 0..specs.len() {
            chans.push(Chan::new(rng, Some(i)));
        }
        let mut run = Run { world, chans, specs: &specs, secp: mon.secp.clone(), start_time: st, dead: false };
        for op in ops.iter() {
            run.exec(&mut mon, r, rng, op, run_len);
        }
        // final direct look at every channel (includes the pairwise BOLT-3 tree check)
        for c in 0..run.chans.len() {
            run.exec(&mut mon, r, rng, &Op::Direct(c), run_len);
        }
        let created = run.chans.iter().filter(|c| c.created).count();
        let ready = run.chans.iter().filter(|c| c.ready).count();
        r.count_n("world.channels_created", created as u64);
        r.count_n("world.channels_ready", ready as u64);
        if case_idx == 0 && shard < 3 && widx < 2 {
            let fk = run.chans.iter().filter(|c| c.created).take(3).map(|c| {
                let id = c.id0.as_ref().unwrap().as_slice().to_vec();
                json!({"id0": hex::encode(&id),
                       "funding_pubkey": mon.last.get(&(id.clone(), Field::Funding)).map(|e| hex::encode(&e.val)),
                       "per_commitment_point[0]": mon.last.get(&(id.clone(), Field::Point(0))).map(|e| hex::encode(&e.val)),
                       "per_commitment_secret[0]": mon.last.get(&(id.clone(), Field::Secret(0))).map(|e| hex::encode(&e.val)),
                       "commitments_advanced": c.next, "secrets_fed_to_ldk_store": c.provided})
            }).collect::<Vec<_>>();
            r.sample(json!({"case": mon.case_json(), "world": widx, "kind": kind.name(), "restarts": mon.restarts,
                            "first_ops": mon.oplog.iter().take(16).collect::<Vec<_>>(), "channels": fk}));
        }
        mon.end_world();
    }
    mon.check_distinct(r);
    r.count("case.done");
}

/// LDK style only: two channel ids whose LDK keys id carries the same 31-bit BIP32 derivation index (the keys id is
/// an HKDF of the channel id, its first four bytes zeroed and the fifth masked; the index is its first eight bytes
/// read big-endian).  The harness finds such a pair by its own HKDF over a few hundred thousand (peer, dbid) ids -
/// a birthday search - and creates both channels in one signer, in either order: they are different channel ids, so
/// every key must differ, and each channel's keys must be what they are in a signer that never saw the other one.
/// If the harness's idea of the index were wrong the pair simply would not collide: no power, never a false alarm.
fn ldk_index_collision_case(rng: &mut Rng, r: &mut Report) {
    let seed = rng.bytes::<32>();
    let mut peer = [2u8; 33];
    peer[1..].copy_from_slice(&rng.bytes::<32>());
    let seed_base = oracle::hkdf(&[], &seed, b"peer seed", 32);
    let mut seen: std::collections::HashMap<u32, u64> = std::collections::HashMap::new();
    let mut pair = None;
    for dbid in 1..=400_000u64 {
        let id = ChannelId::new_from_peer_id_and_oid(&peer, dbid);
        let k = oracle::hkdf(id.as_slice(), &seed_base, b"per-peer seed", 32);
        let index = u32::from_be_bytes([k[4] & 0x7f, k[5], k[6], k[7]]);
        if let Some(d0) = seen.insert(index, dbid) {
            pair = Some((d0, dbid, index));
            break;
        }
    }
    let (d1, d2, index) = match pair {
        Some(p) => p,
        None => {
            r.count("ldk_index_collision.no_pair_found");
            return;
        }
    };
    r.count("ldk_index_collision.pairs");
    let read = |order: &[u64]| -> Result<Vec<(u64, Vec<Vec<u8>>)>, String> {
        let mut cfg = WorldCfg::regtest(seed);
        cfg.style = KeyDerivationStyle::Ldk;
        let world = World::new(cfg);
        let mut out = vec![];
        for d in order {
            let node = world.node.clone();
            let (id, _) = node.new_channel(*d, &peer, &node).map_err(|e| format!("new_channel: {:?}", e))?;
            let v = node
                .with_channel_base(&id, |b| {
                    let k = b.get_channel_basepoints();
                    let mut v = vec![
                        k.funding_pubkey.serialize().to_vec(),
                        k.revocation_basepoint.0.serialize().to_vec(),
                        k.payment_point.serialize().to_vec(),
                        k.delayed_payment_basepoint.0.serialize().to_vec(),
                        k.htlc_basepoint.0.serialize().to_vec(),
                    ];
                    for n in 0..2u64 {
                        v.push(b.get_per_commitment_point(n).map(|p| p.serialize().to_vec()).unwrap_or_default());
                    }
                    Ok(v)
                })
                .map_err(|e| format!("basepoints: {:?}", e))?;
            out.push((*d, v));
        }
        Ok(out)
    };
    let runs = match report::catch(|| -> Result<_, String> { Ok((read(&[d1, d2])?, read(&[d2, d1])?, read(&[d1])?, read(&[d2])?)) }) {
        Ok(Ok(x)) => x,
        Ok(Err(e)) => {
            r.note(&format!("ldk index collision case could not be run: {}", e));
            r.count("ldk_index_collision.not_runnable");
            return;
        }
        Err(p) => {
            r.note(&format!("ldk index collision case panicked: {}", p.chars().take(120).collect::<String>()));
            r.count("ldk_index_collision.not_runnable");
            return;
        }
    };
    let (both, both_rev, alone1, alone2) = runs;
    let names = ["funding_pubkey", "revocation_basepoint", "payment_point", "delayed_payment_basepoint", "htlc_basepoint", "per_commitment_point(0)", "per_commitment_point(1)"];
    let detail = |what: &str, field: &str| json!({"style": "ldk", "seed": hex::encode(seed), "peer": hex::encode(peer), "dbids": [d1, d2], "shared_derivation_index(harness's own HKDF)": index, "what": what, "field": field});
    let get = |run: &Vec<(u64, Vec<Vec<u8>>)>, d: u64| run.iter().find(|x| x.0 == d).map(|x| x.1.clone()).unwrap_or_default();
    for (i, name) in names.iter().enumerate() {
        r.eval(1);
        r.count("ldk_index_collision.fields_compared");
        // different channel ids => different keys, in one signer
        if get(&both, d1)[i] == get(&both, d2)[i] || get(&both_rev, d1)[i] == get(&both_rev, d2)[i] {
            r.violation("keys:ldk:distinct-ids-same-key:ids-sharing-a-derivation-index", detail("two channels of one signer share this key", name));
        }
        // each channel's keys do not depend on the other channel or on the creation order
        for (d, alone) in [(d1, &alone1), (d2, &alone2)] {
            if get(&both, d)[i] != get(alone, d)[i] || get(&both_rev, d)[i] != get(alone, d)[i] {
                r.violation("keys:ldk:key-depends-on-other-channels:ids-sharing-a-derivation-index", detail(&format!("the keys of dbid {} differ between a signer that has only this channel and one that also has the other", d), name));
            }
        }
    }
    r.distinct_hash(vls_verif::rng::fnv_str(&format!("ldk-collision:{}", index % 7)));
}

fn main() {
    let cli = Cli::parse("C18");
    report::install_quiet_panic_hook();
    let start = Instant::now();
    let quick = cli.tier.is_quick();
    let shards = if quick { 16 } else { 64 };
    let cases = cli.scaled(if quick { 16 } else { 40 });
    let max_adv = if quick { 10 } else { 24 };
    let run_len = if quick { 24 } else { 72 };
    let mut report = run_sharded("C18", cli.threads, shards, |i, r| {
        let mut rng = Rng::new(cli.seed.wrapping_mul(1_000_003).wrapping_add(i as u64).wrapping_add(0xC18 << 32));
        for c in 0..cases {
            run_case(&cli, i, c, &mut rng, r, max_adv, run_len);
        }
        // one pair of LDK-style channel ids sharing their derivation index per shard (quick) / four (thorough)
        for _ in 0..(if quick { 1 } else { 4 }) {
            ldk_index_collision_case(&mut rng, r);
        }
    });
    report.require("ldk_index_collision.pairs", 4);
    report.require("case.style.native", 5);
    report.require("case.style.ldk", 5);
    report.require("check.reread", 1000);
    report.require("check.across_setup", 200);
    report.require("check.across_restart", 500);
    report.require("check.cross_world.reordered", 200);
    report.require("check.cross_world.other_channels", 200);
    report.require("check.cross_world.history", 200);
    report.require("check.distinct_pairs", 500);
    report.require("check.native_oracle", 500);
    report.require("secret.released", 200);
    report.require("check.provide_secret", 200);
    report.require("check.secret_times_g_is_point", 500);
    report.require("check.bolt3_pair_derivable", 500);
    report.require("op.setup.with_permanent_id", 20);
    report.require("op.restart.new_starting_time", 100);
    finish(
        report,
        FinishSpec {
            cli: &cli,
            level: "exploration",
            rule: "cases of (random seed, network, native|ldk style, 2-6 target ids incl. same-dbid/other-peer and same-peer/other-dbid pairs, unrelated channels); each case run in 3-4 independent signers (canonical / reordered / unrelated channels interleaved / both) with random setup parameters, permanent ids, real holder commitment updates and restarts from the store; every reading of basepoints, funding key, per-commitment points and released secrets is compared with the previous reading in the same signer (re-read / across setup / across restart) and with the first reading in the other signers; distinct ids must give distinct values per field; released secrets go in order into LDK CounterpartyCommitmentSecrets, are pairwise checked with BOLT-3 derive_secret and secret*G == point; native style also equals an independent HKDF derivation. distinct = (style, network, world kind, field kind, relation checked, stage, route)",
            assumptions: vec![
                "LND style excluded as in the property".into(),
                "channel id = the initial id (id0) given to new_channel; a permanent id passed to setup_channel is an alias".into(),
                "the InMemorySigner inside the slot is read directly as an additional observation of the same key material".into(),
                "secp256k1, SHA-256 and LDK's CounterpartyCommitmentSecrets are trusted".into(),
            ],
            start,
            extra_coverage: Default::default(),
        },
    );
}
