//! C14 — channel monitors depend only on the current best chain.
//!
//! History = phase 1 (a deterministic request plan that creates 1-2 channels on a real `Node`,
//! signs the funding tx and advances the channels by real commitment updates to a state with
//! HTLCs and some known preimages) + phase 2 (blocks only: connects / disconnects of blocks that
//! carry real funding, double-spend, mutual-close, holder / counterparty commitment, sweep and
//! second-level HTLC transactions, in arbitrary grouping, with forks and reorgs).
//!
//! Oracle = deterministic re-execution: a FRESH world replays the phase-1 plan and is fed only the
//! blocks of the surviving best chain, in order (it never sees a disconnect).  After every connect
//! or disconnect the live signer's projection of every channel's monitor `State` + tracker
//! `ListenSlot` must equal the reference's; and after a disconnect it must equal the projection
//! recorded when the chain last stood at that tip (connect-then-disconnect restores the view).
//! Any panic, and any refusal of a by-construction valid block, while processing a block is a
//! violation ("never aborts the signer": the protocol handler turns a refusal into a panic).

use lightning_signer::bitcoin;
use lightning_signer::lightning;
use lightning_signer::txoo;

use bitcoin::absolute::LockTime;
use bitcoin::bip32::{ChildNumber, DerivationPath};
use bitcoin::blockdata::block::Header as BlockHeader;
use bitcoin::blockdata::constants::genesis_block;
use bitcoin::consensus::serialize;
use bitcoin::hash_types::{FilterHeader, TxMerkleNode};
use bitcoin::hashes::{sha256, Hash};
use bitcoin::secp256k1::ecdsa::Signature;
use bitcoin::secp256k1::{All, Keypair, Message, PublicKey, Secp256k1, SecretKey};
use bitcoin::sighash::{EcdsaSighashType, SighashCache};
use bitcoin::transaction::Version;
use bitcoin::{
    merkle_tree, Address, Amount, Block, Network, OutPoint, ScriptBuf, Sequence,
    Transaction, TxIn, TxOut, Txid, WPubkeyHash, Witness,
};
use lightning::ln::chan_utils::{
    build_htlc_transaction, derive_private_key, get_htlc_redeemscript, make_funding_redeemscript,
    ChannelPublicKeys, ChannelTransactionParameters, CommitmentTransaction,
    HTLCOutputInCommitment, TxCreationKeys,
};
use lightning::ln::channel_keys::{DelayedPaymentBasepoint, HtlcBasepoint, RevocationBasepoint};
use lightning::types::payment::{PaymentHash, PaymentPreimage};
use lightning_signer::chain::tracker::Headers;
use lightning_signer::channel::{ChannelBase, ChannelId, ChannelSetup, CommitmentType};
use lightning_signer::node::{Node, SpendType};
use lightning_signer::tx::tx::HTLCInfo2;
use lightning_signer::util::test_utils::{
    make_test_funding_wallet_input, make_test_funding_wallet_output, mine_header_with_bits,
};
use serde_json::{json, Map, Value};
use std::collections::{BTreeMap, BTreeSet};
use std::sync::Arc;
use std::time::Instant;
use txoo::filter::BlockSpendFilter;
use txoo::proof::{ProofType, TxoProof};
use txoo::spv::SpvProof;
use txoo::util::sign_attestation;
use txoo::Attestation;
use vls_verif::oracle::commitment_secret;
use vls_verif::report::{self, finish, run_sharded, FinishSpec};
use vls_verif::rng::fnv_str;
use vls_verif::world::{World, WorldCfg};
use vls_verif::{Cli, Report, Rng};

const INITIAL_COMMITMENT_NUMBER: u64 = (1 << 48) - 1;
/// fee paid by every commitment transaction (sat); keeps policy-commitment-fee-range satisfied for 0..=5 HTLCs
const COMMIT_FEE_SAT: u64 = 2000;

// ---------------------------------------------------------------------------------------------
// Phase 1: plan (pure data, generated from the rng) and its deterministic execution on a world
// ---------------------------------------------------------------------------------------------

#[derive(Clone)]
struct CpKeys {
    funding: SecretKey,
    revocation_base: SecretKey,
    payment: SecretKey,
    delayed_base: SecretKey,
    htlc_base: SecretKey,
    commitment_seed: [u8; 32],
}

impl CpKeys {
    fn gen(rng: &mut Rng) -> CpKeys {
        let mut k = || loop {
            if let Ok(s) = SecretKey::from_slice(&rng.bytes::<32>()) {
                return s;
            }
        };
        CpKeys {
            funding: k(),
            revocation_base: k(),
            payment: k(),
            delayed_base: k(),
            htlc_base: k(),
            commitment_seed: [0u8; 32],
        }
    }
    fn points(&self, secp: &Secp256k1<All>) -> ChannelPublicKeys {
        let p = |s: &SecretKey| PublicKey::from_secret_key(secp, s);
        ChannelPublicKeys {
            funding_pubkey: p(&self.funding),
            revocation_basepoint: RevocationBasepoint(p(&self.revocation_base)),
            payment_point: p(&self.payment),
            delayed_payment_basepoint: DelayedPaymentBasepoint(p(&self.delayed_base)),
            htlc_basepoint: HtlcBasepoint(p(&self.htlc_base)),
        }
    }
    fn secret(&self, n: u64) -> SecretKey {
        SecretKey::from_slice(&commitment_secret(&self.commitment_seed, n)).expect("secret")
    }
    fn point(&self, n: u64, secp: &Secp256k1<All>) -> PublicKey {
        PublicKey::from_secret_key(secp, &self.secret(n))
    }
}

#[derive(Clone)]
struct HtlcPlan {
    /// offered by the holder (outgoing) or received by the holder (incoming)
    offered: bool,
    value_sat: u64,
    cltv: u32,
    preimage: [u8; 32],
    /// the node is told the preimage at the end of phase 1 (`Channel::htlcs_fulfilled`)
    preimage_known: bool,
    /// first commitment number that contains this HTLC
    since: u64,
    /// last commitment number that contains it (u64::MAX: still in flight at the end)
    until: u64,
    /// when removed: fulfilled (value goes to the receiver) or failed (back to the payer)
    fulfilled: bool,
}

impl HtlcPlan {
    fn hash(&self) -> PaymentHash {
        PaymentHash(sha256::Hash::hash(&self.preimage).to_byte_array())
    }
    fn info(&self) -> HTLCInfo2 {
        HTLCInfo2 { value_sat: self.value_sat, payment_hash: self.hash(), cltv_expiry: self.cltv }
    }
}

/// how far the last update got on each side
#[derive(Clone, Copy, Debug, PartialEq)]
enum Tail {
    /// both sides fully at commitment n, counterparty revoked n-1
    Complete,
    /// counterparty commitment n signed, n-1 NOT revoked yet (both n-1 and n can appear on chain)
    CpPrevUnrevoked,
    /// holder commitment n validated but n-1 not revoked yet (current n-1 and next n can appear)
    HolderValidatedNotRevoked,
    /// counterparty at n, holder still at n-1 (holder update did not start)
    HolderBehind,
}

#[derive(Clone)]
struct ChanPlan {
    dbid: u64,
    peer_id: [u8; 33],
    is_outbound: bool,
    value_sat: u64,
    push_msat: u64,
    holder_delay: u16,
    cp_delay: u16,
    feerate: u32,
    cp: CpKeys,
    htlcs: Vec<HtlcPlan>,
    /// number of commitment updates after commitment 0
    updates: u64,
    tail: Tail,
    /// funding group (channels of one group share a funding tx)
    group: usize,
}

#[derive(Clone)]
struct GroupPlan {
    /// the holder funds (wallet inputs, signed by the node) or the counterparty does
    holder_funds: bool,
    n_inputs: usize,
    wallet_base: u32,
    input_value: u64,
}

#[derive(Clone)]
struct Plan {
    node_seed: [u8; 32],
    prefix_blocks: usize,
    groups: Vec<GroupPlan>,
    chans: Vec<ChanPlan>,
}

impl Plan {
    fn gen(rng: &mut Rng) -> Plan {
        let node_seed = rng.bytes::<32>();
        let prefix_blocks = rng.usize(4);
        let layout = rng.weighted(&[30, 20, 25, 25]);
        // 0: one funder channel; 1: two funder channels in one funding tx;
        // 2: funder channel + fundee channel (two funding txs); 3: one fundee channel
        let (groups, chan_groups): (Vec<bool>, Vec<usize>) = match layout {
            0 => (vec![true], vec![0]),
            1 => (vec![true], vec![0, 0]),
            2 => (vec![true, false], vec![0, 1]),
            _ => (vec![false], vec![0]),
        };
        let groups: Vec<GroupPlan> = groups
            .iter()
            .enumerate()
            .map(|(i, f)| GroupPlan {
                holder_funds: *f,
                n_inputs: 1 + rng.usize(2),
                wallet_base: 10 + 10 * i as u32,
                input_value: 0,
            })
            .collect();
        let mut chans = vec![];
        for (ci, g) in chan_groups.iter().enumerate() {
            let is_outbound = groups[*g].holder_funds;
            let value_sat = rng.range(2_000_000, 6_000_000);
            let push_msat = if is_outbound {
                // policy-onchain-no-channel-push: the funder cannot push
                0
            } else {
                // a fundee gets its initial balance by push
                rng.range(400, 900) * 1_000_000
            };
            let mut cp = CpKeys::gen(rng);
            cp.commitment_seed = rng.bytes::<32>();
            let updates = rng.range(0, 4);
            let mut htlcs: Vec<HtlcPlan> = vec![];
            // running balances, so that every commitment is affordable by the paying side
            let push = push_msat / 1000;
            let (mut h, mut p) = if is_outbound { (value_sat - push - COMMIT_FEE_SAT, push) } else { (push, value_sat - push - COMMIT_FEE_SAT) };
            for n in 1..=updates {
                for x in htlcs.iter_mut() {
                    if x.until == u64::MAX && x.since < n && rng.chance(1, 4) {
                        x.until = n - 1;
                        x.fulfilled = rng.chance(2, 3);
                        match (x.offered, x.fulfilled) {
                            (true, true) | (false, false) => p += x.value_sat,
                            _ => h += x.value_sat,
                        }
                    }
                }
                for _ in 0..rng.range(0, 2) {
                    let value_sat = rng.range(5_000, 60_000);
                    let mut offered = rng.bool();
                    if offered && h < value_sat + 10_000 {
                        offered = false;
                    }
                    if !offered && p < value_sat + 10_000 {
                        offered = true;
                    }
                    if offered && h < value_sat + 10_000 {
                        continue;
                    }
                    if offered { h -= value_sat } else { p -= value_sat }
                    htlcs.push(HtlcPlan {
                        offered,
                        value_sat,
                        cltv: rng.range(50, 400) as u32,
                        preimage: rng.bytes::<32>(),
                        preimage_known: rng.chance(1, 2),
                        since: n,
                        until: u64::MAX,
                        fulfilled: false,
                    });
                }
            }
            let tail = if updates == 0 {
                Tail::Complete
            } else {
                *rng.pick(&[
                    Tail::Complete,
                    Tail::Complete,
                    Tail::CpPrevUnrevoked,
                    Tail::HolderValidatedNotRevoked,
                    Tail::HolderBehind,
                ])
            };
            let mut peer_id = [2u8; 33];
            peer_id[1..].copy_from_slice(&rng.bytes::<32>());
            chans.push(ChanPlan {
                dbid: 1 + ci as u64,
                peer_id,
                is_outbound,
                value_sat,
                push_msat,
                holder_delay: rng.range(4, 144) as u16,
                cp_delay: rng.range(4, 144) as u16,
                feerate: *rng.pick(&[253u32, 1000, 2500]),
                cp,
                htlcs,
                updates,
                tail,
                group: *g,
            });
        }
        let mut plan = Plan { node_seed, prefix_blocks, groups, chans };
        for gi in 0..plan.groups.len() {
            let total: u64 =
                plan.chans.iter().filter(|c| c.group == gi).map(|c| c.value_sat).sum();
            let n = plan.groups[gi].n_inputs as u64;
            plan.groups[gi].input_value = (total + 500_000) / n + 1;
        }
        plan
    }

    fn summary(&self) -> Value {
        json!({
            "node_seed": hex::encode(self.node_seed),
            "prefix_blocks": self.prefix_blocks,
            "groups": self.groups.iter().map(|g| json!({"holder_funds": g.holder_funds, "n_inputs": g.n_inputs})).collect::<Vec<_>>(),
            "channels": self.chans.iter().map(|c| json!({
                "dbid": c.dbid, "outbound": c.is_outbound, "value_sat": c.value_sat, "push_msat": c.push_msat,
                "updates": c.updates, "tail": format!("{:?}", c.tail), "feerate": c.feerate, "group": c.group,
                "htlcs": c.htlcs.iter().map(|h| json!({"offered": h.offered, "value_sat": h.value_sat, "cltv": h.cltv,
                    "since": h.since, "until": if h.until == u64::MAX { json!("end") } else { json!(h.until) }, "fulfilled": h.fulfilled, "preimage_known": h.preimage_known, "hash": hex::encode(h.hash().0)})).collect::<Vec<_>>(),
            })).collect::<Vec<_>>(),
        })
    }
}

/// balances and HTLC sets of commitment n (same content on both sides)
struct CommitContent {
    to_holder: u64,
    to_cp: u64,
    offered: Vec<HTLCInfo2>,
    received: Vec<HTLCInfo2>,
}

fn content_at(c: &ChanPlan, n: u64) -> CommitContent {
    let push = c.push_msat / 1000;
    // the funder pays the commitment fee
    let (mut h, mut p) = if c.is_outbound {
        (c.value_sat - push - COMMIT_FEE_SAT, push)
    } else {
        (push, c.value_sat - push - COMMIT_FEE_SAT)
    };
    let mut offered = vec![];
    let mut received = vec![];
    for x in c.htlcs.iter().filter(|x| x.since <= n) {
        if n > x.until {
            match (x.offered, x.fulfilled) {
                (true, true) => { h -= x.value_sat; p += x.value_sat }
                (false, true) => { p -= x.value_sat; h += x.value_sat }
                _ => {}
            }
            continue;
        }
        if x.offered {
            h -= x.value_sat;
            offered.push(x.info());
        } else {
            p -= x.value_sat;
            received.push(x.info());
        }
    }
    CommitContent { to_holder: h, to_cp: p, offered, received }
}

/// A closing-transaction candidate produced by phase 1
#[derive(Clone)]
#[allow(dead_code)]
struct CloseCand {
    label: &'static str,
    holder_broadcast: bool,
    commit_num: u64,
    tx: Transaction,
    to_us: Option<u32>,
    to_them: Option<u32>,
    /// (vout, offered by broadcaster, expected to be tracked by the monitor [label only], second-level tx if holder-broadcast)
    htlcs: Vec<(u32, bool, bool, Option<Transaction>)>,
}

#[derive(Clone)]
#[allow(dead_code)]
struct ChanCtx {
    id: ChannelId,
    group: usize,
    is_outbound: bool,
    funding_outpoint: OutPoint,
    closes: Vec<CloseCand>,
}

#[derive(Clone)]
struct FundingGroup {
    holder_funds: bool,
    tx: Transaction,
    /// the (already confirmed, pre-existing) outputs the funding tx spends
    inputs: Vec<(OutPoint, TxOut)>,
}

#[derive(Clone)]
struct Setup {
    chans: Vec<ChanCtx>,
    groups: Vec<FundingGroup>,
}

fn st<T, E: std::fmt::Debug>(what: &str, r: Result<T, E>) -> Result<T, String> {
    r.map_err(|e| format!("{}: {:?}", what, e))
}

fn oic(offered_by_broadcaster: &[HTLCInfo2], received_by_broadcaster: &[HTLCInfo2]) -> Vec<HTLCOutputInCommitment> {
    let mut v = vec![];
    for (list, off) in [(offered_by_broadcaster, true), (received_by_broadcaster, false)] {
        for h in list {
            v.push(HTLCOutputInCommitment {
                offered: off,
                amount_msat: h.value_sat * 1000,
                cltv_expiry: h.cltv_expiry,
                payment_hash: h.payment_hash,
                transaction_output_index: None,
            });
        }
    }
    v
}

/// BOLT-3 commitment transaction of either side, built with LDK from the channel parameters
fn build_commitment(
    secp: &Secp256k1<All>,
    params: &ChannelTransactionParameters,
    holder_broadcast: bool,
    n: u64,
    per_commitment_point: &PublicKey,
    feerate: u32,
    to_broadcaster: u64,
    to_countersignatory: u64,
    htlcs: Vec<HTLCOutputInCommitment>,
) -> (CommitmentTransaction, TxCreationKeys) {
    let directed =
        if holder_broadcast { params.as_holder_broadcastable() } else { params.as_counterparty_broadcastable() };
    let keys = TxCreationKeys::from_channel_static_keys(
        per_commitment_point,
        directed.broadcaster_pubkeys(),
        directed.countersignatory_pubkeys(),
        secp,
    );
    let mut with_aux: Vec<(HTLCOutputInCommitment, ())> = htlcs.into_iter().map(|h| (h, ())).collect();
    let tx = CommitmentTransaction::new_with_auxiliary_htlc_data(
        INITIAL_COMMITMENT_NUMBER - n,
        to_broadcaster,
        to_countersignatory,
        directed.broadcaster_pubkeys().funding_pubkey,
        directed.countersignatory_pubkeys().funding_pubkey,
        keys.clone(),
        feerate,
        &mut with_aux,
        &directed,
    );
    (tx, keys)
}

/// the counterparty's signatures on a holder commitment (commitment sig + one per HTLC)
fn cp_sign_holder_commitment(
    secp: &Secp256k1<All>,
    params: &ChannelTransactionParameters,
    cp: &CpKeys,
    value_sat: u64,
    point: &PublicKey,
    commit: &CommitmentTransaction,
    keys: &TxCreationKeys,
) -> (Signature, Vec<Signature>) {
    let cpp = &params.counterparty_parameters.as_ref().unwrap().pubkeys;
    let redeem = make_funding_redeemscript(&params.holder_pubkeys.funding_pubkey, &cpp.funding_pubkey);
    let trusted = commit.trust();
    let built = trusted.built_transaction();
    let sig = built.sign_counterparty_commitment(&cp.funding, &redeem, value_sat, secp);
    let htlc_key = derive_private_key(secp, point, &cp.htlc_base);
    let contest_delay = params.counterparty_parameters.as_ref().unwrap().selected_contest_delay;
    let mut sigs = vec![];
    for htlc in commit.htlcs() {
        let htlc_tx = build_htlc_transaction(
            &built.txid,
            commit.feerate_per_kw(),
            contest_delay,
            htlc,
            &params.channel_type_features,
            &keys.broadcaster_delayed_payment_key,
            &keys.revocation_key,
        );
        let script = get_htlc_redeemscript(htlc, &params.channel_type_features, keys);
        let sighash = SighashCache::new(&htlc_tx)
            .p2wsh_signature_hash(0, &script, Amount::from_sat(htlc.amount_msat / 1000), EcdsaSighashType::All)
            .unwrap();
        sigs.push(secp.sign_ecdsa(&Message::from_digest(sighash.to_byte_array()), &htlc_key));
    }
    (sig, sigs)
}

fn make_close_cand(
    label: &'static str,
    holder_broadcast: bool,
    n: u64,
    commit: &CommitmentTransaction,
    keys: &TxCreationKeys,
    params: &ChannelTransactionParameters,
    content: &CommitContent,
    known: &BTreeSet<[u8; 32]>,
) -> CloseCand {
    let tx = commit.trust().built_transaction().transaction.clone();
    let txid = tx.compute_txid();
    let htlc_vouts: BTreeSet<u32> = commit.htlcs().iter().filter_map(|h| h.transaction_output_index).collect();
    let (to_b, to_c) = if holder_broadcast { (content.to_holder, content.to_cp) } else { (content.to_cp, content.to_holder) };
    let mut b_idx = None;
    let mut c_idx = None;
    for (i, o) in tx.output.iter().enumerate() {
        if htlc_vouts.contains(&(i as u32)) {
            continue;
        }
        // to_local is a p2wsh, to_remote a p2wpkh (static_remotekey)
        if o.script_pubkey.is_p2wsh() && o.value.to_sat() == to_b {
            b_idx = Some(i as u32);
        } else if o.script_pubkey.is_p2wpkh() && o.value.to_sat() == to_c {
            c_idx = Some(i as u32);
        }
    }
    let (to_us, to_them) = if holder_broadcast { (b_idx, c_idx) } else { (c_idx, b_idx) };
    let contest_delay = params.counterparty_parameters.as_ref().unwrap().selected_contest_delay;
    let htlcs = commit
        .htlcs()
        .iter()
        .filter_map(|h| {
            let vout = h.transaction_output_index?;
            // BOLT-3 / BOLT-5 reading of "spendable by us": an HTLC we offered comes back by timeout;
            // an HTLC we received needs the preimage.  Used for labels and coverage counters only.
            let ours_offered = h.offered == holder_broadcast;
            let tracked = ours_offered || known.contains(&h.payment_hash.0);
            let second = if holder_broadcast {
                Some(build_htlc_transaction(
                    &txid,
                    commit.feerate_per_kw(),
                    contest_delay,
                    h,
                    &params.channel_type_features,
                    &keys.broadcaster_delayed_payment_key,
                    &keys.revocation_key,
                ))
            } else {
                None
            };
            Some((vout, h.offered, tracked, second))
        })
        .collect();
    CloseCand { label, holder_broadcast, commit_num: n, tx, to_us, to_them, htlcs }
}

fn wallet_path(i: u32) -> DerivationPath {
    vec![ChildNumber::from_normal_idx(i).unwrap()].into()
}

fn p2wpkh_of(tag: &[u8]) -> ScriptBuf {
    let h = bitcoin::hashes::hash160::Hash::hash(tag);
    ScriptBuf::new_p2wpkh(&WPubkeyHash::from_raw_hash(h))
}

/// Execute the phase-1 plan on a world.  `prefix` = the empty blocks connected before the channels exist.
/// Deterministic: the same plan on a fresh world with the same node seed yields the same `Setup`.
fn phase1(world: &World, plan: &Plan, prefix: &[Blk], genesis_fh: &FilterHeader, log: &mut Vec<Value>, setup_fault: Option<usize>) -> Result<Setup, String> {
    let secp = Secp256k1::new();
    let node: &Arc<Node> = &world.node;
    let mut prev_fh = *genesis_fh;
    for b in prefix {
        match feed_connect(node, b, &prev_fh, Mode::Compact, 0) {
            Ok(Ok(())) => {}
            other => return Err(format!("prefix block refused: {:?}", other)),
        }
        prev_fh = b.filter_header;
        log.push(json!({"op": "add_block(prefix)", "height": b.height}));
    }

    // 1. stubs
    let mut ids = vec![];
    let mut holder_points = vec![];
    for c in &plan.chans {
        let (id, _) = st("new_channel", node.new_channel(c.dbid, &c.peer_id, node))?;
        let pts = st("basepoints", node.with_channel_base(&id, |b| Ok(b.get_channel_basepoints())))?;
        log.push(json!({"op": "new_channel", "dbid": c.dbid, "channel_id": hex::encode(id.as_slice())}));
        ids.push(id);
        holder_points.push(pts);
    }

    // 2. funding transactions
    let mut groups = vec![];
    let mut funding_outpoints: Vec<Option<OutPoint>> = vec![None; plan.chans.len()];
    let mut sign_ctx = vec![];
    for (gi, g) in plan.groups.iter().enumerate() {
        let mut inputs = vec![];
        let mut txins = vec![];
        let mut ipaths = vec![];
        for k in 0..g.n_inputs {
            let widx = g.wallet_base + k as u32;
            if g.holder_funds {
                let (prev_tx, txin) = make_test_funding_wallet_input(node, SpendType::P2wpkh, widx, g.input_value + k as u64);
                inputs.push((txin.previous_output, prev_tx.output[0].clone()));
                txins.push(txin);
                ipaths.push(wallet_path(widx));
            } else {
                let txid = Txid::from_byte_array(sha256::Hash::hash(&[&plan.node_seed[..], &[gi as u8, k as u8, 0xfe]].concat()).to_byte_array());
                let op = OutPoint { txid, vout: k as u32 };
                let out = TxOut { value: Amount::from_sat(g.input_value), script_pubkey: p2wpkh_of(&[gi as u8, k as u8, 1]) };
                inputs.push((op, out));
                txins.push(TxIn { previous_output: op, script_sig: ScriptBuf::new(), sequence: Sequence::ZERO, witness: Witness::default() });
            }
        }
        let mut outputs = vec![];
        let mut opaths = vec![];
        let total_in: u64 = inputs.iter().map(|(_, o)| o.value.to_sat()).sum();
        let mut total_chan = 0;
        let members: Vec<usize> = (0..plan.chans.len()).filter(|i| plan.chans[*i].group == gi).collect();
        // change first or last, so that the funding vout is not always 0
        let change_first = plan.chans[members[0]].value_sat % 2 == 0;
        let fee = 1500;
        for ci in &members {
            total_chan += plan.chans[*ci].value_sat;
        }
        let change = total_in - total_chan - fee;
        let change_out = if g.holder_funds {
            make_test_funding_wallet_output(node, g.wallet_base + 5, change, SpendType::P2wpkh)
        } else {
            TxOut { value: Amount::from_sat(change), script_pubkey: p2wpkh_of(&[gi as u8, 2]) }
        };
        if change_first {
            outputs.push(change_out.clone());
            opaths.push(if g.holder_funds { wallet_path(g.wallet_base + 5) } else { vec![].into() });
        }
        let mut vouts = vec![];
        for ci in &members {
            let c = &plan.chans[*ci];
            let redeem = make_funding_redeemscript(&holder_points[*ci].funding_pubkey, &c.cp.points(&secp).funding_pubkey);
            vouts.push((*ci, outputs.len() as u32));
            outputs.push(TxOut { value: Amount::from_sat(c.value_sat), script_pubkey: Address::p2wsh(&redeem, Network::Regtest).script_pubkey() });
            opaths.push(vec![].into());
        }
        if !change_first {
            outputs.push(change_out);
            opaths.push(if g.holder_funds { wallet_path(g.wallet_base + 5) } else { vec![].into() });
        }
        let tx = Transaction { version: Version::TWO, lock_time: LockTime::ZERO, input: txins, output: outputs };
        let txid = tx.compute_txid();
        for (ci, vout) in vouts {
            funding_outpoints[ci] = Some(OutPoint { txid, vout });
        }
        sign_ctx.push((ipaths, opaths));
        groups.push(FundingGroup { holder_funds: g.holder_funds, tx, inputs });
    }

    // 3. setup_channel + initial commitments
    let mut params_v = vec![];
    for (ci, c) in plan.chans.iter().enumerate() {
        let setup = ChannelSetup {
            is_outbound: c.is_outbound,
            channel_value_sat: c.value_sat,
            push_value_msat: c.push_msat,
            funding_outpoint: funding_outpoints[ci].unwrap(),
            holder_selected_contest_delay: c.holder_delay,
            holder_shutdown_script: None,
            counterparty_points: c.cp.points(&secp),
            counterparty_selected_contest_delay: c.cp_delay,
            counterparty_shutdown_script: None,
            commitment_type: CommitmentType::StaticRemoteKey,
        };
        if setup_fault == Some(ci) {
            // the live signer only: the store is unavailable for the first write of this setup_channel; the
            // request fails and the node sends it again.  The channel's monitor must end up registered all the
            // same - the views below are compared with a signer that never saw a failure.
            world.store.arm_faults(0, 1);
            let first = report::catch(|| node.setup_channel(ids[ci].clone(), None, setup.clone(), &DerivationPath::master()).map(|_| ()).map_err(|e| format!("{:?}", e)));
            let fired = world.store.disarm_faults();
            log.push(json!({"op": "setup_channel under a storage failure", "channel": ci, "result": format!("{:?}", first).chars().take(100).collect::<String>(), "writes_failed": fired}));
            match first {
                Err(p) => return Err(format!("setup_channel died under the storage failure: {}", p.chars().take(80).collect::<String>())),
                Ok(Ok(())) => {}
                Ok(Err(_)) => {
                    st("setup_channel (retry after storage failure)", node.setup_channel(ids[ci].clone(), None, setup, &DerivationPath::master()))?;
                    log.push(json!({"op": "setup_channel retried", "channel": ci}));
                }
            }
        } else {
            st("setup_channel", node.setup_channel(ids[ci].clone(), None, setup, &DerivationPath::master()))?;
        }
        log.push(json!({"op": "setup_channel", "channel": ci, "funding_outpoint": funding_outpoints[ci].unwrap().to_string()}));
        let params = st("params", node.with_channel(&ids[ci], |ch| Ok(ch.make_channel_parameters())))?;
        params_v.push(params);
        holder_update(node, &secp, &ids[ci], c, &params_v[ci], 0, true, log)?;
        cp_update(node, &secp, &ids[ci], c, 0, log)?;
    }

    // 4. the funder signs the funding tx (registers the input watches and the monitor's funding inputs)
    for (gi, g) in groups.iter_mut().enumerate() {
        if !g.holder_funds {
            continue;
        }
        let (ipaths, opaths) = &sign_ctx[gi];
        let prev_outs: Vec<TxOut> = g.inputs.iter().map(|(_, o)| o.clone()).collect();
        let flags = vec![true; g.tx.input.len()];
        let uck: Vec<Option<(SecretKey, Vec<Vec<u8>>)>> = vec![None; g.tx.input.len()];
        st("check_onchain_tx", node.check_onchain_tx(&g.tx, &flags, &prev_outs, &uck, opaths))?;
        let wit = st("unchecked_sign_onchain_tx", node.unchecked_sign_onchain_tx(&g.tx, ipaths, &prev_outs, uck))?;
        for (i, w) in wit.iter().enumerate() {
            g.tx.input[i].witness = Witness::from_slice(w);
        }
        log.push(json!({"op": "check_onchain_tx+unchecked_sign_onchain_tx", "group": gi, "txid": g.tx.compute_txid().to_string()}));
    }

    // 5. commitment updates
    let mut chans = vec![];
    for (ci, c) in plan.chans.iter().enumerate() {
        let id = &ids[ci];
        for n in 1..=c.updates {
            for h in c.htlcs.iter().filter(|h| h.since == n && h.offered) {
                // an outgoing HTLC must be backed by an approved payment
                st("add_keysend", node.add_keysend(PublicKey::from_secret_key(&secp, &c.cp.payment), h.hash(), h.value_sat * 1000))?;
            }
            let settled: Vec<PaymentPreimage> = c.htlcs.iter().filter(|h| h.offered && h.fulfilled && h.until == n - 1).map(|h| PaymentPreimage(h.preimage)).collect();
            if !settled.is_empty() {
                let k = settled.clone();
                st("htlcs_fulfilled", node.with_channel(id, move |ch| { ch.htlcs_fulfilled(k); Ok(()) }))?;
                log.push(json!({"op": "htlcs_fulfilled", "channel": ci, "count": settled.len(), "before_update": n}));
            }
            let last = n == c.updates;
            cp_update(node, &secp, id, c, n, log)?;
            if !(last && c.tail == Tail::CpPrevUnrevoked) {
                let secret = c.cp.secret(n - 1);
                st("validate_counterparty_revocation", node.with_channel(id, |ch| ch.validate_counterparty_revocation(n - 1, &secret)))?;
                log.push(json!({"op": "validate_counterparty_revocation", "channel": ci, "n": n - 1}));
            }
            if last && c.tail == Tail::HolderBehind {
                continue;
            }
            let revoke = !(last && c.tail == Tail::HolderValidatedNotRevoked);
            holder_update(node, &secp, id, c, &params_v[ci], n, revoke, log)?;
        }
        let known: Vec<PaymentPreimage> = c.htlcs.iter().filter(|h| h.preimage_known && h.until == u64::MAX).map(|h| PaymentPreimage(h.preimage)).collect();
        if !known.is_empty() {
            let k = known.clone();
            st("htlcs_fulfilled", node.with_channel(id, move |ch| { ch.htlcs_fulfilled(k); Ok(()) }))?;
            log.push(json!({"op": "htlcs_fulfilled", "channel": ci, "count": known.len()}));
        }

        // closing candidates: exactly the commitments the channel can still decode
        let known_hashes: BTreeSet<[u8; 32]> = c.htlcs.iter().filter(|h| (h.preimage_known && h.until == u64::MAX) || (h.offered && h.fulfilled)).map(|h| h.hash().0).collect();
        let mut closes = vec![];
        let n = c.updates;
        let holder_cur = if n > 0 && (c.tail == Tail::HolderBehind || c.tail == Tail::HolderValidatedNotRevoked) { n - 1 } else { n };
        let mut holder_nums = vec![("holder-commitment(current)", holder_cur)];
        if c.tail == Tail::HolderValidatedNotRevoked {
            holder_nums.push((K_HOLDER_NEXT, n));
        }
        for (label, k) in holder_nums {
            let content = content_at(c, k);
            let point = st("point", node.with_channel(id, |ch| ch.get_per_commitment_point(k)))?;
            let (commit, keys) = build_commitment(&secp, &params_v[ci], true, k, &point, c.feerate, content.to_holder, content.to_cp, oic(&content.offered, &content.received));
            closes.push(make_close_cand(label, true, k, &commit, &keys, &params_v[ci], &content, &known_hashes));
        }
        let mut cp_nums = vec![("counterparty-commitment(current)", n)];
        if c.tail == Tail::CpPrevUnrevoked {
            cp_nums.push((K_CP_PREV, n - 1));
        }
        for (label, k) in cp_nums {
            let content = content_at(c, k);
            let point = c.cp.point(k, &secp);
            let (commit, keys) = build_commitment(&secp, &params_v[ci], false, k, &point, c.feerate, content.to_cp, content.to_holder, oic(&content.received, &content.offered));
            closes.push(make_close_cand(label, false, k, &commit, &keys, &params_v[ci], &content, &known_hashes));
        }
        chans.push(ChanCtx { id: id.clone(), group: c.group, is_outbound: c.is_outbound, funding_outpoint: funding_outpoints[ci].unwrap(), closes });
    }
    Ok(Setup { chans, groups })
}

/// the counterparty signs holder commitment n; the node validates it (and revokes n-1 / activates 0)
fn holder_update(
    node: &Arc<Node>,
    secp: &Secp256k1<All>,
    id: &ChannelId,
    c: &ChanPlan,
    params: &ChannelTransactionParameters,
    n: u64,
    revoke: bool,
    log: &mut Vec<Value>,
) -> Result<(), String> {
    let content = content_at(c, n);
    let point = st("get_per_commitment_point", node.with_channel(id, |ch| ch.get_per_commitment_point(n)))?;
    let (commit, keys) = build_commitment(secp, params, true, n, &point, c.feerate, content.to_holder, content.to_cp, oic(&content.offered, &content.received));
    let (sig, hsigs) = cp_sign_holder_commitment(secp, params, &c.cp, c.value_sat, &point, &commit, &keys);
    st(
        "validate_holder_commitment_tx_phase2",
        node.with_channel(id, |ch| {
            ch.validate_holder_commitment_tx_phase2(n, c.feerate, content.to_holder, content.to_cp, content.offered.clone(), content.received.clone(), &sig, &hsigs)
        }),
    )?;
    log.push(json!({"op": "validate_holder_commitment_tx_phase2", "dbid": c.dbid, "n": n, "to_holder": content.to_holder, "to_cp": content.to_cp,
        "offered": content.offered.len(), "received": content.received.len()}));
    if n == 0 {
        st("activate_initial_commitment", node.with_channel(id, |ch| ch.activate_initial_commitment()))?;
        log.push(json!({"op": "activate_initial_commitment", "dbid": c.dbid}));
    } else if revoke {
        st("revoke_previous_holder_commitment", node.with_channel(id, |ch| ch.revoke_previous_holder_commitment(n)))?;
        log.push(json!({"op": "revoke_previous_holder_commitment", "dbid": c.dbid, "n": n}));
    }
    Ok(())
}

/// the node signs counterparty commitment n
fn cp_update(node: &Arc<Node>, secp: &Secp256k1<All>, id: &ChannelId, c: &ChanPlan, n: u64, log: &mut Vec<Value>) -> Result<(), String> {
    let content = content_at(c, n);
    let point = c.cp.point(n, secp);
    st(
        "sign_counterparty_commitment_tx_phase2",
        node.with_channel(id, |ch| {
            // HTLC directions are from the broadcaster's (counterparty's) side here
            ch.sign_counterparty_commitment_tx_phase2(&point, n, c.feerate, content.to_holder, content.to_cp, content.received.clone(), content.offered.clone())
        }),
    )?;
    log.push(json!({"op": "sign_counterparty_commitment_tx_phase2", "dbid": c.dbid, "n": n}));
    Ok(())
}

// ---------------------------------------------------------------------------------------------
// Blocks, proofs, delivery
// ---------------------------------------------------------------------------------------------

#[derive(Clone)]
struct Blk {
    block: Block,
    /// index of the parent in `ChainModel::blocks`, None = regtest genesis
    parent: Option<usize>,
    height: u32,
    filter_header: FilterHeader,
    /// pool indices of the non-coinbase transactions
    txs: Vec<usize>,
}

#[derive(Clone, Copy, Debug, PartialEq)]
enum Mode {
    Compact,
    Streamed,
}

fn oracle_keypair(secp: &Secp256k1<All>) -> Keypair {
    // no trusted oracle is configured in these worlds: any well-formed attestation is accepted,
    // the proof itself (SPV part + spend filter + filter-header chain) is still verified.
    Keypair::from_secret_key(secp, &SecretKey::from_slice(&[0x5a; 32]).unwrap())
}

fn make_coinbase(height: u32, unique: u64) -> Transaction {
    let mut script = vec![4u8];
    script.extend_from_slice(&height.to_le_bytes());
    script.push(8);
    script.extend_from_slice(&unique.to_le_bytes());
    Transaction {
        version: Version::ONE,
        lock_time: LockTime::ZERO,
        input: vec![TxIn { previous_output: OutPoint::null(), script_sig: ScriptBuf::from_bytes(script), sequence: Sequence::MAX, witness: Witness::default() }],
        output: vec![TxOut { value: Amount::from_sat(50_0000_0000), script_pubkey: p2wpkh_of(&unique.to_le_bytes()) }],
    }
}

fn make_blk(prev_header: &BlockHeader, prev_fh: &FilterHeader, parent: Option<usize>, height: u32, unique: u64, txs: Vec<Transaction>, pool_idx: Vec<usize>) -> Blk {
    let mut txdata = vec![make_coinbase(height, unique)];
    txdata.extend(txs);
    let root = merkle_tree::calculate_root(txdata.iter().map(|t| t.compute_txid().to_raw_hash())).unwrap();
    let header = mine_header_with_bits(prev_header.block_hash(), TxMerkleNode::from_raw_hash(root), prev_header.bits);
    let block = Block { header, txdata };
    let filter_header = BlockSpendFilter::from_block(&block).filter_header(prev_fh);
    Blk { block, parent, height, filter_header, txs: pool_idx }
}

/// What the production prover (txoo `TxoProof::prove`, feature `prover`) does, from its public parts:
/// SPV part for the watched txids / outpoints and their in-block descendants, the block's spend
/// filter, and an attestation over (hash, height, filter header).  Returns None when the filter has
/// a false positive (the production prover then ships the whole block, i.e. streamed delivery).
fn prove(secp: &Secp256k1<All>, blk: &Blk, prev_fh: &FilterHeader, txids: &[Txid], outpoints: &[OutPoint], external: bool) -> Option<TxoProof> {
    let filter = BlockSpendFilter::from_block(&blk.block);
    let fh = filter.filter_header(prev_fh);
    debug_assert_eq!(fh, blk.filter_header);
    let hash = blk.block.block_hash();
    let att = Attestation { block_hash: hash, block_height: blk.height, filter_header: fh, time: 0 };
    let signed = sign_attestation(att, &oracle_keypair(secp), secp);
    let pk = oracle_keypair(secp).public_key();
    if external {
        return Some(TxoProof { attestations: vec![(pk, signed)], proof: ProofType::ExternalBlock() });
    }
    let (spv, _spent, unspent) = SpvProof::build(&blk.block, txids, outpoints);
    if !unspent.is_empty() && filter.match_any(&hash, &mut unspent.iter()) {
        return None;
    }
    Some(TxoProof { attestations: vec![(pk, signed)], proof: ProofType::Filter(filter.content, spv) })
}

fn stream_block(node: &Arc<Node>, blk: &Blk, chunk_seed: u64) {
    let bytes = serialize(&blk.block);
    let hash = blk.block.block_hash();
    let mut tracker = node.get_tracker();
    let mut off = 0usize;
    let mut r = Rng::new(chunk_seed);
    while off < bytes.len() {
        let len = (1 + r.usize(300)).min(bytes.len() - off);
        tracker.block_chunk(hash, off as u32, &bytes[off..off + len]).expect("block_chunk");
        off += len;
    }
}

type Fed = Result<Result<(), String>, String>; // outer Err = panic, inner Err = refusal

/// AddBlock as the protocol handler does it: (BlockChunk*,) tracker.add_block, persist tracker
/// What a frontend following the chain does: it asks the signer over the protocol which transactions and
/// outpoints a proof must cover (`ForwardWatches` before connecting, `ReverseWatches` before disconnecting).
/// Half of the compact deliveries build their proof from these replies rather than from the tracker directly.
fn watches_via_handler(node: &Arc<Node>, reverse: bool) -> Result<(Vec<Txid>, Vec<OutPoint>), String> {
    use vls_protocol::model::Bip32KeyVersion;
    use vls_protocol::msgs::{self, Message};
    use vls_protocol_signer::approver::PositiveApprover;
    use vls_protocol_signer::handler::{Handler, InitHandler, RootHandler};
    let mut init = InitHandler::new(0, node.clone(), Arc::new(PositiveApprover()), 6);
    init.handle(Message::HsmdInit(msgs::HsmdInit {
        key_version: Bip32KeyVersion { pubkey_version: 0x043587CF, privkey_version: 0x04358394 },
        chain_params: lightning_signer::bitcoin::BlockHash::all_zeros(),
        encryption_key: None,
        dev_privkey: None,
        dev_bip32_seed: None,
        dev_channel_secrets: None,
        dev_channel_secrets_shaseed: None,
        hsm_wire_min_version: 2,
        hsm_wire_max_version: 6,
    }))
    .map_err(|e| format!("hsmd init: {:?}", e))?;
    let root: RootHandler = init.into();
    let reply = if reverse { root.handle(Message::ReverseWatches(msgs::ReverseWatches {})) } else { root.handle(Message::ForwardWatches(msgs::ForwardWatches {})) }.map_err(|e| format!("watches request: {:?}", e))?;
    if let Some(r) = reply.as_any().downcast_ref::<msgs::ForwardWatchesReply>() {
        return Ok((r.txids.0.clone(), r.outpoints.0.clone()));
    }
    if let Some(r) = reply.as_any().downcast_ref::<msgs::ReverseWatchesReply>() {
        return Ok((r.txids.0.clone(), r.outpoints.0.clone()));
    }
    Err("unexpected reply to a watches request".into())
}

fn feed_connect(node: &Arc<Node>, blk: &Blk, prev_fh: &FilterHeader, mode: Mode, chunk_seed: u64) -> Fed {
    report::catch(|| {
        let secp = Secp256k1::new();
        let mut mode = mode;
        let compact = if mode == Mode::Compact {
            let (txids, outpoints) = if chunk_seed % 2 == 1 { watches_via_handler(node, false)? } else { node.get_tracker().get_all_forward_watches() };
            let p = prove(&secp, blk, prev_fh, &txids, &outpoints, false);
            if p.is_none() {
                mode = Mode::Streamed;
            }
            p
        } else {
            None
        };
        let proof = match compact {
            Some(p) => p,
            None => {
                stream_block(node, blk, chunk_seed);
                prove(&secp, blk, prev_fh, &[], &[], true).unwrap()
            }
        };
        let _ = mode;
        let mut tracker = node.get_tracker();
        match tracker.add_block(blk.block.header, proof) {
            Ok(()) => {}
            Err(e) => return Err(format!("add_block: {:?}", e)),
        }
        node.get_persister().update_tracker(&node.get_id(), &tracker).map_err(|e| format!("update_tracker: {:?}", e))?;
        Ok(())
    })
}

/// RemoveBlock as the protocol handler does it
fn feed_disconnect(node: &Arc<Node>, blk: &Blk, prev: &Headers, mode: Mode, chunk_seed: u64) -> Fed {
    report::catch(|| {
        let secp = Secp256k1::new();
        let compact = if mode == Mode::Compact {
            let (txids, outpoints) = if chunk_seed % 2 == 1 { watches_via_handler(node, true)? } else { node.get_tracker().get_all_reverse_watches() };
            prove(&secp, blk, &prev.1, &txids, &outpoints, false)
        } else {
            None
        };
        let proof = match compact {
            Some(p) => p,
            None => {
                stream_block(node, blk, chunk_seed);
                prove(&secp, blk, &prev.1, &[], &[], true).unwrap()
            }
        };
        let mut tracker = node.get_tracker();
        match tracker.remove_block(proof, prev.clone()) {
            Ok(_) => {}
            Err(e) => return Err(format!("remove_block: {:?}", e)),
        }
        node.get_persister().update_tracker(&node.get_id(), &tracker).map_err(|e| format!("update_tracker: {:?}", e))?;
        Ok(())
    })
}


// ---------------------------------------------------------------------------------------------
// The observed view
// ---------------------------------------------------------------------------------------------

/// Projection of one channel: monitor `State` (through its serde form) + tracker `ListenSlot`.
///
/// Projected OUT of `State`, with reasons:
/// * `saw_block` — "did this monitor ever see the start of a block" (guards against a partial stream
///   right after creation).  A signer that connected and disconnected a block has `true`, a fresh
///   one that saw none has `false`, with identical knowledge about the best chain: bookkeeping.
/// * `saw_forget_channel` — set by the node's `forget_channel` request, not by blocks; no phase-2
///   request sets it (C15 owns it).
/// * `channel_id` — `#[serde(skip)]`, a logging label.
/// Vectors whose order only records arrival order (`htlc_outputs`/`htlc_spents` pairs,
/// `second_level_htlc_outputs`) are compared as sorted multisets: the property speaks of which
/// outputs are watched / swept, not of their storage order; duplicates still show.
fn project_state(v: &Value) -> Value {
    let mut out = Map::new();
    for k in [
        "height",
        "funding_txids",
        "funding_vouts",
        "funding_inputs",
        "funding_height",
        "funding_outpoint",
        "funding_double_spent_height",
        "mutual_closing_height",
        "unilateral_closing_height",
        "closing_swept_height",
        "our_output_swept_height",
    ] {
        out.insert(k.to_string(), v.get(k).cloned().unwrap_or(Value::Null));
    }
    let co = v.get("closing_outpoints").cloned().unwrap_or(Value::Null);
    let co = if co.is_null() {
        Value::Null
    } else {
        let outs = co["htlc_outputs"].as_array().cloned().unwrap_or_default();
        let spents = co["htlc_spents"].as_array().cloned().unwrap_or_default();
        let mut pairs: Vec<String> = (0..outs.len().max(spents.len()))
            .map(|i| format!("{}:{}", outs.get(i).cloned().unwrap_or(Value::Null), spents.get(i).cloned().unwrap_or(Value::Null)))
            .collect();
        pairs.sort();
        let mut second: Vec<String> = co["second_level_htlc_outputs"]
            .as_array()
            .cloned()
            .unwrap_or_default()
            .iter()
            .map(|s| format!("{}:{}", s["outpoint"], s["spent"]))
            .collect();
        second.sort();
        json!({"txid": co["txid"], "our_output": co["our_output"], "htlc_outputs(vout:spent)": pairs, "second_level(outpoint:spent)": second})
    };
    out.insert("closing_outpoints".into(), co);
    Value::Object(out)
}

fn snapshot(node: &Arc<Node>, setup: &Setup) -> Result<Value, String> {
    report::catch(|| {
        let mut chans = vec![];
        {
            let tracker = node.get_tracker();
            for c in &setup.chans {
                let (listener, slot) = match tracker.listeners.get(&c.funding_outpoint) {
                    Some(x) => x,
                    None => {
                        // a ready channel without a monitor registered with the tracker: part of the view
                        chans.push(json!({"state": "NO MONITOR REGISTERED WITH THE TRACKER FOR THIS CHANNEL", "slot": null}));
                        continue;
                    }
                };
                let state = serde_json::to_value(&*listener.get_state()).expect("state json");
                let fmt = |s: &BTreeSet<OutPoint>| s.iter().map(|o| o.to_string()).collect::<Vec<_>>();
                chans.push(json!({
                    "state": project_state(&state),
                    "slot": {
                        "txid_watches": slot.txid_watches.iter().map(|t| t.to_string()).collect::<Vec<_>>(),
                        "watches": fmt(&slot.watches),
                        "seen": fmt(&slot.seen),
                    },
                }));
            }
        }
        // what the validators are given (derived from the same state through the channel's own handle)
        for (i, c) in setup.chans.iter().enumerate() {
            let cs = node.with_channel(&c.id, |ch| Ok(ch.monitor.as_chain_state())).expect("chain state");
            chans[i]["chain_state"] = json!({"current_height": cs.current_height, "funding_depth": cs.funding_depth,
                "funding_double_spent_depth": cs.funding_double_spent_depth, "closing_depth": cs.closing_depth});
        }
        Value::Array(chans)
    })
}

// ---------------------------------------------------------------------------------------------
// A tiny UTXO-consistent chain model with forks (only spend-consistency is modelled: scripts,
// signatures and relative/absolute timelocks are not — the property quantifies over any grouping
// of these transactions into blocks, "including close and sweep in one block")
// ---------------------------------------------------------------------------------------------

#[derive(Clone, Debug, PartialEq)]
enum Role {
    FundIn { group: usize },
    Funding { chan: usize },
    ToUs { chan: usize },
    ToThem { chan: usize },
    Htlc { chan: usize, tracked: bool },
    Second { chan: usize },
    Plain,
}

impl Role {
    fn class(&self) -> &'static str {
        match self {
            Role::FundIn { .. } => "funding-input",
            Role::Funding { .. } => "funding-outpoint",
            Role::ToUs { .. } => "our-output",
            Role::ToThem { .. } => "their-output",
            Role::Htlc { .. } => "htlc-output",
            Role::Second { .. } => "second-level-output",
            Role::Plain => "other-output",
        }
    }
}

#[derive(Clone)]
struct PoolTx {
    tx: Transaction,
    kinds: Vec<&'static str>,
    outs: Vec<Role>,
}

struct Model {
    genesis: BlockHeader,
    blocks: Vec<Blk>,
    /// indices of the active chain, height 1 upwards
    active: Vec<usize>,
    /// the first `base_len` active blocks were connected before the channels existed; never disconnected
    base_len: usize,
    /// utxos[i] = unspent outputs after active[..i]
    utxos: Vec<BTreeMap<OutPoint, Role>>,
    pool: Vec<PoolTx>,
    by_txid: BTreeMap<Txid, usize>,
    fund_ins: BTreeMap<OutPoint, usize>,
    unique: u64,
}

const K_FUNDING: &str = "funding";
const K_DOUBLE: &str = "funding-input-double-spend";
const K_MUTUAL: &str = "mutual-close";
const K_HOLDER: &str = "holder-commitment";
const K_CP: &str = "counterparty-commitment";
const K_CP_PREV: &str = "counterparty-commitment(previous,unrevoked)";
const K_HOLDER_NEXT: &str = "holder-commitment(next,validated)";
const K_SWEEP_OURS: &str = "sweep-of-our-output";
const K_SPEND_THEIRS: &str = "spend-of-their-output";
const K_HTLC: &str = "spend-of-tracked-htlc-output";
const K_HTLC_UNTRACKED: &str = "spend-of-untracked-htlc-output";
const K_HTLC_TX: &str = "second-level-htlc-tx";
const K_SECOND: &str = "sweep-of-second-level-output";
const K_NOISE: &str = "unrelated";
const F_CLOSE_SPEND: &str = "close+spend-of-its-output-in-one-block";
const F_HTLC_SWEEP: &str = "htlc-spend+sweep-of-its-output-in-one-block";
const F_FUND_CLOSE: &str = "funding+close-in-one-block";

impl Model {
    fn new(prefix_blocks: usize) -> Model {
        let genesis = genesis_block(Network::Regtest).header;
        let mut m = Model {
            genesis,
            blocks: vec![],
            active: vec![],
            base_len: prefix_blocks,
            utxos: vec![BTreeMap::new()],
            pool: vec![],
            by_txid: BTreeMap::new(),
            fund_ins: BTreeMap::new(),
            unique: 0,
        };
        for _ in 0..prefix_blocks {
            let b = m.make_block(vec![]);
            m.connect(b);
        }
        m
    }

    fn tip_headers(&self) -> Headers {
        match self.active.last() {
            Some(i) => Headers(self.blocks[*i].block.header, self.blocks[*i].filter_header),
            None => Headers(self.genesis, FilterHeader::all_zeros()),
        }
    }

    /// headers of the block below the tip
    fn prev_headers(&self) -> Headers {
        if self.active.len() >= 2 {
            let i = self.active[self.active.len() - 2];
            Headers(self.blocks[i].block.header, self.blocks[i].filter_header)
        } else {
            Headers(self.genesis, FilterHeader::all_zeros())
        }
    }

    fn depth(&self) -> usize {
        self.active.len() - self.base_len
    }

    fn add_pool(&mut self, tx: Transaction, kinds: Vec<&'static str>, outs: Vec<Role>) -> usize {
        let txid = tx.compute_txid();
        if let Some(i) = self.by_txid.get(&txid) {
            return *i;
        }
        assert_eq!(tx.output.len(), outs.len());
        self.pool.push(PoolTx { tx, kinds, outs });
        self.by_txid.insert(txid, self.pool.len() - 1);
        self.pool.len() - 1
    }

    fn role_of(&self, op: &OutPoint) -> Option<Role> {
        if let Some(g) = self.fund_ins.get(op) {
            return Some(Role::FundIn { group: *g });
        }
        self.by_txid.get(&op.txid).and_then(|i| self.pool[*i].outs.get(op.vout as usize).cloned())
    }

    fn init_from_setup(&mut self, setup: &Setup) {
        for (gi, g) in setup.groups.iter().enumerate() {
            for (op, _) in &g.inputs {
                self.fund_ins.insert(*op, gi);
                for u in self.utxos.iter_mut() {
                    u.insert(*op, Role::FundIn { group: gi });
                }
            }
            let txid = g.tx.compute_txid();
            let outs = (0..g.tx.output.len() as u32)
                .map(|v| match setup.chans.iter().position(|c| c.funding_outpoint == OutPoint { txid, vout: v }) {
                    Some(ci) => Role::Funding { chan: ci },
                    None => Role::Plain,
                })
                .collect();
            self.add_pool(g.tx.clone(), vec![K_FUNDING], outs);
        }
        for (ci, c) in setup.chans.iter().enumerate() {
            for cl in &c.closes {
                let txid = cl.tx.compute_txid();
                let mut outs = vec![Role::Plain; cl.tx.output.len()];
                if let Some(v) = cl.to_us {
                    outs[v as usize] = Role::ToUs { chan: ci };
                }
                if let Some(v) = cl.to_them {
                    outs[v as usize] = Role::ToThem { chan: ci };
                }
                for (v, _, tracked, _) in &cl.htlcs {
                    outs[*v as usize] = Role::Htlc { chan: ci, tracked: *tracked };
                }
                let mut kinds = vec![if cl.holder_broadcast { K_HOLDER } else { K_CP }];
                if cl.label == K_CP_PREV {
                    kinds.push(K_CP_PREV);
                }
                if cl.label == K_HOLDER_NEXT {
                    kinds.push(K_HOLDER_NEXT);
                }
                self.add_pool(cl.tx.clone(), kinds, outs);
                for (v, _, tracked, second) in &cl.htlcs {
                    if let Some(tx2) = second {
                        debug_assert_eq!(tx2.input[0].previous_output, OutPoint { txid, vout: *v });
                        let k = if *tracked { K_HTLC } else { K_HTLC_UNTRACKED };
                        self.add_pool(tx2.clone(), vec![k, K_HTLC_TX], vec![Role::Second { chan: ci }]);
                    }
                }
            }
        }
    }

    fn make_block(&mut self, pool_idx: Vec<usize>) -> Blk {
        self.unique += 1;
        let prev = self.tip_headers();
        let txs = pool_idx.iter().map(|i| self.pool[*i].tx.clone()).collect();
        make_blk(&prev.0, &prev.1, self.active.last().cloned(), self.active.len() as u32 + 1, self.unique, txs, pool_idx)
    }

    fn apply(&self, view: &mut BTreeMap<OutPoint, Role>, pi: usize) {
        let p = &self.pool[pi];
        for i in &p.tx.input {
            let had = view.remove(&i.previous_output);
            assert!(had.is_some(), "model: spending a missing output");
        }
        let txid = p.tx.compute_txid();
        for (v, r) in p.outs.iter().enumerate() {
            view.insert(OutPoint { txid, vout: v as u32 }, r.clone());
        }
    }

    /// connect a block (new or stale) on the current tip
    fn connect(&mut self, b: Blk) -> usize {
        assert_eq!(b.parent, self.active.last().cloned());
        let hash = b.block.block_hash();
        let idx = match self.blocks.iter().position(|x| x.block.block_hash() == hash) {
            Some(i) => i,
            None => {
                self.blocks.push(b);
                self.blocks.len() - 1
            }
        };
        let mut view = self.utxos.last().unwrap().clone();
        for pi in self.blocks[idx].txs.clone() {
            self.apply(&mut view, pi);
        }
        self.active.push(idx);
        self.utxos.push(view);
        idx
    }

    fn disconnect(&mut self) -> usize {
        assert!(self.depth() > 0);
        self.utxos.pop();
        self.active.pop().unwrap()
    }

    fn confirmed(&self) -> BTreeSet<usize> {
        self.active.iter().flat_map(|b| self.blocks[*b].txs.iter().cloned()).collect()
    }

    fn stale_children_of_tip(&self) -> Vec<usize> {
        let tip = self.active.last().cloned();
        (0..self.blocks.len()).filter(|i| self.blocks[*i].parent == tip && !self.active.contains(i)).collect()
    }

    fn new_spend(&mut self, inputs: &[(OutPoint, Role)]) -> usize {
        self.unique += 1;
        let mut kinds = vec![];
        let mut outs = vec![];
        for (_, r) in inputs {
            let (k, o) = match r {
                Role::ToUs { .. } => (K_SWEEP_OURS, Role::Plain),
                Role::ToThem { .. } => (K_SPEND_THEIRS, Role::Plain),
                Role::Htlc { chan, tracked } => (if *tracked { K_HTLC } else { K_HTLC_UNTRACKED }, Role::Second { chan: *chan }),
                Role::Second { .. } => (K_SECOND, Role::Plain),
                Role::FundIn { .. } => (K_DOUBLE, Role::Plain),
                _ => (K_NOISE, Role::Plain),
            };
            if !kinds.contains(&k) {
                kinds.push(k);
            }
            outs.push(o);
        }
        let tx = Transaction {
            version: Version::TWO,
            lock_time: LockTime::ZERO,
            input: inputs.iter().map(|(op, _)| TxIn { previous_output: *op, script_sig: ScriptBuf::new(), sequence: Sequence::MAX, witness: Witness::default() }).collect(),
            output: (0..inputs.len()).map(|i| TxOut { value: Amount::from_sat(1000 + i as u64), script_pubkey: p2wpkh_of(&[&self.unique.to_le_bytes()[..], &[i as u8]].concat()) }).collect(),
        };
        self.add_pool(tx, kinds, outs)
    }

    fn new_mutual_close(&mut self, op: OutPoint, two_outputs: bool) -> usize {
        self.unique += 1;
        let n = if two_outputs { 2 } else { 1 };
        let tx = Transaction {
            version: Version::TWO,
            lock_time: LockTime::ZERO,
            input: vec![TxIn { previous_output: op, script_sig: ScriptBuf::new(), sequence: Sequence::MAX, witness: Witness::default() }],
            output: (0..n).map(|i| TxOut { value: Amount::from_sat(100_000 + i as u64), script_pubkey: p2wpkh_of(&[&self.unique.to_le_bytes()[..], &[0x77, i as u8]].concat()) }).collect(),
        };
        self.add_pool(tx, vec![K_MUTUAL], vec![Role::Plain; n])
    }

    /// choose the transactions of a new block on the current tip
    fn gen_block_txs(&mut self, rng: &mut Rng) -> Vec<usize> {
        let mut view = self.utxos.last().unwrap().clone();
        let mut used = self.confirmed();
        let mut n = match rng.weighted(&[12, 34, 26, 16, 8, 4]) {
            k => k,
        };
        let mut chosen = vec![];
        let mut follow: Option<Txid> = None; // prefer spending an output of this tx next (same block)
        let mut guard = 0;
        while chosen.len() < n && guard < 12 {
            guard += 1;
            // candidates: (weight, action)
            enum Act {
                Remine(usize),
                Spend(Vec<(OutPoint, Role)>),
                Mutual(OutPoint),
            }
            let mut cands: Vec<(u32, Act)> = vec![];
            for (pi, p) in self.pool.iter().enumerate() {
                if used.contains(&pi) || !p.tx.input.iter().all(|i| view.contains_key(&i.previous_output)) {
                    continue;
                }
                let follows = follow.map(|t| p.tx.input.iter().any(|i| i.previous_output.txid == t)).unwrap_or(false);
                let w = if follows {
                    60
                } else if p.kinds.contains(&K_FUNDING) {
                    14
                } else if p.kinds.contains(&K_HOLDER) || p.kinds.contains(&K_CP) {
                    3
                } else if p.kinds.contains(&K_MUTUAL) || p.kinds.contains(&K_DOUBLE) {
                    1
                } else if p.kinds.contains(&K_NOISE) || p.kinds.contains(&K_SPEND_THEIRS) {
                    1
                } else {
                    5
                };
                cands.push((w, Act::Remine(pi)));
            }
            let mut per_chan: BTreeMap<usize, Vec<(OutPoint, Role)>> = BTreeMap::new();
            let mut plain = 0;
            for (op, r) in view.iter() {
                let follows = follow == Some(op.txid);
                let boost = if follows { 12 } else { 1 };
                match r {
                    Role::FundIn { .. } => cands.push((1, Act::Spend(vec![(*op, r.clone())]))),
                    Role::Funding { .. } => cands.push((2, Act::Mutual(*op))),
                    Role::ToUs { chan } | Role::Second { chan } => {
                        cands.push((5 * boost, Act::Spend(vec![(*op, r.clone())])));
                        per_chan.entry(*chan).or_default().push((*op, r.clone()));
                    }
                    Role::Htlc { chan, tracked } => {
                        cands.push(((if *tracked { 4 } else { 1 }) * boost, Act::Spend(vec![(*op, r.clone())])));
                        per_chan.entry(*chan).or_default().push((*op, r.clone()));
                    }
                    Role::ToThem { .. } => cands.push((1, Act::Spend(vec![(*op, r.clone())]))),
                    Role::Plain => {
                        plain += 1;
                        if plain <= 2 {
                            cands.push((1, Act::Spend(vec![(*op, r.clone())])));
                        }
                    }
                }
            }
            for (_, v) in per_chan.iter() {
                if v.len() >= 2 {
                    let a = rng.usize(v.len());
                    let mut b = rng.usize(v.len() - 1);
                    if b >= a {
                        b += 1;
                    }
                    if v[a].0.txid == v[b].0.txid || rng.chance(1, 3) {
                        cands.push((3, Act::Spend(vec![v[a].clone(), v[b].clone()])));
                    }
                }
            }
            if cands.is_empty() {
                break;
            }
            let weights: Vec<u32> = cands.iter().map(|c| c.0).collect();
            let k = rng.weighted(&weights);
            let act = cands.swap_remove(k).1;
            let pi = match act {
                Act::Remine(pi) => pi,
                Act::Spend(ins) => self.new_spend(&ins),
                Act::Mutual(op) => {
                    let two = rng.bool();
                    self.new_mutual_close(op, two)
                }
            };
            if used.contains(&pi) {
                continue;
            }
            self.apply(&mut view, pi);
            used.insert(pi);
            chosen.push(pi);
            // a close, or an HTLC-output spend, is followed by a spend of its output in the same block half of the time
            let kinds = &self.pool[pi].kinds;
            let chainable = kinds.iter().any(|k| [K_HOLDER, K_CP, K_HTLC, K_HTLC_UNTRACKED, K_FUNDING].contains(k));
            follow = None;
            if chainable && rng.chance(1, 2) {
                follow = Some(self.pool[pi].tx.compute_txid());
                if chosen.len() >= n {
                    n += 1;
                }
            }
        }
        chosen
    }

    /// kinds of the block's transactions plus the intra-block chains the property singles out
    fn features(&self, bi: usize) -> BTreeSet<&'static str> {
        let b = &self.blocks[bi];
        let mut f = BTreeSet::new();
        let in_block: BTreeMap<Txid, usize> = b.txs.iter().map(|pi| (self.pool[*pi].tx.compute_txid(), *pi)).collect();
        for pi in &b.txs {
            for k in &self.pool[*pi].kinds {
                f.insert(*k);
            }
            for i in &self.pool[*pi].tx.input {
                if let Some(parent) = in_block.get(&i.previous_output.txid) {
                    match self.pool[*parent].outs.get(i.previous_output.vout as usize) {
                        Some(Role::ToUs { .. }) | Some(Role::Htlc { tracked: true, .. }) => {
                            f.insert(F_CLOSE_SPEND);
                        }
                        Some(Role::Second { .. }) => {
                            f.insert(F_HTLC_SWEEP);
                        }
                        Some(Role::Funding { .. }) => {
                            f.insert(F_FUND_CLOSE);
                        }
                        _ => {}
                    }
                }
            }
        }
        if f.is_empty() {
            f.insert("empty");
        }
        f
    }

    fn describe_block(&self, bi: usize) -> Value {
        let b = &self.blocks[bi];
        json!({
            "hash": b.block.block_hash().to_string(),
            "height": b.height,
            "txs": b.txs.iter().map(|pi| json!({
                "txid": self.pool[*pi].tx.compute_txid().to_string(),
                "kinds": self.pool[*pi].kinds,
                "spends": self.pool[*pi].tx.input.iter().map(|i| format!("{} ({})", i.previous_output, self.role_of(&i.previous_output).map(|r| r.class()).unwrap_or("?"))).collect::<Vec<_>>(),
            })).collect::<Vec<_>>(),
        })
    }
}

// ---------------------------------------------------------------------------------------------
// Reference by deterministic re-execution
// ---------------------------------------------------------------------------------------------

struct Reference {
    world: World,
    setup: Setup,
    /// model block indices fed so far (active chain prefix, including the phase-1 prefix blocks)
    chain: Vec<usize>,
}

fn new_world(plan: &Plan) -> World {
    World::new(WorldCfg::regtest(plan.node_seed))
}

fn build_reference(plan: &Plan, model: &Model) -> Result<Reference, String> {
    let world = new_world(plan);
    let prefix: Vec<Blk> = model.active[..model.base_len].iter().map(|i| model.blocks[*i].clone()).collect();
    let mut log = vec![];
    let setup = report::catch(|| phase1(&world, plan, &prefix, &FilterHeader::all_zeros(), &mut log, None)).map_err(|p| format!("phase-1 replay panicked: {}", p))??;
    Ok(Reference { world, setup, chain: model.active[..model.base_len].to_vec() })
}

/// Bring the reference to the model's active chain using connects only.
/// Returns (rebuilt, Err(description) if the reference itself failed — a violation candidate:
/// the fresh signer could not even follow the best chain).
fn sync_reference(r: &mut Option<Reference>, plan: &Plan, model: &Model, rng: &mut Rng, rep: &mut Report) -> Result<bool, String> {
    let mut rebuilt = false;
    let extends = match r {
        Some(x) => x.chain.len() <= model.active.len() && x.chain[..] == model.active[..x.chain.len()],
        None => false,
    };
    if !extends {
        *r = Some(build_reference(plan, model)?);
        rebuilt = true;
        rep.count("replay.fresh_worlds");
    }
    let x = r.as_mut().unwrap();
    while x.chain.len() < model.active.len() {
        let bi = model.active[x.chain.len()];
        let prev_fh = match x.chain.last() {
            Some(p) => model.blocks[*p].filter_header,
            None => FilterHeader::all_zeros(),
        };
        // the reference's delivery mode is drawn independently of the live signer's
        let mode = if rng.chance(1, 3) { Mode::Streamed } else { Mode::Compact };
        let fed = feed_connect(&x.world.node, &model.blocks[bi], &prev_fh, mode, rng.next_u64());
        match fed {
            Ok(Ok(())) => {}
            Ok(Err(e)) => return Err(format!("reference refused best-chain block at height {}: {}", model.blocks[bi].height, e)),
            Err(p) => return Err(format!("reference panicked on best-chain block at height {}: {}", model.blocks[bi].height, p)),
        }
        rep.count("replay.blocks_fed");
        x.chain.push(bi);
    }
    Ok(rebuilt)
}

// ---------------------------------------------------------------------------------------------
// Comparing views
// ---------------------------------------------------------------------------------------------

fn str_set(v: &Value) -> BTreeSet<String> {
    v.as_array().map(|a| a.iter().filter_map(|x| x.as_str().map(|s| s.to_string())).collect()).unwrap_or_default()
}

fn parse_outpoint(s: &str) -> Option<OutPoint> {
    s.parse().ok()
}

/// the shape of a difference between the live view and the expected view: which state fields, and
/// for the watch sets which class of outpoint is missing from / extra in the live signer
fn diff_items(live: &Value, want: &Value, model: &Model) -> Vec<String> {
    let mut items = BTreeSet::new();
    let (la, wa) = (live.as_array().cloned().unwrap_or_default(), want.as_array().cloned().unwrap_or_default());
    if la.len() != wa.len() {
        items.insert("channel-count".to_string());
    }
    for (l, w) in la.iter().zip(wa.iter()) {
        if let (Some(ls), Some(ws)) = (l["state"].as_object(), w["state"].as_object()) {
            for (k, v) in ls {
                if ws.get(k) != Some(v) {
                    items.insert(format!("state.{}", k));
                }
            }
        }
        if l["chain_state"] != w["chain_state"] {
            items.insert("chain_state".to_string());
        }
        for set in ["watches", "seen", "txid_watches"] {
            let (lset, wset) = (str_set(&l["slot"][set]), str_set(&w["slot"][set]));
            for (name, a, b) in [("missing", &wset, &lset), ("extra", &lset, &wset)] {
                for x in a.difference(b) {
                    let class = parse_outpoint(x).and_then(|op| model.role_of(&op)).map(|r| r.class()).unwrap_or("unknown");
                    items.insert(format!("{}-{}:{}", set, name, class));
                }
            }
        }
    }
    items.into_iter().collect()
}

fn view_classes(v: &Value) -> Vec<&'static str> {
    let mut c = vec![];
    for ch in v.as_array().cloned().unwrap_or_default() {
        let s = &ch["state"];
        if !s["funding_height"].is_null() { c.push("funding-confirmed"); }
        if !s["funding_double_spent_height"].is_null() { c.push("funding-double-spent"); }
        if !s["mutual_closing_height"].is_null() { c.push("mutually-closed"); }
        if !s["unilateral_closing_height"].is_null() { c.push("unilaterally-closed"); }
        if !s["our_output_swept_height"].is_null() { c.push("our-output-swept"); }
        if !s["closing_swept_height"].is_null() { c.push("closing-swept"); }
        let co = &s["closing_outpoints"];
        if !co.is_null() {
            if co["htlc_outputs(vout:spent)"].as_array().map(|a| !a.is_empty()).unwrap_or(false) { c.push("tracks-htlc-outputs"); }
            if co["second_level(outpoint:spent)"].as_array().map(|a| !a.is_empty()).unwrap_or(false) { c.push("tracks-second-level-outputs"); }
        }
    }
    c.sort();
    c.dedup();
    c
}

/// the view without the plain block counter: did the block matter to any monitor?
fn strip_height(v: &Value) -> Value {
    let mut v = v.clone();
    if let Some(a) = v.as_array_mut() {
        for ch in a {
            ch["state"]["height"] = Value::Null;
            ch["chain_state"] = Value::Null;
        }
    }
    v
}

// ---------------------------------------------------------------------------------------------
// One history
// ---------------------------------------------------------------------------------------------

#[derive(Clone, Copy, Debug, PartialEq)]
enum Op {
    ConnectNew,
    ConnectStale,
    Disconnect,
}

struct HistCfg {
    /// self-test switch: judge by the best-chain replay alone (rule 1 off)
    skip_rule1: bool,
    steps: usize,
    max_depth: usize,
    seed: u64,
    shard: usize,
    index: u64,
}

fn run_history(rep: &mut Report, rng: &mut Rng, cfg: &HistCfg) {
    let plan = Plan::gen(rng);
    let mut model = Model::new(plan.prefix_blocks);
    let live = new_world(&plan);
    let prefix: Vec<Blk> = model.active.iter().map(|i| model.blocks[*i].clone()).collect();
    let mut p1log = vec![];
    let setup_fault = if rng.chance(1, 3) && !plan.chans.is_empty() { Some(rng.usize(plan.chans.len())) } else { None };
    if setup_fault.is_some() {
        rep.count("phase1.setup_channel_under_storage_failure");
    }
    let setup = match report::catch(|| phase1(&live, &plan, &prefix, &FilterHeader::all_zeros(), &mut p1log, setup_fault)) {
        Ok(Ok(s)) => s,
        Ok(Err(e)) => {
            rep.count("harness.phase1_refused");
            rep.note(&format!("phase 1 refused (generator problem, history skipped): {}", e.chars().take(160).collect::<String>()));
            return;
        }
        Err(p) => {
            rep.count("harness.phase1_panicked");
            rep.note(&format!("phase 1 panicked (history skipped): {}", p));
            return;
        }
    };
    model.init_from_setup(&setup);
    rep.count("histories");
    rep.count_n("phase1.requests", p1log.len() as u64);
    rep.count_n("phase1.channels", setup.chans.len() as u64);
    for c in &plan.chans {
        rep.count(&format!("phase1.tail.{:?}", c.tail));
        rep.count(if c.is_outbound { "phase1.channel.funder" } else { "phase1.channel.fundee" });
        rep.count_n("phase1.htlcs_in_final_commitments", c.htlcs.iter().filter(|h| h.until == u64::MAX).count() as u64);
    }

    let mut views: Vec<Value> = vec![];
    match snapshot(&live.node, &setup) {
        Ok(v) => views.push(v),
        Err(p) => {
            rep.inconclusive(&format!("snapshot panicked right after phase 1: {}", p));
            return;
        }
    }
    let mut reference: Option<Reference> = None;
    let mut ref_views: BTreeMap<usize, Value> = BTreeMap::new();
    let mut ops_log: Vec<Value> = vec![];
    let mut queue: std::collections::VecDeque<Op> = Default::default();
    let mut run_len = 0usize; // consecutive disconnects
    // Streamed delivery of a disconnect is exercised in a third of the histories only, so that a
    // defect confined to that path cannot starve the other histories of reorgs.
    let streamed_disconnects = rng.chance(1, 3);
    let base_detail = |model: &Model, ops_log: &Vec<Value>, extra: Value| {
        json!({
            "replay": {"seed": cfg.seed, "shard": cfg.shard, "history": cfg.index, "how": "c14_monitor --seed <seed> --only-shard <shard> --only-history <history>"},
            "phase1_plan": plan.summary(),
            "phase1_requests": p1log,
            "phase2_ops": ops_log,
            "best_chain": model.active[model.base_len..].iter().map(|b| model.describe_block(*b)).collect::<Vec<_>>(),
            "observed": extra,
        })
    };

    for step in 0..cfg.steps {
        let depth = model.depth();
        let op = match queue.pop_front() {
            Some(o) => o,
            None => {
                let stale = !model.stale_children_of_tip().is_empty();
                let w = [
                    if depth >= cfg.max_depth { 0 } else { 50 },
                    if stale && depth < cfg.max_depth { 14 } else { 0 },
                    if depth > 0 { 22 } else { 0 },
                    if depth > 0 { 14 } else { 0 },
                ];
                match rng.weighted(&w) {
                    0 => Op::ConnectNew,
                    1 => Op::ConnectStale,
                    2 => Op::Disconnect,
                    _ => {
                        // a reorg of depth d: d disconnects, then d or d+1 connects
                        let cap = if rng.chance(1, 5) { cfg.max_depth } else { 4 };
                        let d = 1 + rng.usize(depth.min(cap));
                        for _ in 1..d {
                            queue.push_back(Op::Disconnect);
                        }
                        for _ in 0..d + rng.usize(2) {
                            queue.push_back(if rng.chance(1, 5) { Op::ConnectStale } else { Op::ConnectNew });
                        }
                        Op::Disconnect
                    }
                }
            }
        };
        let op = match op {
            Op::ConnectStale if model.stale_children_of_tip().is_empty() => Op::ConnectNew,
            Op::Disconnect if model.depth() == 0 => Op::ConnectNew,
            o => o,
        };
        let mut mode = if rng.chance(2, 5) { Mode::Streamed } else { Mode::Compact };
        if op == Op::Disconnect && !streamed_disconnects {
            mode = Mode::Compact;
        }
        let chunk_seed = rng.next_u64();
        rep.eval(1);

        // ---- perform the operation on the live signer
        let (bi, fed, opname) = match op {
            Op::ConnectNew | Op::ConnectStale => {
                let prev_fh = model.tip_headers().1;
                let blk = if op == Op::ConnectStale {
                    let st = model.stale_children_of_tip();
                    model.blocks[*rng.pick(&st)].clone()
                } else {
                    let txs = model.gen_block_txs(rng);
                    model.make_block(txs)
                };
                let bi = model.connect(blk);
                let fed = feed_connect(&live.node, &model.blocks[bi], &prev_fh, mode, chunk_seed);
                run_len = 0;
                (bi, fed, if op == Op::ConnectStale { "connect(stale block again)" } else { "connect" })
            }
            Op::Disconnect => {
                let prev = model.prev_headers();
                let bi = *model.active.last().unwrap();
                let fed = feed_disconnect(&live.node, &model.blocks[bi], &prev, mode, chunk_seed);
                model.disconnect();
                run_len += 1;
                (bi, fed, "disconnect")
            }
        };
        let is_disc = op == Op::Disconnect;
        let feats = model.features(bi);
        let dir = if is_disc { "disconnected" } else { "connected" };
        rep.count(&format!("ops.{}.{}", opname, if mode == Mode::Compact { "compact" } else { "streamed" }));
        for f in &feats {
            rep.count(&format!("{}.block-with.{}", dir, f));
        }
        if is_disc {
            rep.count(&format!("reorg.reached-depth.{:02}", run_len.min(20)));
        }
        ops_log.push(json!({"step": step, "op": opname, "delivery": format!("{:?}", mode), "block": model.describe_block(bi)}));

        let block_hex = || hex::encode(serialize(&model.blocks[bi].block));
        match fed {
            Ok(Ok(())) => {}
            Ok(Err(e)) => {
                let kind: String = e.split(": ").nth(1).unwrap_or(&e).chars().take_while(|c| c.is_ascii_alphanumeric()).collect();
                rep.violation(
                    &format!("tracker:valid-{}-{}-refused:{}", if mode == Mode::Compact { "compact" } else { "streamed" }, if is_disc { "disconnect" } else { "connect" }, kind),
                    base_detail(&model, &ops_log, json!({"refusal": e, "block_hex": block_hex(), "note": "the protocol handler turns this refusal into a panic (handler.rs AddBlock / RemoveBlock)"})),
                );
                return;
            }
            Err(p) => {
                let sig = if is_disc && feats.contains(F_CLOSE_SPEND) {
                    "monitor:reorg-of-close-and-sweep-in-one-block"
                } else if is_disc && feats.contains(F_HTLC_SWEEP) {
                    "monitor:reorg-of-htlc-spend-and-sweep-in-one-block"
                } else if is_disc {
                    "monitor:panic-on-disconnect"
                } else if feats.contains(K_CP_PREV) {
                    "monitor:panic-on-connect-of-previous-unrevoked-counterparty-commitment"
                } else {
                    "monitor:panic-on-connect"
                };
                rep.violation(sig, base_detail(&model, &ops_log, json!({"panic": p, "while": opname, "block_features": feats, "block_hex": block_hex()})));
                return;
            }
        }

        // ---- observe
        let now = match snapshot(&live.node, &setup) {
            Ok(v) => v,
            Err(p) => {
                rep.violation("monitor:panic-reading-view", base_detail(&model, &ops_log, json!({"panic": p})));
                return;
            }
        };
        for c in view_classes(&now) {
            rep.count(&format!("view.reached.{}", c));
        }
        rep.distinct_hash(fnv_str(&format!("{}|{:?}|{:?}|{:?}", opname, mode, feats, view_classes(&now))));

        // rule 1: disconnecting restores the view recorded when the chain last stood at this tip
        if is_disc {
            let before = views.pop().unwrap();
            let want = views.last().unwrap();
            rep.count("check.restores-view-before-connect");
            if strip_height(&before) != strip_height(want) {
                rep.count("check.restores-view-before-connect.block-had-changed-the-view");
            }
            if &now != want && !cfg.skip_rule1 {
                let items = diff_items(&now, want, &model);
                rep.violation(
                    &format!("monitor:view-differs-from-view-before-connect:{}", items.join(",")),
                    base_detail(&model, &ops_log, json!({"difference": items, "live_view_after_disconnect": now, "view_before_the_connect": want, "disconnected_block_features": feats})),
                );
                return;
            }
        } else {
            views.push(now.clone());
        }

        // rule 2: the view equals that of a fresh signer fed only the best chain.
        // The reference view of a chain is a function of its tip block (blocks form a tree), so a view
        // once obtained from a connects-only reference run is remembered per tip.
        let tip_key = model.active.last().cloned().unwrap_or(usize::MAX);
        let want = if let Some(v) = ref_views.get(&tip_key) {
            rep.count("check.equals-best-chain-replay.reference-view-remembered");
            v.clone()
        } else {
            match sync_reference(&mut reference, &plan, &model, rng, rep) {
                Ok(rebuilt) => {
                    if rebuilt {
                        let r = reference.as_ref().unwrap();
                        let same = r.setup.groups.iter().zip(setup.groups.iter()).all(|(a, b)| a.tx.compute_txid() == b.tx.compute_txid())
                            && r.setup.chans.iter().zip(setup.chans.iter()).all(|(a, b)| a.closes.iter().zip(b.closes.iter()).all(|(x, y)| x.tx.compute_txid() == y.tx.compute_txid()));
                        if !same {
                            rep.inconclusive("phase-1 replay is not deterministic (funding / commitment txids differ)");
                            return;
                        }
                    }
                }
                Err(e) => {
                    // the fresh signer could not follow the plain best chain: report, but as its own shape
                    rep.violation("monitor:fresh-signer-cannot-follow-best-chain", base_detail(&model, &ops_log, json!({"reference_failure": e})));
                    return;
                }
            }
            let r = reference.as_ref().unwrap();
            match snapshot(&r.world.node, &r.setup) {
                Ok(v) => {
                    ref_views.insert(tip_key, v.clone());
                    v
                }
                Err(p) => {
                    rep.inconclusive(&format!("reference snapshot panicked: {}", p));
                    return;
                }
            }
        };
        rep.count("check.equals-best-chain-replay");
        rep.count(if is_disc { "check.equals-best-chain-replay.after-disconnect" } else { "check.equals-best-chain-replay.after-connect" });
        if now != want {
            let items = diff_items(&now, &want, &model);
            rep.violation(
                &format!("monitor:view-differs-from-best-chain-replay:{}", items.join(",")),
                base_detail(&model, &ops_log, json!({"difference": items, "after": opname, "live_view": now, "fresh_replay_view": want, "block_features": feats})),
            );
            return;
        }
        if cfg.index < 1 && cfg.shard == 0 && step + 1 == cfg.steps {
            rep.sample(json!({"phase1_plan": plan.summary(), "phase2_ops": ops_log.iter().take(12).collect::<Vec<_>>(), "final_view": now}));
        }
    }
    rep.count("histories.completed");
}

fn main() {
    let cli = Cli::parse("C14");
    report::install_quiet_panic_hook();
    let start = Instant::now();
    let quick = cli.tier.is_quick();
    let shards = if quick { 16 } else { 64 };
    let histories = cli.scaled(if quick { 14 } else { 30 });
    let steps = if quick { 36 } else { 60 };
    let skip_rule1 = cli.extra.get("skip-rule1").map(|s| s == "1").unwrap_or(false);
    let only_shard: Option<usize> = cli.extra.get("only-shard").and_then(|s| s.parse().ok());
    let only_history: Option<u64> = cli.extra.get("only-history").and_then(|s| s.parse().ok());
    let mut report = run_sharded("C14", cli.threads, shards, |shard, r| {
        if only_shard.map(|s| s != shard).unwrap_or(false) {
            return;
        }
        for h in 0..histories {
            if only_history.map(|x| x != h).unwrap_or(false) {
                continue;
            }
            // one independent stream per history, so that a history replays alone
            let mut rng = Rng::new(cli.seed.wrapping_mul(1_000_003).wrapping_add(shard as u64 * 100_003).wrapping_add(h));
            let max_depth = if h % 7 == 3 { 38 } else { 16 };
            run_history(r, &mut rng, &HistCfg { skip_rule1, steps, max_depth, seed: cli.seed, shard, index: h });
        }
    });
    if only_shard.is_none() && only_history.is_none() {
        // minimums are ~1/3 of what a quick run observes at any seed; thorough runs ~14x the steps
        let q = |a: u64| if quick { a } else { a * 8 };
        report.require("histories", q(150));
        report.require("check.equals-best-chain-replay", q(3000));
        report.require("check.equals-best-chain-replay.after-disconnect", q(1000));
        report.require("check.restores-view-before-connect.block-had-changed-the-view", q(300));
        report.require("ops.connect.streamed", q(600));
        report.require("ops.disconnect.streamed", q(30));
        report.require("ops.disconnect.compact", q(800));
        report.require("reorg.reached-depth.03", q(100));
        report.require("reorg.reached-depth.06", q(8));
        for k in [K_FUNDING, K_DOUBLE, K_MUTUAL, K_HOLDER, K_CP, K_SWEEP_OURS, K_HTLC, K_SECOND, K_HTLC_TX] {
            report.require(&format!("disconnected.block-with.{}", k), q(15));
        }
        report.require(&format!("disconnected.block-with.{}", F_CLOSE_SPEND), q(50));
        report.require(&format!("disconnected.block-with.{}", F_HTLC_SWEEP), q(50));
        for v in ["funding-confirmed", "funding-double-spent", "mutually-closed", "unilaterally-closed", "our-output-swept", "closing-swept", "tracks-htlc-outputs", "tracks-second-level-outputs"] {
            report.require(&format!("view.reached.{}", v), q(100));
        }
    }
    finish(
        report,
        FinishSpec {
            cli: &cli,
            level: "exploration",
            rule: "two-phase histories on a real Node (regtest, no trusted oracle, proofs verified): phase 1 = generated request plan creating 1-2 channels (funder with signed funding tx / fundee), real commitment updates to a state with HTLCs, known preimages and one of four update tails; phase 2 = connects / disconnects (compact proof from the signer's own forward / reverse watches, or streamed block_chunk + external proof) of blocks built by a UTXO-consistent fork model from funding, funding-input double-spend, mutual close, current / next-validated holder commitment, current / previous-unrevoked counterparty commitment, sweeps, second-level HTLC txs and unrelated spends, incl. close+sweep and htlc-spend+sweep in one block, reorg depth bounded only by the chain built so far (<= 38 blocks; depths reached are in the counters reorg.reached-depth.NN). Oracles: (1) after every step the projection of each channel's monitor State + ListenSlot equals that of a fresh world that replayed phase 1 and was fed only the best chain by connects; (2) after a disconnect it equals the projection recorded when the chain last stood at that tip; (3) no panic, no refusal of a valid block. distinct = (operation, delivery, block features, set of view classes reached)",
            assumptions: vec![
                "blocks are spend-consistent only: scripts, signatures and timelocks of the carried transactions are not enforced by the model (the tracker does not check them either)".into(),
                "revoked (breach) commitments and closing transactions with more than one input are outside the history alphabet and are not generated".into(),
                "reorgs never go below the height at which the channels were created".into(),
                "static_remotekey channels only (no anchors)".into(),
                "State fields saw_block, saw_forget_channel and channel_id are not part of the compared view (reasons at project_state)".into(),
            ],
            start,
            extra_coverage: Default::default(),
        },
    );
}
