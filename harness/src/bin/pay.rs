//! `pay` driver — C06: approved invoices are never overpaid in flight; unbacked payments refused.
//!
//! One node, 2-3 channels, a small pool of payment hashes.  Real commitment updates on both
//! sides of every channel (validate+revoke of holder commitments with counterparty signatures
//! made by the harness; sign + revocation of counterparty commitments), HTLC add/remove with
//! multi-part splits, invoice / keysend registration before and after HTLCs appear, preimages,
//! heartbeats (pruning), restarts.  A ghost ledger of the *accepted* commitment contents is the
//! only input of the oracle.

use lightning_signer::bitcoin::hashes::{sha256, Hash};
use lightning_signer::bitcoin::secp256k1::{All, PublicKey, Secp256k1, SecretKey};
use lightning_signer::channel::ChannelBase;
use lightning_signer::invoice::Invoice;
use lightning_signer::lightning::types::payment::{PaymentHash, PaymentPreimage, PaymentSecret};
use lightning_signer::lightning_invoice::{Currency, InvoiceBuilder};
use lightning_signer::bitcoin::bip32::DerivationPath;
use lightning_signer::tx::tx::HTLCInfo2;
use lightning_signer::util::status::Status;
use serde_json::{json, Value};
use std::collections::{BTreeMap, BTreeSet};
use std::time::{Duration, Instant};
use vls_verif::chanmodel::{random_setup, Balance, ChanModel, Content, CpKeys};
use vls_verif::report::{self, finish, run_sharded, FinishSpec};
use vls_verif::rng::fnv_str;
use vls_verif::world::{World, WorldCfg};
use vls_verif::{oracle, Cli, Report, Rng};

struct PChan {
    m: ChanModel,
    /// generator state for the holder-side and counterparty-side commitments (may diverge)
    h_bal: Balance,
    c_bal: Balance,
    /// ghost: contents that were ACCEPTED
    h_pending: Option<(u64, Content)>,
    h_cur: Option<Content>,
    c_cur: Option<Content>,
}

struct PayHash {
    hash: PaymentHash,
    preimage: [u8; 32],
    /// approved (Ok(true)) invoice/keysend amount in msat
    approved_msat: Option<u64>,
    /// the invoice as the signer held it when it was last allowed to change: at an approval request and after a
    /// heartbeat (the only request that prunes expired or fulfilled invoices).  Anything else - a restart in
    /// particular - must leave approved invoices alone, so between those moments this recorded value is used.
    held_msat: Option<u64>,
    preimage_given: bool,
    /// clause 1 currently violated (report only the transition, i.e. the update that caused it)
    violating: bool,
    /// the bound was already exceeded when the invoice was approved (imbalance inherited from the
    /// tolerated uninvoiced phase): not caused by an accepted update, skipped until it heals
    tainted: bool,
    /// the hash was approved again (new invoice/keysend accepted after the signer had dropped the
    /// earlier one) while HTLCs from the earlier approval were still in flight
    reapproved_with_inflight: bool,
}

struct Hist {
    world: World,
    secp: Secp256k1<All>,
    chans: Vec<PChan>,
    pool: Vec<PayHash>,
    /// every hash that ever appeared in an accepted update
    seen: BTreeSet<[u8; 32]>,
    log: Vec<Value>,
    max_routing_fee_msat: u64,
    shard: usize,
    index: u64,
    invoice_ctr: u64,
}

fn status<T>(r: Result<Result<T, Status>, String>) -> Result<T, String> {
    match r {
        Ok(Ok(v)) => Ok(v),
        Ok(Err(s)) => Err(format!("{:?}: {}", s.code(), s.message().chars().take(110).collect::<String>())),
        Err(p) => Err(format!("PANIC {}", p)),
    }
}

fn sum_hash(v: &[HTLCInfo2], h: &PaymentHash) -> u64 {
    v.iter().filter(|x| &x.payment_hash == h).map(|x| x.value_sat).sum()
}

impl Hist {
    fn new(rng: &mut Rng, shard: usize, index: u64) -> Option<Hist> {
        let mut cfg = WorldCfg::regtest(rng.bytes::<32>());
        // a third of the worlds have a payment velocity limit that a few approvals exhaust, so that approval
        // requests are refused and HTLCs for refused (never approved) hashes are then offered
        if rng.chance(1, 3) {
            cfg.policy.global_velocity_control = lightning_signer::util::velocity::VelocityControlSpec {
                limit_msat: rng.range(60_000, 300_000) * 1000,
                interval_type: lightning_signer::util::velocity::VelocityControlIntervalType::Hourly,
            };
        }
        let max_fee = cfg.policy.max_routing_fee_msat;
        let world = World::new(cfg);
        let secp = Secp256k1::new();
        let mut h = Hist { world, secp, chans: vec![], pool: vec![], seen: BTreeSet::new(), log: vec![], max_routing_fee_msat: max_fee, shard, index, invoice_ctr: 0 };
        let nchan = 2 + rng.below(2) as usize;
        for ci in 0..nchan {
            let dbid = ci as u64 + 1;
            let mut peer_id = [2u8; 33];
            peer_id[1..9].copy_from_slice(&rng.next_u64().to_le_bytes());
            let node = h.world.node.clone();
            let (id, _) = h.world.node.new_channel(dbid, &peer_id, &node).ok()?;
            let cp = CpKeys::generate(rng);
            let cp_points = cp.points(&h.secp);
            let mut setup = random_setup(rng, &h.secp, &cp, (shard as u64) << 32 | index << 8 | ci as u64);
            setup.channel_value_sat = rng.range(3_000_000, 10_000_000);
            // both sides need funds so that HTLCs can flow both ways
            setup.push_value_msat = if setup.is_outbound { (setup.channel_value_sat / 2) * 1000 } else { 0 };
            let ch = h.world.node.setup_channel(id.clone(), None, setup.clone(), &DerivationPath::master()).ok()?;
            let m = ChanModel {
                id0: id.clone(),
                dbid,
                peer_id,
                setup: setup.clone(),
                cp,
                cp_points,
                holder_points: Some(ch.get_channel_basepoints()),
                holder_commitment_seed: Some(oracle::native_commitment_seed(&h.world.cfg.seed, id.as_slice())),
            };
            let mut bal = Balance::initial(&setup);
            if !setup.is_outbound {
                // inbound channel: counterparty funds; give ourselves half via a first update later
            }
            bal.feerate = 1000;
            h.chans.push(PChan { m, h_bal: bal.clone(), c_bal: bal, h_pending: None, h_cur: None, c_cur: None });
        }
        // payment hashes
        let npool = 1 + rng.below(4);
        for k in 0..npool {
            let mut pre = [0u8; 32];
            pre[..8].copy_from_slice(&((shard as u64) << 40 | index << 8 | k).to_le_bytes());
            pre[31] = 0x42;
            let hash = PaymentHash(sha256::Hash::hash(&pre).to_byte_array());
            h.pool.push(PayHash { hash, preimage: pre, approved_msat: None, held_msat: None, preimage_given: false, violating: false, tainted: false, reapproved_with_inflight: false });
        }
        // bootstrap commitment 0 on both sides of every channel through the real API
        for ci in 0..h.chans.len() {
            let c0 = h.chans[ci].h_bal.content(&h.chans[ci].m.setup)?;
            let (sig, hs) = h.chans[ci].m.cp_sign_holder_commitment(&h.secp, 0, &c0);
            let id = h.chans[ci].m.id0.clone();
            let cc = c0.clone();
            status(report::catch(|| h.world.node.with_channel(&id, |ch| {
                ch.validate_holder_commitment_tx_phase2(0, cc.feerate_per_kw, cc.to_holder_sat, cc.to_counterparty_sat, vec![], vec![], &sig, &hs)?;
                ch.activate_initial_commitment()
            }))).ok()?;
            h.chans[ci].h_cur = Some(c0.clone());
            let p0 = h.chans[ci].m.cp.point(&h.secp, 0);
            status(report::catch(|| h.world.node.with_channel(&id, |ch| {
                ch.sign_counterparty_commitment_tx_phase2(&p0, 0, cc.feerate_per_kw, cc.to_holder_sat, cc.to_counterparty_sat, vec![], vec![])
            }))).ok()?;
            h.chans[ci].c_cur = Some(c0);
        }
        Some(h)
    }

    fn height(&self) -> u32 {
        self.world.node.get_chain_height()
    }

    fn peek(&self, c: usize) -> (u64, bool, u64, u64) {
        let id = self.chans[c].m.id0.clone();
        self.world
            .node
            .with_channel(&id, |ch| {
                let e = &ch.enforcement_state;
                Ok((e.next_holder_commit_num, e.next_holder_commit_info.is_some(), e.next_counterparty_commit_num, e.next_counterparty_revoke_num))
            })
            .unwrap_or((0, false, 0, 0))
    }

    /// mutate a balance with pool hashes; returns None if the result has no valid content
    fn mutate(&self, rng: &mut Rng, bal: &Balance, setup: &lightning_signer::channel::ChannelSetup) -> Option<(Balance, Content)> {
        let mut b = bal.clone();
        let height = self.height();
        let k = 1 + rng.below(2);
        for _ in 0..k {
            let ph = &self.pool[rng.usize(self.pool.len())];
            match rng.below(8) {
                0 | 1 | 2 => {
                    let v = rng.range(6_000, 40_000);
                    if b.holder_sat > v + 30_000 && b.offered.len() + b.received.len() < 10 {
                        b.holder_sat -= v;
                        b.offered.push(HTLCInfo2 { value_sat: v, payment_hash: ph.hash, cltv_expiry: height + rng.range(30, 80) as u32 });
                    }
                }
                3 | 4 => {
                    let v = rng.range(6_000, 40_000);
                    if b.cp_sat > v + 30_000 && b.offered.len() + b.received.len() < 10 {
                        b.cp_sat -= v;
                        b.received.push(HTLCInfo2 { value_sat: v, payment_hash: ph.hash, cltv_expiry: height + rng.range(100, 160) as u32 });
                    }
                }
                5 => {
                    if !b.offered.is_empty() {
                        let i = rng.usize(b.offered.len());
                        let x = b.offered.remove(i);
                        if rng.bool() { b.cp_sat += x.value_sat } else { b.holder_sat += x.value_sat }
                    }
                }
                6 => {
                    if !b.received.is_empty() {
                        let i = rng.usize(b.received.len());
                        let x = b.received.remove(i);
                        if rng.bool() { b.holder_sat += x.value_sat } else { b.cp_sat += x.value_sat }
                    }
                }
                _ => {
                    b.feerate = rng.range(300, 4_000) as u32;
                }
            }
        }
        let c = b.content(setup)?;
        Some((b, c))
    }

    // ---- ghost ledger

    fn outgoing_sat(&self, h: &PaymentHash, override_h: Option<(usize, &Content)>, override_c: Option<(usize, &Content)>) -> u64 {
        let mut total = 0;
        for (i, ch) in self.chans.iter().enumerate() {
            let hc = match override_h { Some((j, c)) if j == i => Some(c), _ => ch.h_cur.as_ref() };
            let cc = match override_c { Some((j, c)) if j == i => Some(c), _ => ch.c_cur.as_ref() };
            let a = hc.map(|c| sum_hash(&c.offered, h)).unwrap_or(0);
            let b = cc.map(|c| sum_hash(&c.offered, h)).unwrap_or(0);
            total += a.max(b);
        }
        total
    }

    fn incoming_sat(&self, h: &PaymentHash, override_h: Option<(usize, &Content)>, override_c: Option<(usize, &Content)>) -> u64 {
        let mut total = 0;
        for (i, ch) in self.chans.iter().enumerate() {
            let hc = match override_h { Some((j, c)) if j == i => Some(c), _ => ch.h_cur.as_ref() };
            let cc = match override_c { Some((j, c)) if j == i => Some(c), _ => ch.c_cur.as_ref() };
            let a = hc.map(|c| sum_hash(&c.received, h));
            let b = cc.map(|c| sum_hash(&c.received, h));
            total += match (a, b) {
                (Some(a), Some(b)) => a.min(b),
                (Some(a), None) => a,
                (None, Some(b)) => b,
                (None, None) => 0,
            };
        }
        total
    }

    /// look at the invoices the signer holds (called after approval requests and heartbeats only)
    fn observe_held(&mut self) {
        let st = self.world.node.get_state();
        for p in self.pool.iter_mut() {
            p.held_msat = st.invoices.get(&p.hash).map(|i| i.amount_msat);
        }
    }

    fn ledger_json(&self) -> Value {
        let mut v = vec![];
        for ch in &self.chans {
            v.push(json!({"holder_current": ch.h_cur.as_ref().map(|c| c.to_json()), "holder_pending": ch.h_pending.as_ref().map(|(n, c)| json!([n, c.to_json()])), "counterparty_current": ch.c_cur.as_ref().map(|c| c.to_json())}));
        }
        json!({"channels": v, "approved": self.pool.iter().map(|p| json!([hex::encode(&p.hash.0[..4]), p.approved_msat, p.preimage_given])).collect::<Vec<_>>() })
    }

    fn witness(&self, cli: &Cli, what: Value) -> Value {
        let tail: Vec<Value> = self.log.iter().rev().take(50).rev().cloned().collect();
        json!({"seed": cli.seed, "shard": self.shard, "history": self.index, "what": what, "ghost_ledger": self.ledger_json(), "history_tail": tail})
    }

    /// Clause 1: after every accepted update, for every approved hash.
    /// `after` = None when called right after an approval (to detect inherited imbalance).
    fn check_conservation(&mut self, r: &mut Report, cli: &Cli, after: Option<&str>) {
        for k in 0..self.pool.len() {
            let hash = self.pool[k].hash;
            if self.pool[k].approved_msat.is_none() {
                continue;
            }
            // the property speaks of hashes "with an approved invoice": an invoice that expired or was
            // fulfilled and then pruned by a heartbeat is no longer one (the hash then falls under the
            // tolerated already-known-uninvoiced case, issue 331).  Whether the signer still holds the
            // invoice, and its amount, is observed through its public state.
            let held = self.pool[k].held_msat;
            if held.is_some() != self.world.node.get_state().invoices.contains_key(&hash) {
                r.count("clause1.signer_invoice_set_changed_outside_approval_and_heartbeat");
            }
            let amount = match held {
                Some(a) => a,
                None => {
                    r.count("clause1.skipped_invoice_no_longer_held");
                    self.pool[k].violating = false;
                    self.pool[k].tainted = true; // whatever happens while uninvoiced is inherited
                    continue;
                }
            };
            let out = self.outgoing_sat(&hash, None, None) as u128 * 1000;
            let inc = self.incoming_sat(&hash, None, None) as u128 * 1000;
            let bound = inc + amount as u128 + self.max_routing_fee_msat as u128;
            let exceeded = out > bound;
            match after {
                None => {
                    // just approved
                    self.pool[k].tainted = exceeded;
                    if exceeded {
                        r.count("clause1.imbalance_inherited_at_approval");
                    }
                    self.pool[k].violating = false;
                }
                Some(after) => {
                    if self.pool[k].tainted {
                        if !exceeded {
                            self.pool[k].tainted = false;
                        } else {
                            r.count("clause1.skipped_inherited_imbalance");
                            continue;
                        }
                    }
                    r.count("clause1.evaluations");
                    if out > 0 {
                        r.count("clause1.evaluations_with_outgoing");
                    }
                    if exceeded && !self.pool[k].violating {
                        let multi = self.chans.iter().filter(|ch| ch.h_cur.as_ref().map(|c| sum_hash(&c.offered, &hash) > 0).unwrap_or(false) || ch.c_cur.as_ref().map(|c| sum_hash(&c.offered, &hash) > 0).unwrap_or(false)).count();
                        let sig = if self.pool[k].reapproved_with_inflight {
                            "c06:invoice-overpaid-in-flight:hash-reapproved-with-htlcs-still-in-flight".to_string()
                        } else {
                            format!("c06:invoice-overpaid-in-flight:after-{}:{}", after, if multi > 1 { "multi-channel" } else { "single-channel" })
                        };
                        let signer_view = {
                            let st = self.world.node.get_state();
                            format!("{:?} invoice={:?}", st.payments.get(&hash), st.invoices.get(&hash))
                        };
                        r.violation(&sig, self.witness(cli, json!({"hash": hex::encode(&hash.0[..4]), "outgoing_msat": out.to_string(), "incoming_msat": inc.to_string(), "approved_msat": amount, "max_routing_fee_msat": self.max_routing_fee_msat, "signer_internal_view_for_diagnosis": signer_view})));
                    }
                    self.pool[k].violating = exceeded;
                }
            }
        }
    }

    /// Clause 2, evaluated when an update is ACCEPTED: a never-seen uninvoiced hash must be
    /// covered by incoming value for the same hash in the same update
    fn check_unbacked(&self, r: &mut Report, cli: &Cli, c: usize, content: &Content, holder_side: bool) {
        let mut hashes: BTreeSet<[u8; 32]> = BTreeSet::new();
        for x in &content.offered {
            hashes.insert(x.payment_hash.0);
        }
        for hb in hashes {
            let h = PaymentHash(hb);
            let p = self.pool.iter().find(|p| p.hash == h);
            let invoiced = p.map(|p| p.approved_msat.is_some()).unwrap_or(false)
                || self.world.node.get_state().invoices.contains_key(&h);
            let known_preimage = p.map(|p| p.preimage_given).unwrap_or(false);
            if invoiced || known_preimage || self.seen.contains(&hb) {
                continue;
            }
            r.count("clause2.evaluations");
            let (oh, oc) = if holder_side { (Some((c, content)), None) } else { (None, Some((c, content))) };
            let out = self.outgoing_sat(&h, oh, oc);
            let inc = self.incoming_sat(&h, oh, oc);
            // incoming in the same update: also accept incoming visible in this content alone
            let inc_here = sum_hash(&content.received, &h);
            if out > inc.max(inc_here) {
                r.violation(
                    if holder_side { "c06:unbacked-uninvoiced-outgoing-htlc-accepted:holder-commitment" } else { "c06:unbacked-uninvoiced-outgoing-htlc-accepted:counterparty-commitment" },
                    self.witness(cli, json!({"channel": c, "hash": hex::encode(&hb[..4]), "outgoing_sat": out, "incoming_sat": inc, "content": content.to_json()})),
                );
            }
        }
    }

    /// hashes offered in this content that are uninvoiced, never seen in an accepted update and without known preimage
    fn fresh_unbacked(&self, content: &Content) -> usize {
        let mut n = 0;
        let mut hashes: BTreeSet<[u8; 32]> = BTreeSet::new();
        for x in &content.offered {
            hashes.insert(x.payment_hash.0);
        }
        for hb in hashes {
            let h = PaymentHash(hb);
            let p = self.pool.iter().find(|p| p.hash == h);
            let invoiced = p.map(|p| p.approved_msat.is_some()).unwrap_or(false) || self.world.node.get_state().invoices.contains_key(&h);
            let known_preimage = p.map(|p| p.preimage_given).unwrap_or(false);
            if !(invoiced || known_preimage || self.seen.contains(&hb)) {
                n += 1;
            }
        }
        n
    }

    fn note_seen(&mut self, content: &Content) {
        for x in content.offered.iter().chain(content.received.iter()) {
            self.seen.insert(x.payment_hash.0);
        }
    }
}

fn make_invoice(now: u64, tag: u64, hash: &PaymentHash, amount_msat: u64) -> Invoice {
    let mut sec = [0u8; 32];
    sec[..8].copy_from_slice(&tag.to_le_bytes());
    let key = SecretKey::from_slice(&[42; 32]).unwrap();
    Invoice::Bolt11(
        InvoiceBuilder::new(Currency::Regtest)
            .description("verif".into())
            .payment_hash(sha256::Hash::from_byte_array(hash.0))
            .payment_secret(PaymentSecret(sec))
            .duration_since_epoch(Duration::from_secs(now))
            .min_final_cltv_expiry_delta(144)
            .amount_milli_satoshis(amount_msat)
            .build_signed(|h| Secp256k1::new().sign_ecdsa_recoverable(h, &key))
            .unwrap(),
    )
}

fn run_history(rng: &mut Rng, r: &mut Report, cli: &Cli, shard: usize, index: u64, steps: u64) {
    let mut h = match Hist::new(rng, shard, index) {
        Some(h) => h,
        None => {
            r.count("bootstrap_failed");
            return;
        }
    };
    let payee = PublicKey::from_secret_key(&h.secp, &SecretKey::from_slice(&[5; 32]).unwrap());
    for _ in 0..steps {
        r.eval(1);
        let c = rng.usize(h.chans.len());
        let (nh, pending, nc, nr) = h.peek(c);
        let id = h.chans[c].m.id0.clone();
        let op = rng.weighted(&[22, 18, 22, 14, 8, 4, 4, 3, 3, 2]);
        match op {
            0 => {
                // validate a new holder commitment (or retry the pending one)
                let setup = h.chans[c].m.setup.clone();
                let (bal, content) = if pending {
                    match &h.chans[c].h_pending { Some((_, cn)) => (h.chans[c].h_bal.clone(), cn.clone()), None => continue }
                } else {
                    match h.mutate(rng, &h.chans[c].h_bal, &setup) { Some(x) => x, None => continue }
                };
                let (sig, hs) = match report::catch(|| h.chans[c].m.cp_sign_holder_commitment(&h.secp, nh, &content)) { Ok(x) => x, Err(_) => continue };
                let cc = content.clone();
                let fresh = h.fresh_unbacked(&content);
                if fresh > 0 {
                    r.count("clause2.attempts");
                }
                let res = status(report::catch(|| h.world.node.with_channel(&id, |ch| ch.validate_holder_commitment_tx_phase2(nh, cc.feerate_per_kw, cc.to_holder_sat, cc.to_counterparty_sat, cc.offered.clone(), cc.received.clone(), &sig, &hs))));
                h.log.push(json!(["validate_holder", c, nh, content.to_json(), res.as_ref().err()]));
                match res {
                    Ok(()) => {
                        r.count("holder.validate.ok");
                        h.check_unbacked(r, cli, c, &content, true);
                        h.chans[c].h_bal = bal;
                        h.chans[c].h_pending = Some((nh, content.clone()));
                        h.note_seen(&content);
                        h.check_conservation(r, cli, Some("validate-holder"));
                    }
                    Err(e) => {
                        if fresh > 0 {
                            r.count("clause2.attempts_refused");
                        }
                        r.count("holder.validate.refused");
                        r.set_add("refusals", &e.chars().filter(|c| !c.is_ascii_digit()).take(90).collect::<String>());
                    }
                }
            }
            1 => {
                // revoke: the pending holder commitment becomes current
                let res = status(report::catch(|| h.world.node.with_channel(&id, |ch| ch.revoke_previous_holder_commitment(nh))));
                h.log.push(json!(["revoke", c, nh, res.as_ref().err()]));
                match res {
                    Ok(_) => {
                        if pending {
                            r.count("holder.revoke.advanced");
                            if let Some((n, cn)) = h.chans[c].h_pending.take() {
                                if n == nh {
                                    h.chans[c].h_cur = Some(cn);
                                }
                            }
                            h.check_conservation(r, cli, Some("revoke"));
                        }
                    }
                    Err(e) => {
                        r.count("holder.revoke.refused");
                        r.set_add("refusals", &e.chars().filter(|c| !c.is_ascii_digit()).take(90).collect::<String>());
                    }
                }
            }
            2 => {
                // sign a new counterparty commitment
                if nc > nr + 1 {
                    continue; // must revoke first
                }
                let setup = h.chans[c].m.setup.clone();
                let (bal, content) = match h.mutate(rng, &h.chans[c].c_bal, &setup) { Some(x) => x, None => continue };
                let point = h.chans[c].m.cp.point(&h.secp, nc);
                let cc = content.clone();
                let fresh = h.fresh_unbacked(&content);
                if fresh > 0 {
                    r.count("clause2.attempts");
                }
                let res = status(report::catch(|| h.world.node.with_channel(&id, |ch| ch.sign_counterparty_commitment_tx_phase2(&point, nc, cc.feerate_per_kw, cc.to_holder_sat, cc.to_counterparty_sat, cc.received.clone(), cc.offered.clone()))));
                h.log.push(json!(["sign_counterparty", c, nc, content.to_json(), res.as_ref().err()]));
                match res {
                    Ok(_) => {
                        r.count("cp.sign.ok");
                        h.check_unbacked(r, cli, c, &content, false);
                        h.chans[c].c_bal = bal;
                        h.chans[c].c_cur = Some(content.clone());
                        h.note_seen(&content);
                        h.check_conservation(r, cli, Some("sign-counterparty"));
                    }
                    Err(e) => {
                        if fresh > 0 {
                            r.count("clause2.attempts_refused");
                        }
                        r.count("cp.sign.refused");
                        r.set_add("refusals", &e.chars().filter(|c| !c.is_ascii_digit()).take(90).collect::<String>());
                    }
                }
            }
            3 => {
                if nr < nc.saturating_sub(0) && nc >= 1 && nr + 1 <= nc {
                    let secret = h.chans[c].m.cp.secret(nr);
                    let res = status(report::catch(|| h.world.node.with_channel(&id, |ch| ch.validate_counterparty_revocation(nr, &secret))));
                    h.log.push(json!(["validate_revocation", c, nr, res.as_ref().err()]));
                    if res.is_ok() { r.count("cp.revoke.ok") } else { r.count("cp.revoke.refused") }
                }
            }
            4 => {
                // approve an invoice or keysend for a pool hash
                let k = rng.usize(h.pool.len());
                let hash = h.pool[k].hash;
                let amount = rng.range(10_000, 120_000) * 1000;
                let now = h.world.now();
                let res = if rng.bool() {
                    h.invoice_ctr += 1;
                    let inv = make_invoice(now, h.invoice_ctr, &hash, amount);
                    status(report::catch(|| h.world.node.add_invoice(inv)))
                } else {
                    status(report::catch(|| h.world.node.add_keysend(payee, hash, amount)))
                };
                h.log.push(json!(["approve", hex::encode(&hash.0[..4]), amount, format!("{:?}", res)]));
                h.observe_held();
                if let Ok(false) = res {
                    r.count("approval_refused");
                    if h.pool[k].approved_msat.is_none() && h.pool[k].held_msat.is_none() {
                        r.count("approval_refused_for_never_approved_hash");
                    }
                }
                if let Ok(true) = res {
                    if h.pool[k].approved_msat.is_none() {
                        r.count("approved");
                    } else if h.pool[k].approved_msat != Some(amount) && h.outgoing_sat(&hash, None, None) > 0 {
                        h.pool[k].reapproved_with_inflight = true;
                        r.count("reapproved_with_htlcs_in_flight");
                    }
                    h.pool[k].approved_msat = Some(amount);
                    h.check_conservation(r, cli, None);
                }
            }
            5 => {
                let k = rng.usize(h.pool.len());
                let pre = h.pool[k].preimage;
                let _ = report::catch(|| h.world.node.with_channel(&id, |ch| { ch.htlcs_fulfilled(vec![PaymentPreimage(pre)]); Ok(()) }));
                h.pool[k].preimage_given = true;
                h.log.push(json!(["preimage", c, hex::encode(&h.pool[k].hash.0[..4])]));
                r.count("preimage");
            }
            6 => {
                let _ = report::catch(|| h.world.node.get_heartbeat());
                h.observe_held();
                h.log.push(json!(["heartbeat"]));
            }
            7 => {
                match h.world.restart() {
                    Ok(()) => { r.count("restart"); h.log.push(json!(["restart"])); }
                    Err(e) => { r.inconclusive(&format!("restart failed: {}", e)); return; }
                }
            }
            8 => {
                let _ = h.world.add_empty_block();
            }
            _ => {
                h.world.advance_time(if rng.chance(1, 10) { rng.range(30, 4000) } else { rng.range(1, 5) });
            }
        }
        if cli.extra.contains_key("only") {
            let st = h.world.node.get_state();
            let mut v: Vec<String> = st.payments.iter().map(|(k, p)| format!("{}: in={:?} out={:?} pre={}", hex::encode(&k.0[..4]), p.incoming.values().collect::<Vec<_>>(), p.outgoing.values().collect::<Vec<_>>(), p.preimage.is_some())).collect();
            v.sort();
            let inv: Vec<String> = st.invoices.iter().map(|(k, i)| format!("{}:{}", hex::encode(&k.0[..4]), i.amount_msat)).collect();
            eprintln!("{} | now={} payments={:?} invoices={:?}", h.log.last().map(|x| x.to_string()).unwrap_or_default().chars().take(230).collect::<String>(), h.world.now(), v, inv);
        }
        if h.log.len() > 300 {
            h.log.drain(0..150);
        }
    }
    // distinct situations: (channels using an approved hash, pending-on-A while signing-on-B...) summarised by ledger shape
    let shape: Vec<String> = h.chans.iter().map(|ch| format!("{}{}{}", ch.h_cur.as_ref().map(|c| c.htlc_count().min(3)).unwrap_or(9), ch.h_pending.is_some() as u8, ch.c_cur.as_ref().map(|c| c.htlc_count().min(3)).unwrap_or(9))).collect();
    r.distinct_hash(fnv_str(&format!("{}:{}", shape.join("-"), h.pool.iter().filter(|p| p.approved_msat.is_some()).count())));
    // number of approved hashes in flight on >= 2 channels at the end
    for p in &h.pool {
        if p.approved_msat.is_some() {
            let n = h.chans.iter().filter(|ch| ch.h_cur.as_ref().map(|c| sum_hash(&c.offered, &p.hash) > 0).unwrap_or(false)).count();
            if n >= 2 {
                r.count("approved_hash_in_flight_on_2plus_channels_at_end");
            }
        }
    }
    if index < 1 && shard == 0 {
        r.sample(json!({"history": index, "first_ops": h.log.iter().take(20).collect::<Vec<_>>() }));
    }
}

fn main() {
    let cli = Cli::parse("C06");
    report::install_quiet_panic_hook();
    let start = Instant::now();
    let quick = cli.tier.is_quick();
    let shards = if quick { 16 } else { 64 };
    let (histories, steps) = if quick { (25, 150) } else { (250, 220) };
    let histories = cli.scaled(histories);
    let mut report = run_sharded("C06", cli.threads, shards, |i, r| {
        let mut rng = Rng::new(cli.seed.wrapping_mul(9_000_011).wrapping_add(i as u64));
        let only: Option<(usize, u64)> = cli.extra.get("only").and_then(|s| s.split_once(':').map(|(a, b)| (a.parse().unwrap_or(0), b.parse().unwrap_or(0))));
        for hidx in 0..histories {
            let mut hr = rng.fork(hidx);
            if let Some((os, oh)) = only {
                if os != i || oh != hidx {
                    continue;
                }
            }
            run_history(&mut hr, r, &cli, i, hidx, steps);
        }
    });
    report.require("clause1.evaluations_with_outgoing", 1000);
    report.require("clause2.attempts", 100);
    report.require("holder.revoke.advanced", 500);
    report.require("cp.sign.ok", 500);
    report.require("restart", 50);
    finish(
        report,
        FinishSpec {
            cli: &cli,
            level: "exploration",
            rule: "histories on one node with 2-3 channels and 1-4 payment hashes: real commitment updates on both sides of each channel (harness-made counterparty signatures), HTLC add/remove with multi-part splits, holder and counterparty views allowed to diverge, invoice/keysend approval before and after HTLCs, preimages, heartbeats, restarts, hostile orders (validate on A, sign on B, revoke on A). Oracle over a ghost ledger of accepted contents: sum over channels of max(holder offered, counterparty view offered) <= sum over channels of min(received views) + approved amount + max routing fee, after every accepted update; never-seen uninvoiced outgoing hashes must be covered by incoming value in the same update. distinct = final ledger shape per history (HTLC counts per commitment, pending flag, approved hash count)",
            assumptions: vec![
                "the holder commitment becomes 'current' for the ledger when its revoke request returns Ok (commitment 0: activation)".into(),
                "already-known uninvoiced hashes (issue 331) are excluded as the property says".into(),
            ],
            start,
            extra_coverage: Default::default(),
        },
    );
}
