//! C15 — channel state is discarded only when safely buried, and ids are never reused.
//!
//! Workload: seeded histories over one real `Node` (regtest, memory KVV store) interleaving
//! `new_channel(dbid)` (dbid below / equal / above the ids already forgotten), `setup_channel`,
//! `unchecked_sign_onchain_tx` (tells the signer the funding inputs), counterparty commitment
//! signing, `forget_channel`, `get_heartbeat` (the only place that prunes), `restart()`, and a
//! block chain built here: funding confirmations, double-spends of a funding input, mutual
//! closes, unilateral closes (holder / counterparty commitment built with LDK chan_utils from the
//! parameters the harness itself sent) with or without sweeps, burial runs that stop at
//! 98/99/100/101/.. confirmations, and reorgs that un-bury or un-confirm the closing event.
//!
//! About half of the channels are advanced, right after `setup_channel`, through the real
//! commitment flow (validate holder commitment 0 / activate, sign counterparty commitment 0, add
//! keysend payments, sign counterparty commitment 1 with 1-3 HTLCs, counterparty revocation of 0,
//! validate holder commitment 1 with the same HTLCs, revoke holder commitment 0, sometimes tell
//! the node a preimage).  Their unilateral closes (holder or counterparty commitment 1) carry
//! offered and received HTLC outputs of 20_000..200_000 sat.  The chain then contains spends of
//! those outputs (holder commitment: the node's second-level HTLC-timeout / HTLC-success
//! transaction built with `chan_utils::build_htlc_transaction`, or a direct spend by "the
//! counterparty"; counterparty commitment: a direct sweep), sweeps of the outputs of those
//! spenders, partial sweeps left alone for 100..130 blocks with forget requested, complete
//! sweeps followed by burial runs, and reorgs that disconnect only the last HTLC-related sweep
//! while the sweep of the main output stays confirmed (not re-mined, or re-mined much later).
//!
//! Ghost model (from the chain built here, never from the monitor): per channel
//! `forget_requested` and the number of confirmations on the CURRENT best chain of (a) a funding
//! double-spend, (b) a mutual close, (c) a unilateral close all of whose node-owned outputs are
//! spent: the main output (to_local / to_remote), every HTLC output that the node offered (it gets
//! those back by timeout whatever happens), and, where such an HTLC output of a holder commitment
//! was spent by the node's own second-level transaction, the output of that transaction;
//! confirmations counted from the last of those transactions.  Deliberately NOT required, so that
//! the ghost is never stricter than the signer: HTLC outputs the node received (claimable only
//! with a preimage; the signer tracks them only while it holds the preimage, which the node-state
//! persistence does not guarantee across restarts), and the output of a transaction that is not
//! the node's second-level transaction (the signer waits for output #input-index of ANY spender of
//! a tracked HTLC output; that is a liveness matter, counted separately).
//!
//! Oracle 1 (after every heartbeat, restart and forget): a Ready channel missing from
//! `node.get_channel(id0)` or from `persister.get_node_channels()` => `forget_requested` and one
//! of the events has >= 100 confirmations (the implementation counts the confirming block as
//! depth 1; one block of slack is given, so only < 99 is flagged).
//! Oracle 2: after a successful `forget_channel` of an existing channel with dbid d, a
//! `new_channel(d' <= d)` that creates a channel is a violation, also after restart.

use lightning_signer::bitcoin::absolute::LockTime;
use lightning_signer::bitcoin::bip32::{ChildNumber, DerivationPath};
use lightning_signer::bitcoin::block::Header as BlockHeader;
use lightning_signer::bitcoin::hash_types::FilterHeader;
use lightning_signer::bitcoin::hashes::{sha256, Hash};
use lightning_signer::bitcoin::secp256k1::ecdsa::Signature;
use lightning_signer::bitcoin::secp256k1::{All, Message, PublicKey, Secp256k1, SecretKey};
use lightning_signer::bitcoin::sighash::{EcdsaSighashType, SighashCache};
use lightning_signer::bitcoin::transaction::Version;
use lightning_signer::bitcoin::{
    Amount, CompressedPublicKey, OutPoint, ScriptBuf, Sequence, Transaction, TxIn, TxOut, Txid,
    Witness,
};
use lightning_signer::chain::tracker::Headers;
use lightning_signer::channel::{ChannelId, ChannelSetup, ChannelSlot, CommitmentType};
use lightning_signer::lightning::chain::transaction::OutPoint as LdkOutPoint;
use lightning_signer::lightning::ln::chan_utils::{
    build_htlc_transaction, derive_private_key, get_htlc_redeemscript, get_revokeable_redeemscript,
    get_to_countersignatory_with_anchors_redeemscript, make_funding_redeemscript, ChannelPublicKeys,
    ChannelTransactionParameters, CommitmentTransaction, CounterpartyChannelTransactionParameters,
    HTLCOutputInCommitment, TxCreationKeys,
};
use lightning_signer::lightning::ln::channel_keys::{
    DelayedPaymentBasepoint, HtlcBasepoint, RevocationBasepoint,
};
use lightning_signer::lightning::types::payment::{PaymentHash, PaymentPreimage};
use lightning_signer::node::{Node, SpendType};
use lightning_signer::tx::tx::HTLCInfo2;
use lightning_signer::txoo::proof::TxoProof;
use lightning_signer::util::test_utils::{make_block, make_test_funding_wallet_input};
use serde_json::{json, Value};
use std::collections::{HashMap, HashSet};
use std::sync::Arc;
use std::time::Instant;
use vls_verif::oracle::commitment_secret;
use vls_verif::report::{self, finish, run_sharded, FinishSpec};
use vls_verif::world::{World, WorldCfg};
use vls_verif::{Cli, Report, Rng};

/// "the required number of blocks" of the property (vls-core/src/monitor.rs MIN_DEPTH)
const REQUIRED_DEPTH: u32 = 100;
/// one block of slack for the reading of "buried by N blocks" (confirming block counted or not)
const FLAG_BELOW: u32 = REQUIRED_DEPTH - 1;
const INITIAL_COMMITMENT_NUMBER: u64 = (1 << 48) - 1;
const MAX_BLOCKS_PER_HISTORY: u32 = 340;

// ---------------------------------------------------------------------------------------------
// chain model
// ---------------------------------------------------------------------------------------------

struct Blk {
    header: BlockHeader,
    fh: FilterHeader,
    txs: Vec<Transaction>,
}

struct Chain {
    blocks: Vec<Blk>,
    conf: HashMap<Txid, u32>,
    spent: HashMap<OutPoint, (u32, Txid)>,
    salt: u32,
    total_connected: u32,
}

impl Chain {
    fn height(&self) -> u32 {
        (self.blocks.len() - 1) as u32
    }
    /// confirmations of something that happened in the block at height h
    fn depth_of(&self, h: u32) -> u32 {
        self.height() + 1 - h
    }
    fn index_add(&mut self, h: u32, txs: &[Transaction]) {
        for tx in txs.iter().skip(1) {
            let txid = tx.compute_txid();
            self.conf.insert(txid, h);
            for i in tx.input.iter() {
                self.spent.insert(i.previous_output, (h, txid));
            }
        }
    }
    fn index_remove(&mut self, txs: &[Transaction]) {
        for tx in txs.iter().skip(1) {
            let txid = tx.compute_txid();
            self.conf.remove(&txid);
            for i in tx.input.iter() {
                self.spent.remove(&i.previous_output);
            }
        }
    }
}

// ---------------------------------------------------------------------------------------------
// ghost channels
// ---------------------------------------------------------------------------------------------

#[derive(Clone, Copy, PartialEq, Eq, Debug)]
enum Stage {
    Stub,
    Ready,
    /// stub removed (forgotten or aged out) — outside the property
    StubGone,
    /// Ready channel observed missing with the ghost condition satisfied
    Pruned,
    /// Ready channel observed missing in violation (already reported once)
    Lost,
}

#[derive(Clone, Copy, PartialEq, Eq, Debug)]
enum CloseKind {
    Mutual,
    Holder,
    Counterparty,
}

/// an HTLC output of a unilateral closing transaction (known by construction)
#[derive(Clone)]
struct HtlcOut {
    vout: u32,
    value: u64,
    /// offered by the node (an outgoing payment): the node gets it back by timeout, so it is a
    /// node-owned output whatever happens (the only HTLC outputs the ghost requires to be spent)
    ours_offered: bool,
    /// received by the node, and the node was told the preimage before the close (the signer then
    /// tracks this output too as long as it still holds the preimage; the ghost does not rely on it)
    preimage_told: bool,
    /// holder commitment only: the node's own second-level transaction for this output
    /// (HTLC-timeout for an offered, HTLC-success for a received HTLC), 1 input, 1 output
    second_level: Option<(Txid, Transaction)>,
}

struct CloseTx {
    tx: Transaction,
    txid: Txid,
    kind: CloseKind,
    /// outputs of this closing transaction that belong to the node (known by construction)
    ours: Vec<u32>,
    /// some other output (the counterparty's), if any
    theirs: Option<u32>,
    /// HTLC outputs (empty for mutual closes and for channels that were not advanced)
    htlcs: Vec<HtlcOut>,
}

/// state of a channel that was advanced to commitment 1 (both sides) with HTLCs
#[derive(Clone)]
struct Adv {
    feerate: u32,
    to_holder: u64,
    to_cp: u64,
    /// from the node's point of view
    offered: Vec<HTLCInfo2>,
    received: Vec<HTLCInfo2>,
    /// payment hashes of received HTLCs whose preimage the node was told
    told: Vec<PaymentHash>,
}

struct GChan {
    dbid: u64,
    peer: usize,
    id0: ChannelId,
    perm_id: Option<ChannelId>,
    stage: Stage,
    setup: Option<ChannelSetup>,
    holder_points: Option<ChannelPublicKeys>,
    /// the counterparty's commitment seed (its per-commitment secrets / points derive from it)
    cp_seed: [u8; 32],
    /// the counterparty's funding and HTLC base secrets (to sign holder commitments)
    cp_secrets: Option<(SecretKey, SecretKey)>,
    cp_signed: bool,
    /// Some: commitment 1 with HTLCs is the current commitment of both sides
    adv: Option<Adv>,
    /// the advance stopped half-way (a refusal): no unilateral close is generated for this channel
    adv_broken: bool,
    /// transactions built here that spend outputs of a closing transaction or of such a spender
    aux: HashMap<Txid, Transaction>,
    /// height at which the last HTLC-related sweep stood before a reorg removed only it (macro)
    stale_last_h: Option<u32>,
    funding: Option<Transaction>,
    inputs_known: bool,
    forget_requested: bool,
    restarts_since_forget: u64,
    /// the tracker (which carries the monitor's forget flag) was persisted after the last forget
    flag_persisted: bool,
    /// a restart happened while the forget flag was only in memory (DESIGN.md E9)
    forget_lost: bool,
    closes: Vec<CloseTx>,
    /// max over time of the qualifying depth (to name the reorg case)
    max_depth_seen: u32,
}

impl GChan {
    fn funding_outpoint(&self) -> Option<OutPoint> {
        self.setup.as_ref().map(|s| s.funding_outpoint)
    }
    fn funding_txid(&self) -> Option<Txid> {
        self.funding.as_ref().map(|t| t.compute_txid())
    }
}

/// Where the unilateral close that spends the funding outpoint on the current best chain stands
/// (everything from the harness's own chain index)
#[derive(Clone, Copy, Debug)]
struct UniStatus {
    holder: bool,
    has_htlcs: bool,
    /// height of the (last) sweep of the node's main output; the close height if it has none;
    /// None while unswept
    main_h: Option<u32>,
    has_main: bool,
    /// HTLC outputs offered by the node that are unspent
    missing_htlc: u32,
    /// outputs of the node's second-level transactions (for HTLCs it offered) that are unspent
    missing_second: u32,
    /// height of the last required transaction seen so far (close, sweeps)
    last_h: u32,
    /// the last required transaction is an HTLC spend / second-level sweep strictly above main_h
    last_is_htlc: bool,
    /// what the signer additionally waits for and is still unspent: received HTLC outputs whose
    /// preimage it was told, output #0 of any other spender of a tracked HTLC output
    impl_extra_missing: u32,
    /// height of the last transaction the signer waits for (required ones and extra ones)
    impl_last_h: u32,
}

impl UniStatus {
    fn qualifies(&self) -> bool {
        self.main_h.is_some() && self.missing_htlc == 0 && self.missing_second == 0
    }
}

fn uni_status(c: &GChan, chain: &Chain) -> Option<UniStatus> {
    let fo = c.funding_outpoint()?;
    let (h, by) = chain.spent.get(&fo)?;
    let cl = c.closes.iter().find(|x| x.txid == *by && x.kind != CloseKind::Mutual)?;
    let mut st = UniStatus {
        holder: cl.kind == CloseKind::Holder,
        has_htlcs: !cl.htlcs.is_empty(),
        main_h: Some(*h),
        has_main: !cl.ours.is_empty(),
        missing_htlc: 0,
        missing_second: 0,
        last_h: *h,
        last_is_htlc: false,
        impl_extra_missing: 0,
        impl_last_h: *h,
    };
    for v in cl.ours.iter() {
        match chain.spent.get(&OutPoint { txid: cl.txid, vout: *v }) {
            Some((hs, _)) => {
                st.main_h = st.main_h.map(|m| m.max(*hs));
                st.last_h = st.last_h.max(*hs);
            }
            None => st.main_h = None,
        }
    }
    let mut htlc_last = 0u32;
    for ht in cl.htlcs.iter() {
        let spent = chain.spent.get(&OutPoint { txid: cl.txid, vout: ht.vout });
        if ht.ours_offered {
            match spent {
                Some((hs, by)) => {
                    htlc_last = htlc_last.max(*hs);
                    let is_second = ht.second_level.as_ref().map(|(t, _)| t == by).unwrap_or(false);
                    match chain.spent.get(&OutPoint { txid: *by, vout: 0 }) {
                        Some((h2, _)) => {
                            if is_second {
                                htlc_last = htlc_last.max(*h2);
                            }
                            st.impl_last_h = st.impl_last_h.max(*h2);
                        }
                        None =>
                            if is_second {
                                st.missing_second += 1;
                            } else {
                                st.impl_extra_missing += 1;
                            },
                    }
                }
                None => st.missing_htlc += 1,
            }
        } else if ht.preimage_told {
            match spent {
                Some((hs, by)) => {
                    st.impl_last_h = st.impl_last_h.max(*hs);
                    match chain.spent.get(&OutPoint { txid: *by, vout: 0 }) {
                        Some((h2, _)) => st.impl_last_h = st.impl_last_h.max(*h2),
                        None => st.impl_extra_missing += 1,
                    }
                }
                None => st.impl_extra_missing += 1,
            }
        }
    }
    st.last_h = st.last_h.max(htlc_last);
    st.impl_last_h = st.impl_last_h.max(st.last_h);
    st.last_is_htlc = match st.main_h {
        Some(m) => htlc_last > m,
        None => false,
    };
    Some(st)
}

/// Ghost: (confirmations, kind) of the deepest qualifying event on the current best chain
fn qualifying_depth(c: &GChan, chain: &Chain) -> (u32, &'static str) {
    let mut best = (0u32, "none");
    let ftx = match &c.funding {
        Some(t) => t,
        None => return best,
    };
    let ftxid = ftx.compute_txid();
    // (a) a funding input spent by something else than the funding transaction
    for i in ftx.input.iter() {
        if let Some((h, by)) = chain.spent.get(&i.previous_output) {
            if *by != ftxid {
                let d = chain.depth_of(*h);
                if d > best.0 {
                    best = (d, "double-spend");
                }
            }
        }
    }
    // (b), (c) the spender of the funding outpoint
    if let Some(fo) = c.funding_outpoint() {
        if let Some((h, by)) = chain.spent.get(&fo) {
            if let Some(cl) = c.closes.iter().find(|x| x.txid == *by) {
                match cl.kind {
                    CloseKind::Mutual => {
                        let d = chain.depth_of(*h);
                        if d > best.0 {
                            best = (d, "mutual");
                        }
                    }
                    CloseKind::Holder | CloseKind::Counterparty => {
                        // main output spent, every HTLC output the node offered spent, and the
                        // output of each of the node's second-level transactions that did so
                        if let Some(st) = uni_status(c, chain) {
                            if st.qualifies() {
                                let d = chain.depth_of(st.last_h);
                                if d > best.0 {
                                    best = (
                                        d,
                                        if cl.kind == CloseKind::Holder {
                                            "unilateral-holder-swept"
                                        } else {
                                            "unilateral-counterparty-swept"
                                        },
                                    );
                                }
                            }
                        }
                    }
                }
            }
        }
    }
    best
}

/// coarse chain situation of a channel (evidence only)
fn situation(c: &GChan, chain: &Chain) -> &'static str {
    let (d, k) = qualifying_depth(c, chain);
    if d > 0 {
        return k;
    }
    let confirmed = c.funding_txid().map(|t| chain.conf.contains_key(&t)).unwrap_or(false);
    if let Some(st) = uni_status(c, chain) {
        if st.has_htlcs {
            return if st.main_h.is_some() && st.has_main {
                if st.missing_htlc > 0 {
                    "unilateral-main-swept-htlc-output-unswept"
                } else {
                    "unilateral-main-swept-second-level-unswept"
                }
            } else {
                "unilateral-with-htlcs-unswept"
            };
        }
    }
    if let Some(fo) = c.funding_outpoint() {
        if chain.spent.contains_key(&fo) {
            return "unilateral-unswept";
        }
    }
    if confirmed {
        "open"
    } else {
        "unconfirmed"
    }
}

fn depth_bucket(d: u32) -> &'static str {
    match d {
        0 => "0",
        1..=9 => "1-9",
        10..=97 => "10-97",
        98 => "98",
        99 => "99",
        100 => "100",
        101 => "101",
        _ => ">101",
    }
}

// ---------------------------------------------------------------------------------------------
// one history
// ---------------------------------------------------------------------------------------------

struct Hist<'a> {
    rng: Rng,
    r: &'a mut Report,
    world: World,
    node_id: PublicKey,
    secp: Secp256k1<All>,
    chain: Chain,
    chans: Vec<GChan>,
    peers: Vec<[u8; 33]>,
    trace: Vec<Value>,
    empty_run: u32,
    max_forgotten: u64,
    /// blocks granted beyond MAX_BLOCKS_PER_HISTORY (very long waits)
    cap_bonus: u32,
    restarts_since_max_forget: u64,
    wallet_idx: u32,
    aborted: Option<String>,
    ctx: Value,
    tx_salt: u64,
    reorged: bool,
}

fn p2wpkh_script(secp: &Secp256k1<All>, n: u64) -> ScriptBuf {
    let mut b = [0x33u8; 32];
    b[..8].copy_from_slice(&n.to_le_bytes());
    b[31] = 1;
    let sk = SecretKey::from_slice(&b).unwrap();
    let pk = CompressedPublicKey(PublicKey::from_secret_key(secp, &sk));
    ScriptBuf::new_p2wpkh(&pk.wpubkey_hash())
}

fn key_from(rng: &mut Rng, secp: &Secp256k1<All>) -> (SecretKey, PublicKey) {
    loop {
        let b = rng.bytes::<32>();
        if let Ok(sk) = SecretKey::from_slice(&b) {
            let pk = PublicKey::from_secret_key(secp, &sk);
            return (sk, pk);
        }
    }
}

fn chain_spender(chain: &Chain, txid: Txid, vout: u32) -> Option<Txid> {
    chain.spent.get(&OutPoint { txid, vout }).map(|(_, by)| *by)
}

fn htlc_hash(preimage: &[u8; 32]) -> PaymentHash {
    PaymentHash(sha256::Hash::hash(preimage).to_byte_array())
}

/// HTLC list of a commitment in LDK form, directions from the broadcaster's side
fn oic(offered_by_broadcaster: &[HTLCInfo2], received_by_broadcaster: &[HTLCInfo2]) -> Vec<HTLCOutputInCommitment> {
    let mut v = vec![];
    for (list, off) in [(offered_by_broadcaster, true), (received_by_broadcaster, false)] {
        for h in list {
            v.push(HTLCOutputInCommitment {
                offered: off,
                amount_msat: h.value_sat * 1000,
                cltv_expiry: h.cltv_expiry,
                payment_hash: h.payment_hash,
                transaction_output_index: None,
            });
        }
    }
    v
}

/// BOLT-3 commitment transaction number n (forward counting) of either side, built with LDK from
/// the channel parameters the harness itself sent
fn build_commitment(
    secp: &Secp256k1<All>,
    params: &ChannelTransactionParameters,
    holder_broadcast: bool,
    n: u64,
    per_commitment_point: &PublicKey,
    feerate: u32,
    to_broadcaster: u64,
    to_countersignatory: u64,
    htlcs: Vec<HTLCOutputInCommitment>,
) -> (CommitmentTransaction, TxCreationKeys) {
    let directed =
        if holder_broadcast { params.as_holder_broadcastable() } else { params.as_counterparty_broadcastable() };
    let keys = TxCreationKeys::from_channel_static_keys(
        per_commitment_point,
        directed.broadcaster_pubkeys(),
        directed.countersignatory_pubkeys(),
        secp,
    );
    let mut with_aux: Vec<(HTLCOutputInCommitment, ())> = htlcs.into_iter().map(|h| (h, ())).collect();
    let tx = CommitmentTransaction::new_with_auxiliary_htlc_data(
        INITIAL_COMMITMENT_NUMBER - n,
        to_broadcaster,
        to_countersignatory,
        directed.broadcaster_pubkeys().funding_pubkey,
        directed.countersignatory_pubkeys().funding_pubkey,
        keys.clone(),
        feerate,
        &mut with_aux,
        &directed,
    );
    (tx, keys)
}

/// the counterparty's signatures on a holder commitment (commitment signature + one per HTLC)
fn cp_sign_holder_commitment(
    secp: &Secp256k1<All>,
    params: &ChannelTransactionParameters,
    cp_funding: &SecretKey,
    cp_htlc_base: &SecretKey,
    value_sat: u64,
    point: &PublicKey,
    commit: &CommitmentTransaction,
    keys: &TxCreationKeys,
) -> (Signature, Vec<Signature>) {
    let cpp = &params.counterparty_parameters.as_ref().unwrap().pubkeys;
    let redeem = make_funding_redeemscript(&params.holder_pubkeys.funding_pubkey, &cpp.funding_pubkey);
    let trusted = commit.trust();
    let built = trusted.built_transaction();
    let sig = built.sign_counterparty_commitment(cp_funding, &redeem, value_sat, secp);
    let htlc_key = derive_private_key(secp, point, cp_htlc_base);
    let contest_delay = params.counterparty_parameters.as_ref().unwrap().selected_contest_delay;
    let anchors = params.channel_type_features.supports_anchors_zero_fee_htlc_tx()
        || params.channel_type_features.supports_anchors_nonzero_fee_htlc_tx();
    let sighash_type = if anchors { EcdsaSighashType::SinglePlusAnyoneCanPay } else { EcdsaSighashType::All };
    let mut sigs = vec![];
    for htlc in commit.htlcs() {
        let htlc_tx = build_htlc_transaction(
            &built.txid,
            commit.feerate_per_kw(),
            contest_delay,
            htlc,
            &params.channel_type_features,
            &keys.broadcaster_delayed_payment_key,
            &keys.revocation_key,
        );
        let script = get_htlc_redeemscript(htlc, &params.channel_type_features, keys);
        let sighash = SighashCache::new(&htlc_tx)
            .p2wsh_signature_hash(0, &script, Amount::from_sat(htlc.amount_msat / 1000), sighash_type)
            .unwrap();
        sigs.push(secp.sign_ecdsa(&Message::from_digest(sighash.to_byte_array()), &htlc_key));
    }
    (sig, sigs)
}

/// what `advance` needs, detached from the history so that it can run under `report::catch`
struct AdvanceJob {
    node: Arc<Node>,
    id0: ChannelId,
    params: ChannelTransactionParameters,
    channel_value_sat: u64,
    cp_funding: SecretKey,
    cp_htlc_base: SecretKey,
    cp_seed: [u8; 32],
    feerate: u32,
    /// balances of commitment 0 and 1
    v0: (u64, u64),
    v1: (u64, u64),
    offered: Vec<HTLCInfo2>,
    received: Vec<HTLCInfo2>,
    told: Vec<[u8; 32]>,
    payee: PublicKey,
    skip_cp0: bool,
}

fn st<T, E: std::fmt::Debug>(what: &str, r: Result<T, E>) -> Result<T, String> {
    r.map_err(|e| format!("{}: {}", what, format!("{:?}", e).chars().take(140).collect::<String>()))
}

impl AdvanceJob {
    fn cp_point(&self, secp: &Secp256k1<All>, n: u64) -> PublicKey {
        let sk = SecretKey::from_slice(&commitment_secret(&self.cp_seed, n)).expect("secret");
        PublicKey::from_secret_key(secp, &sk)
    }

    /// the counterparty signs holder commitment n, the node validates it
    fn holder_update(&self, secp: &Secp256k1<All>, n: u64) -> Result<(), String> {
        let (to_holder, to_cp) = if n == 0 { self.v0 } else { self.v1 };
        let (offered, received) = if n == 0 { (vec![], vec![]) } else { (self.offered.clone(), self.received.clone()) };
        let point = st("get_per_commitment_point", self.node.with_channel_base(&self.id0, |b| b.get_per_commitment_point(n)))?;
        let (commit, keys) =
            build_commitment(secp, &self.params, true, n, &point, self.feerate, to_holder, to_cp, oic(&offered, &received));
        let (sig, hsigs) = cp_sign_holder_commitment(
            secp,
            &self.params,
            &self.cp_funding,
            &self.cp_htlc_base,
            self.channel_value_sat,
            &point,
            &commit,
            &keys,
        );
        let feerate = self.feerate;
        st(
            &format!("validate_holder_commitment_tx_phase2({})", n),
            self.node.with_channel(&self.id0, |ch| {
                ch.validate_holder_commitment_tx_phase2(n, feerate, to_holder, to_cp, offered.clone(), received.clone(), &sig, &hsigs)
            }),
        )?;
        if n == 0 {
            st("activate_initial_commitment", self.node.with_channel(&self.id0, |ch| ch.activate_initial_commitment()))?;
        } else {
            st(
                "revoke_previous_holder_commitment",
                self.node.with_channel(&self.id0, |ch| ch.revoke_previous_holder_commitment(n)),
            )?;
        }
        Ok(())
    }

    /// the node signs counterparty commitment n
    fn cp_update(&self, secp: &Secp256k1<All>, n: u64) -> Result<(), String> {
        let (to_holder, to_cp) = if n == 0 { self.v0 } else { self.v1 };
        let (offered, received) = if n == 0 { (vec![], vec![]) } else { (self.offered.clone(), self.received.clone()) };
        let point = self.cp_point(secp, n);
        let feerate = self.feerate;
        st(
            &format!("sign_counterparty_commitment_tx_phase2({})", n),
            self.node.with_channel(&self.id0, |ch| {
                // HTLC directions are from the broadcaster's (the counterparty's) side here
                ch.sign_counterparty_commitment_tx_phase2(&point, n, feerate, to_holder, to_cp, received.clone(), offered.clone())
                    .map(|_| ())
            }),
        )
    }

    /// Returns the number of the step that was refused (with the reason), or Ok
    fn run(&self) -> Result<(), (u32, String)> {
        let secp = Secp256k1::new();
        self.holder_update(&secp, 0).map_err(|e| (0, e))?;
        if !self.skip_cp0 {
            self.cp_update(&secp, 0).map_err(|e| (1, e))?;
        }
        for h in self.offered.iter() {
            // an outgoing HTLC must be backed by an approved payment
            st("add_keysend", self.node.add_keysend(self.payee, h.payment_hash, h.value_sat * 1000)).map_err(|e| (2, e))?;
        }
        self.cp_update(&secp, 1).map_err(|e| (3, e))?;
        let secret = SecretKey::from_slice(&commitment_secret(&self.cp_seed, 0)).expect("secret");
        st(
            "validate_counterparty_revocation(0)",
            self.node.with_channel(&self.id0, |ch| ch.validate_counterparty_revocation(0, &secret)),
        )
        .map_err(|e| (4, e))?;
        self.holder_update(&secp, 1).map_err(|e| (5, e))?;
        if !self.told.is_empty() {
            let k: Vec<PaymentPreimage> = self.told.iter().map(|p| PaymentPreimage(*p)).collect();
            st(
                "htlcs_fulfilled",
                self.node.with_channel(&self.id0, move |ch| {
                    ch.htlcs_fulfilled(k);
                    Ok(())
                }),
            )
            .map_err(|e| (6, e))?;
        }
        Ok(())
    }
}

impl<'a> Hist<'a> {
    fn log(&mut self, v: Value) {
        self.flush_empty();
        if self.trace.len() < 600 {
            self.trace.push(v);
        }
    }
    fn flush_empty(&mut self) {
        if self.empty_run > 0 {
            let n = self.empty_run;
            self.empty_run = 0;
            if self.trace.len() < 600 {
                self.trace.push(json!(["mine-empty", n]));
            }
        }
    }
    fn abort(&mut self, why: String) {
        if self.aborted.is_none() {
            self.aborted = Some(why);
        }
    }
    fn dead(&self) -> bool {
        self.aborted.is_some()
    }

    fn detail(&mut self, extra: Value) -> Value {
        self.flush_empty();
        json!({
            "replay": self.ctx,
            "chain_height": self.chain.height(),
            "restarts": self.world.restarts,
            "observation": extra,
            "history": self.trace,
        })
    }

    /// one literal sample per kind and shard, with the tail of the history
    fn sample_once(&mut self, kind: &str, obs: Value) {
        let key = format!("sampled.{}", kind);
        if self.r.get(&key) > 0 {
            return;
        }
        self.r.count(&key);
        self.flush_empty();
        let n = self.trace.len();
        let tail: Vec<Value> = self.trace[n.saturating_sub(30)..].to_vec();
        self.r.sample(json!({"sample": kind, "replay": self.ctx, "observation": obs, "history_tail": tail}));
    }

    // ---- blocks -----------------------------------------------------------------------------

    fn coinbase(&mut self) -> Transaction {
        self.chain.salt += 1;
        let mut sig = vec![4u8];
        sig.extend_from_slice(&self.chain.salt.to_le_bytes());
        Transaction {
            version: Version::ONE,
            lock_time: LockTime::ZERO,
            input: vec![TxIn {
                previous_output: OutPoint::null(),
                script_sig: ScriptBuf::from_bytes(sig),
                sequence: Sequence::MAX,
                witness: Witness::default(),
            }],
            output: vec![TxOut { value: Amount::from_sat(0), script_pubkey: ScriptBuf::new() }],
        }
    }

    /// Is `tx` includable on top of the current chain plus `pending` (same block, earlier)?
    fn includable(&self, tx: &Transaction, pending: &[Transaction], known: &HashSet<Txid>) -> bool {
        let txid = tx.compute_txid();
        if self.chain.conf.contains_key(&txid) || pending.iter().any(|p| p.compute_txid() == txid) {
            return false;
        }
        for i in tx.input.iter() {
            let op = i.previous_output;
            if self.chain.spent.contains_key(&op) {
                return false;
            }
            if pending.iter().any(|p| p.input.iter().any(|pi| pi.previous_output == op)) {
                return false;
            }
            if known.contains(&op.txid) {
                let parent_ok = self.chain.conf.contains_key(&op.txid)
                    || pending.iter().any(|p| p.compute_txid() == op.txid);
                if !parent_ok {
                    return false;
                }
            }
        }
        true
    }

    fn known_txids(&self) -> HashSet<Txid> {
        let mut s = HashSet::new();
        for c in self.chans.iter() {
            if let Some(t) = c.funding_txid() {
                s.insert(t);
            }
            for cl in c.closes.iter() {
                s.insert(cl.txid);
            }
            for t in c.aux.keys() {
                s.insert(*t);
            }
        }
        s
    }

    /// Connect one block with the given (already checked) transactions, the way the handler does
    /// (add_block + update_tracker).
    fn connect(&mut self, txs: Vec<Transaction>) -> bool {
        if self.dead() {
            return false;
        }
        if self.chain.total_connected >= MAX_BLOCKS_PER_HISTORY + self.cap_bonus {
            return false;
        }
        if txs.is_empty() {
            self.empty_run += 1;
        } else {
            let ids: Vec<String> = txs.iter().map(|t| self.describe_tx(t)).collect();
            self.log(json!(["block", self.chain.height() + 1, ids]));
        }
        let mut all = vec![self.coinbase()];
        all.extend(txs);
        let tip = self.chain.blocks.last().unwrap();
        let h = self.chain.height() + 1;
        let block = make_block(tip.header, all.clone());
        let proof = TxoProof::prove_unchecked(&block, &tip.fh, h);
        let fh = proof.filter_header();
        let header = block.header;
        let node = self.world.node.clone();
        let node_id = self.node_id;
        let res = report::catch(move || {
            let mut tracker = node.get_tracker();
            let res = tracker.add_block(header, proof);
            if res.is_ok() {
                node.get_persister().update_tracker(&node_id, &tracker).expect("update_tracker");
            }
            res.map_err(|e| format!("{:?}", e))
        });
        match res {
            Ok(Ok(())) => {
                self.chain.index_add(h, &all);
                if all.len() > 1 {
                    self.count_htlc_txs(&all[1..]);
                }
                self.chain.blocks.push(Blk { header, fh, txs: all });
                self.chain.total_connected += 1;
                self.r.count("block.connected");
                self.tracker_persisted();
                self.update_max_depths();
                true
            }
            Ok(Err(e)) => {
                // txoo filter false positives are possible with prove_unchecked: harness noise
                self.r.count("block.connect_refused");
                self.r.set_add("block_refusals", &e.chars().take(80).collect::<String>());
                self.abort(format!("add_block refused: {}", e));
                false
            }
            Err(p) => {
                self.r.count("block.connect_panic");
                self.r.note(&format!("panic while connecting a block (outside C15, history abandoned): {}", p));
                self.abort(format!("add_block panic: {}", p));
                false
            }
        }
    }

    /// Disconnect the tip (remove_block + update_tracker). Returns the non-coinbase transactions.
    fn disconnect(&mut self) -> Option<Vec<Transaction>> {
        if self.dead() || self.chain.blocks.len() < 2 {
            return None;
        }
        let hdrs = self.world.node.get_tracker().headers().len();
        if hdrs == 0 {
            return None;
        }
        let n = self.chain.blocks.len();
        let tip = &self.chain.blocks[n - 1];
        let prev = &self.chain.blocks[n - 2];
        let block = lightning_signer::bitcoin::Block { header: tip.header, txdata: tip.txs.clone() };
        let proof = TxoProof::prove_unchecked(&block, &prev.fh, self.chain.height());
        let prev_headers = Headers(prev.header, prev.fh);
        let node = self.world.node.clone();
        let node_id = self.node_id;
        let res = report::catch(move || {
            let mut tracker = node.get_tracker();
            let res = tracker.remove_block(proof, prev_headers);
            if res.is_ok() {
                node.get_persister().update_tracker(&node_id, &tracker).expect("update_tracker");
            }
            res.map(|_| ()).map_err(|e| format!("{:?}", e))
        });
        match res {
            Ok(Ok(())) => {
                let b = self.chain.blocks.pop().unwrap();
                self.chain.index_remove(&b.txs);
                self.r.count("block.disconnected");
                self.tracker_persisted();
                self.reorged = true;
                Some(b.txs.into_iter().skip(1).collect())
            }
            Ok(Err(e)) => {
                self.r.count("block.disconnect_refused");
                self.r.set_add("block_refusals", &e.chars().take(80).collect::<String>());
                self.abort(format!("remove_block refused: {}", e));
                None
            }
            Err(p) => {
                self.r.count("block.disconnect_panic");
                self.r.note(&format!("panic while disconnecting a block (outside C15, history abandoned): {}", p));
                self.abort(format!("remove_block panic: {}", p));
                None
            }
        }
    }

    fn tracker_persisted(&mut self) {
        for c in self.chans.iter_mut() {
            if c.forget_requested {
                c.flag_persisted = true;
            }
        }
    }

    fn update_max_depths(&mut self) {
        for c in self.chans.iter_mut() {
            if c.stage == Stage::Ready {
                let (d, _) = qualifying_depth(c, &self.chain);
                if d > c.max_depth_seen {
                    c.max_depth_seen = d;
                }
            }
        }
    }

    fn describe_tx(&self, tx: &Transaction) -> String {
        let txid = tx.compute_txid();
        for c in self.chans.iter() {
            if c.funding_txid() == Some(txid) {
                return format!("funding(dbid {})", c.dbid);
            }
            if let Some(cl) = c.closes.iter().find(|x| x.txid == txid) {
                return format!("{:?}-close(dbid {})", cl.kind, c.dbid);
            }
            if let Some(f) = &c.funding {
                if tx.input.iter().any(|i| f.input.iter().any(|fi| fi.previous_output == i.previous_output)) {
                    return format!("double-spend-of-funding-input(dbid {})", c.dbid);
                }
            }
            for cl in c.closes.iter() {
                for i in tx.input.iter() {
                    if let Some(ht) = cl.htlcs.iter().find(|h| i.previous_output.txid == cl.txid && h.vout == i.previous_output.vout) {
                        let second = ht.second_level.as_ref().map(|(t, _)| *t == txid).unwrap_or(false);
                        return format!(
                            "{}-of-{}-htlc-output-{}-of-{:?}-close(dbid {})",
                            if second { "second-level-tx" } else { "direct-spend" },
                            if ht.ours_offered { "offered" } else if ht.preimage_told { "received(preimage-told)" } else { "received" },
                            ht.vout,
                            cl.kind,
                            c.dbid
                        );
                    }
                    if cl.htlcs.iter().any(|h| {
                        chain_spender(&self.chain, cl.txid, h.vout) == Some(i.previous_output.txid)
                            || h.second_level.as_ref().map(|(t, _)| *t == i.previous_output.txid).unwrap_or(false)
                    }) {
                        return format!("sweep-of-htlc-spender-output-of-{:?}-close(dbid {})", cl.kind, c.dbid);
                    }
                    if i.previous_output.txid == cl.txid {
                        let ours = cl.ours.contains(&i.previous_output.vout);
                        return format!(
                            "sweep-{}-output-of-{:?}-close(dbid {})",
                            if ours { "our" } else { "their" },
                            cl.kind,
                            c.dbid
                        );
                    }
                }
            }
        }
        "other".to_string()
    }

    // ---- observations -----------------------------------------------------------------------

    fn present(&self, c: &GChan) -> (bool, bool) {
        let mem = self.world.node.get_channel(&c.id0).is_ok();
        let stored = match self.world.node.get_persister().get_node_channels(&self.node_id) {
            Ok(v) => v.iter().any(|(id, _)| *id == c.id0),
            Err(_) => false,
        };
        (mem, stored)
    }

    fn is_ready_in_node(&self, id: &ChannelId) -> Option<bool> {
        match self.world.node.get_channel(id) {
            Ok(slot) => {
                let g = slot.lock().unwrap();
                Some(matches!(&*g, ChannelSlot::Ready(_)))
            }
            Err(_) => None,
        }
    }

    /// Oracle 1
    fn check(&mut self, when: &'static str) {
        if self.dead() {
            return;
        }
        for ci in 0..self.chans.len() {
            let stage = self.chans[ci].stage;
            match stage {
                Stage::Stub => {
                    let (mem, _) = self.present(&self.chans[ci]);
                    if !mem {
                        self.chans[ci].stage = Stage::StubGone;
                        self.r.count("stub.pruned_by_age(outside-property)");
                    }
                }
                Stage::Ready => {
                    let (mem, stored) = self.present(&self.chans[ci]);
                    let c = &self.chans[ci];
                    let (d, kind) = qualifying_depth(c, &self.chain);
                    let sit = situation(c, &self.chain);
                    let forget = c.forget_requested;
                    let gone = !mem || !stored;
                    self.r.eval(1);
                    self.r.count(&format!("check.{}", when));
                    self.r.distinct_str(&format!(
                        "chk:{}:{}:{}:{}:{}:{}",
                        when,
                        sit,
                        depth_bucket(d),
                        forget,
                        gone,
                        self.reorged
                    ));
                    let ust = uni_status(c, &self.chain);
                    let stale_h = c.stale_last_h;
                    if !gone {
                        // survival observations (antecedents of "open or merely closing survives")
                        if let Some(st) = ust {
                            if forget && st.has_htlcs && !st.qualifies() {
                                // everything required that IS swept is 100 deep, something is not swept
                                if st.main_h.is_some()
                                    && st.has_main
                                    && self.chain.depth_of(st.last_h) >= REQUIRED_DEPTH
                                {
                                    self.r.count("survived.partial_sweep_100_blocks");
                                    self.r.count(if st.missing_htlc > 0 {
                                        "survived.partial_sweep_100_blocks.htlc-output-unspent"
                                    } else {
                                        "survived.partial_sweep_100_blocks.second-level-output-unspent"
                                    });
                                    self.r.count(if st.holder {
                                        "survived.partial_sweep_100_blocks.holder-commitment"
                                    } else {
                                        "survived.partial_sweep_100_blocks.counterparty-commitment"
                                    });
                                    let dbid = self.chans[ci].dbid;
                                    self.sample_once("survived-partial-htlc-sweep-100-blocks", json!({"when": when, "dbid": dbid,
                                        "unspent_offered_htlc_outputs": st.missing_htlc, "unspent_second_level_outputs": st.missing_second,
                                        "confirmations_of_last_sweep_so_far": self.chain.depth_of(st.last_h)}));
                                }
                                if let Some(h) = stale_h {
                                    if (self.chain.height() + 1).saturating_sub(h) >= REQUIRED_DEPTH && st.main_h.is_some() {
                                        self.r.count("survived.htlc_sweep_reorged_out_100_blocks");
                                        let dbid = self.chans[ci].dbid;
                                        self.sample_once("survived-reorged-out-htlc-sweep-100-blocks", json!({"when": when, "dbid": dbid,
                                            "height_of_the_removed_sweep": h, "chain_height": self.chain.height()}));
                                    }
                                }
                            }
                        }
                        if !forget {
                            self.r.count("survived.no-forget");
                            if d >= REQUIRED_DEPTH {
                                self.r.count("survived.no-forget.buried>=100");
                                let dbid = self.chans[ci].dbid;
                                self.sample_once("survived-buried-without-forget", json!({"when": when, "dbid": dbid, "ghost_event": kind, "ghost_confirmations": d}));
                            }
                        } else if d < FLAG_BELOW {
                            self.r.count("survived.forget.not-buried");
                            if d == 98 && kind.starts_with("unilateral") && ust.map(|st| st.has_htlcs).unwrap_or(false) {
                                self.r.count("survived.forget.depth98.unilateral-with-htlcs");
                            }
                            if d == 98 {
                                self.r.count("survived.forget.depth98");
                                let dbid = self.chans[ci].dbid;
                                self.sample_once("survived-with-forget-at-98-confirmations", json!({"when": when, "dbid": dbid, "ghost_event": kind, "ghost_confirmations": d}));
                            }
                        } else if d == 99 {
                            self.r.count("survived.forget.depth99");
                            if kind.starts_with("unilateral") && ust.map(|st| st.has_htlcs).unwrap_or(false) {
                                self.r.count("survived.forget.depth99.unilateral-with-htlcs");
                            }
                        } else if when == "heartbeat" {
                            // eligible but still there: a liveness matter, never a C15 violation
                            self.r.count("liveness.eligible-not-pruned");
                            let c = &self.chans[ci];
                            if kind == "double-spend" && !c.inputs_known {
                                self.r.count("liveness.eligible-not-pruned.double-spend-inputs-never-shown-to-signer");
                            } else if kind.starts_with("unilateral")
                                && ust
                                    .map(|st| st.impl_extra_missing > 0 || self.chain.depth_of(st.impl_last_h) < REQUIRED_DEPTH)
                                    .unwrap_or(false)
                            {
                                self.r.count("liveness.eligible-not-pruned.signer-waits-for-more-htlc-related-outputs");
                                self.r.note("liveness, not a C15 violation: the monitor treats ANY transaction that spends a tracked HTLC output as a second-level HTLC transaction and waits until output #<input index> of that transaction is spent too (also for a counterparty commitment and for a claim by the counterparty), and it tracks received HTLC outputs while it holds the preimage; such a channel is kept although all outputs the node owns by timeout are swept and buried");
                            } else if c.forget_lost {
                                self.r.count("liveness.eligible-not-pruned.E9-forget-flag-lost-by-restart");
                                self.r.note("E9 (liveness, not a C15 violation): forget_channel sets the monitor's saw_forget flag only in memory (the tracker is not persisted); a restart before the next tracker persist loses the request and the buried channel is not pruned until the node repeats forget_channel");
                            } else {
                                self.r.count("liveness.eligible-not-pruned.unexplained");
                                let dbid = c.dbid;
                                let det = self.detail(json!({"dbid": dbid, "ghost_event": kind, "ghost_confirmations": d}));
                                if self.r.samples.len() < 6 {
                                    self.r.sample(json!({"unexplained_liveness": det}));
                                }
                                self.r.note("a channel with forget requested and an event buried > 100 was still present after a heartbeat without a known explanation (liveness only; see samples)");
                            }
                        }
                        if when == "restart" {
                            self.r.count("survived.restart");
                        }
                        continue;
                    }
                    // the channel is gone: judge
                    self.r.count("gone.observed");
                    self.r.count(&format!("gone.at.{}", when));
                    let max_seen = self.chans[ci].max_depth_seen;
                    let dbid = self.chans[ci].dbid;
                    let obs = json!({
                        "when": when, "dbid": dbid, "in_memory": mem, "in_store": stored,
                        "forget_requested": forget, "ghost_event": kind, "ghost_confirmations": d,
                        "max_confirmations_ever": max_seen, "situation": sit,
                        "required": REQUIRED_DEPTH,
                        "unilateral_close": ust.map(|st| json!({
                            "holder_commitment": st.holder, "has_htlc_outputs": st.has_htlcs,
                            "main_output_sweep_height": st.main_h, "unspent_htlc_outputs_offered_by_node": st.missing_htlc,
                            "unspent_outputs_of_node_second_level_txs": st.missing_second,
                            "height_of_last_required_tx_so_far": st.last_h,
                        })),
                        "height_of_htlc_sweep_removed_by_reorg": stale_h,
                    });
                    if forget && d >= FLAG_BELOW {
                        self.chans[ci].stage = Stage::Pruned;
                        if self.chans[ci].forget_lost {
                            // the forget request survived a restart that followed it immediately
                            self.r.count("e9.pruned-although-restart-came-right-after-forget");
                        }
                        self.tracker_persisted();
                        self.r.count("gone.legit");
                        if ust.map(|st| st.has_htlcs).unwrap_or(false) && kind.starts_with("unilateral") {
                            self.r.count("gone.legit.unilateral-with-htlcs");
                            self.r.count(&format!("gone.legit.unilateral-with-htlcs.depth.{}", depth_bucket(d)));
                            if stale_h.is_some() {
                                self.r.count("gone.legit.unilateral-with-htlcs.after-last-sweep-was-reorged-out-and-re-mined");
                            }
                        }
                        self.r.count(&format!("gone.legit.{}", kind));
                        self.r.count(&format!("gone.legit.depth.{}", depth_bucket(d)));
                        if self.world.restarts > 0 {
                            self.r.count("gone.legit.after-some-restart");
                        }
                        self.sample_once("legit-prune", obs);
                        self.log(json!(["observed-pruned", dbid, kind, d]));
                    } else {
                        self.chans[ci].stage = Stage::Lost;
                        // the main output is swept and buried, an HTLC-related output of the node is not
                        let htlc_unswept = ust
                            .map(|st| {
                                st.has_htlcs
                                    && st.main_h.map(|m| self.chain.depth_of(m) >= FLAG_BELOW).unwrap_or(false)
                                    && (st.missing_htlc > 0 || st.missing_second > 0)
                            })
                            .unwrap_or(false);
                        let sig = if !forget {
                            "prune:ready-channel-dropped-without-forget"
                        } else if htlc_unswept && ust.map(|st| st.missing_htlc > 0).unwrap_or(false) {
                            "prune:dropped-with-unswept-htlc-output"
                        } else if htlc_unswept {
                            "prune:dropped-with-unswept-second-level-htlc-output"
                        } else if max_seen >= FLAG_BELOW {
                            "prune:dropped-after-reorg-unburied-close"
                        } else {
                            "prune:ready-channel-dropped-before-depth"
                        };
                        let det = self.detail(obs);
                        self.r.violation(sig, det);
                    }
                }
                _ => {}
            }
        }
    }

    fn heartbeat(&mut self) {
        if self.dead() {
            return;
        }
        self.log(json!(["heartbeat"]));
        let node = self.world.node.clone();
        match report::catch(move || node.get_heartbeat()) {
            Ok(_) => {
                self.r.count("op.heartbeat");
                self.check("heartbeat");
            }
            Err(p) => {
                self.r.count("op.heartbeat.panic");
                self.r.note(&format!("get_heartbeat panicked (history abandoned): {}", p));
                self.abort(format!("heartbeat panic {}", p));
            }
        }
    }

    fn restart(&mut self) {
        if self.dead() {
            return;
        }
        self.log(json!(["restart"]));
        let res = {
            let w = &mut self.world;
            report::catch(move || w.restart())
        };
        match res {
            Ok(Ok(())) => {
                self.r.count("op.restart");
                self.restarts_since_max_forget += 1;
                let mut e9 = 0u64;
                for c in self.chans.iter_mut() {
                    if c.forget_requested {
                        c.restarts_since_forget += 1;
                        if !c.flag_persisted && !c.forget_lost {
                            c.forget_lost = true;
                            e9 += 1;
                        }
                    }
                }
                self.r.count_n("e9.restart-right-after-forget(no-tracker-persist-in-between)", e9);
                self.check("restart");
            }
            Ok(Err(e)) => {
                self.r.count("op.restart.failed");
                self.r.note(&format!("restart failed (history abandoned): {}", e));
                self.abort(format!("restart failed {}", e));
            }
            Err(p) => {
                self.r.count("op.restart.panic");
                self.r.note(&format!("restart panicked (history abandoned): {}", p));
                self.abort(format!("restart panic {}", p));
            }
        }
    }

    // ---- channel requests -------------------------------------------------------------------

    /// Oracle 2 lives here
    fn new_channel(&mut self, dbid: u64, peer: usize, rel: &'static str) -> Option<usize> {
        if self.dead() {
            return None;
        }
        let peer_id = self.peers[peer];
        let id0 = ChannelId::new_from_peer_id_and_oid(&peer_id, dbid);
        let existed = self.world.node.get_channel(&id0).is_ok();
        let node = self.world.node.clone();
        let res = report::catch(move || node.new_channel(dbid, &peer_id, &node).map(|_| ()));
        self.r.eval(1);
        let restarted = self.restarts_since_max_forget > 0;
        match res {
            Ok(Ok(())) => {
                let exists_now = self.world.node.get_channel(&id0).is_ok();
                let created = !existed && exists_now;
                self.log(json!(["new_channel", dbid, peer, rel, if created { "created" } else { "ok-existing" }]));
                self.r.count(&format!("new_channel.{}.{}", rel, if created { "created" } else { "ok-existing" }));
                self.r.distinct_str(&format!("new:{}:{}:{}:{}", rel, created, self.max_forgotten > 0, restarted));
                if self.max_forgotten > 0 && dbid <= self.max_forgotten {
                    self.r.count("idrule.antecedent");
                    if created {
                        let sig = if restarted {
                            "prune:dbid-reused-after-restart"
                        } else {
                            "prune:dbid-reused-after-forget"
                        };
                        let det = self.detail(json!({
                            "new_channel_dbid": dbid, "peer": hex::encode(peer_id),
                            "highest_forgotten_dbid": self.max_forgotten,
                            "restarts_since_that_forget": self.restarts_since_max_forget,
                            "result": "Ok, channel created",
                        }));
                        self.r.violation(sig, det);
                    }
                }
                if created {
                    self.chans.push(GChan {
                        dbid,
                        peer,
                        id0,
                        perm_id: None,
                        stage: Stage::Stub,
                        setup: None,
                        holder_points: None,
                        cp_seed: [0u8; 32],
                        cp_secrets: None,
                        cp_signed: false,
                        adv: None,
                        adv_broken: false,
                        aux: HashMap::new(),
                        stale_last_h: None,
                        funding: None,
                        inputs_known: false,
                        forget_requested: false,
                        restarts_since_forget: 0,
                        flag_persisted: false,
                        forget_lost: false,
                        closes: vec![],
                        max_depth_seen: 0,
                    });
                    return Some(self.chans.len() - 1);
                }
                None
            }
            Ok(Err(e)) => {
                self.log(json!(["new_channel", dbid, peer, rel, "refused"]));
                self.r.count(&format!("new_channel.{}.refused", rel));
                self.r.distinct_str(&format!("new:{}:refused:{}:{}", rel, self.max_forgotten > 0, restarted));
                if self.max_forgotten > 0 && dbid <= self.max_forgotten {
                    self.r.count("idrule.antecedent");
                    self.r.count(if restarted { "idrule.refused.after-restart" } else { "idrule.refused.before-restart" });
                    let m = self.max_forgotten;
                    self.sample_once("id-rule-refusal", json!({"new_channel_dbid": dbid, "highest_forgotten_dbid": m, "after_restart": restarted, "result": format!("{:?}", e).chars().take(140).collect::<String>()}));
                }
                self.r.set_add("new_channel_refusals", &format!("{:?}", e).chars().take(100).collect::<String>());
                None
            }
            Err(p) => {
                self.r.count("new_channel.panic");
                self.r.note(&format!("new_channel panicked: {}", p));
                self.abort(format!("new_channel panic {}", p));
                None
            }
        }
    }

    fn setup(&mut self, ci: usize) {
        if self.dead() || self.chans[ci].stage != Stage::Stub {
            return;
        }
        let id0 = self.chans[ci].id0.clone();
        let node = self.world.node.clone();
        // the stub may have been pruned by age
        let holder_points = match node.with_channel_base(&id0, |b| Ok(b.get_channel_basepoints())) {
            Ok(p) => p,
            Err(_) => {
                self.chans[ci].stage = Stage::StubGone;
                return;
            }
        };
        // counterparty
        let (cp_fund_sk, cp_fund) = key_from(&mut self.rng, &self.secp);
        let (_, cp_rev) = key_from(&mut self.rng, &self.secp);
        let (_, cp_pay) = key_from(&mut self.rng, &self.secp);
        let (_, cp_delayed) = key_from(&mut self.rng, &self.secp);
        let (cp_htlc_sk, cp_htlc) = key_from(&mut self.rng, &self.secp);
        let cp_seed = self.rng.bytes::<32>();
        let cp_points = ChannelPublicKeys {
            funding_pubkey: cp_fund,
            revocation_basepoint: RevocationBasepoint(cp_rev),
            payment_point: cp_pay,
            delayed_payment_basepoint: DelayedPaymentBasepoint(cp_delayed),
            htlc_basepoint: HtlcBasepoint(cp_htlc),
        };
        let is_outbound = self.rng.chance(3, 4);
        let channel_value_sat = 1_000_000 + self.rng.below(2_000_000);
        let push_value_msat = match self.rng.below(3) {
            0 => 0,
            _ => self.rng.range(20_000, channel_value_sat / 3) * 1000,
        };
        let commitment_type = match self.rng.below(3) {
            0 => CommitmentType::StaticRemoteKey,
            1 => CommitmentType::AnchorsZeroFeeHtlc,
            _ => CommitmentType::StaticRemoteKey,
        };
        // funding transaction: 1-2 wallet inputs, the channel output, maybe change
        let n_in = 1 + self.rng.below(2) as usize;
        let mut inputs = vec![];
        let mut prev_outs = vec![];
        let mut ipaths: Vec<DerivationPath> = vec![];
        for _ in 0..n_in {
            self.wallet_idx += 1;
            let widx = self.wallet_idx;
            let (prev, txin) = make_test_funding_wallet_input(
                &node,
                SpendType::P2wpkh,
                widx,
                channel_value_sat + 50_000 + self.rng.below(1000),
            );
            prev_outs.push(prev.output[0].clone());
            inputs.push(txin);
            ipaths.push(vec![ChildNumber::from_normal_idx(widx).unwrap()].into());
        }
        let fscript = make_funding_redeemscript(&holder_points.funding_pubkey, &cp_fund).to_p2wsh();
        let mut outputs = vec![TxOut { value: Amount::from_sat(channel_value_sat), script_pubkey: fscript }];
        let mut fvout = 0u32;
        if self.rng.bool() {
            self.tx_salt += 1;
            let change = TxOut { value: Amount::from_sat(10_000), script_pubkey: p2wpkh_script(&self.secp, self.tx_salt) };
            if self.rng.bool() {
                outputs.insert(0, change);
                fvout = 1;
            } else {
                outputs.push(change);
            }
        }
        let ftx = Transaction { version: Version::TWO, lock_time: LockTime::ZERO, input: inputs, output: outputs };
        let funding_outpoint = OutPoint { txid: ftx.compute_txid(), vout: fvout };
        let setup = ChannelSetup {
            is_outbound,
            channel_value_sat,
            push_value_msat,
            funding_outpoint,
            holder_selected_contest_delay: 6 + self.rng.below(10) as u16,
            holder_shutdown_script: None,
            counterparty_points: cp_points,
            counterparty_selected_contest_delay: 6 + self.rng.below(10) as u16,
            counterparty_shutdown_script: None,
            commitment_type,
        };
        let perm_id = if self.rng.chance(1, 4) { Some(ChannelId::new(&self.rng.bytes::<32>())) } else { None };
        let (s2, p2, n2, i2) = (setup.clone(), perm_id.clone(), node.clone(), id0.clone());
        let res = report::catch(move || n2.setup_channel(i2, p2, s2, &DerivationPath::master()).map(|_| ()));
        match res {
            Ok(Ok(())) => {
                self.r.count("op.setup_channel.ok");
                self.tracker_persisted();
                self.log(json!(["setup_channel", self.chans[ci].dbid, {"outbound": is_outbound, "perm_id": perm_id.is_some(), "funding_inputs": n_in}]));
                let c = &mut self.chans[ci];
                c.stage = Stage::Ready;
                c.setup = Some(setup);
                c.perm_id = perm_id;
                c.holder_points = Some(holder_points);
                c.cp_seed = cp_seed;
                c.cp_secrets = Some((cp_fund_sk, cp_htlc_sk));
                c.funding = Some(ftx.clone());
            }
            Ok(Err(e)) => {
                self.r.count("op.setup_channel.refused");
                self.r.set_add("setup_refusals", &format!("{:?}", e).chars().take(100).collect::<String>());
                return;
            }
            Err(p) => {
                self.r.count("op.setup_channel.panic");
                self.abort(format!("setup_channel panic {}", p));
                return;
            }
        }
        // tell the signer about the funding inputs (funder only, most of the time)
        if is_outbound && self.rng.chance(4, 5) {
            let n3 = node.clone();
            let ucks = vec![None; n_in];
            let res = report::catch(move || n3.unchecked_sign_onchain_tx(&ftx, &ipaths, &prev_outs, ucks).map(|_| ()));
            match res {
                Ok(Ok(())) => {
                    self.r.count("op.sign_funding.ok");
                    self.tracker_persisted();
                    self.chans[ci].inputs_known = true;
                    self.log(json!(["unchecked_sign_onchain_tx(funding)", self.chans[ci].dbid]));
                }
                Ok(Err(e)) => {
                    self.r.count("op.sign_funding.refused");
                    self.r.set_add("sign_funding_refusals", &format!("{:?}", e).chars().take(100).collect::<String>());
                }
                Err(p) => {
                    self.r.count("op.sign_funding.panic");
                    self.abort(format!("unchecked_sign_onchain_tx panic {}", p));
                }
            }
        }
        // about half of the channels get a current commitment with HTLCs on both sides
        if !self.dead() && self.rng.chance(1, 2) {
            self.advance(ci);
        }
    }

    fn commitment_values(&self, c: &GChan, feerate: u32) -> (u64, u64) {
        self.commitment_values_n(c, feerate, 0)
    }

    /// balances of a commitment with n untrimmed HTLCs, before the HTLC amounts are taken off
    fn commitment_values_n(&self, c: &GChan, feerate: u32, n_htlcs: u64) -> (u64, u64) {
        let s = c.setup.as_ref().unwrap();
        let anchors = s.commitment_type != CommitmentType::StaticRemoteKey;
        let weight: u64 = if anchors { 1124 } else { 724 } + 172 * n_htlcs;
        let mut fee = feerate as u64 * weight / 1000;
        if anchors {
            fee += 660;
        }
        let push = s.push_value_msat / 1000;
        if s.is_outbound {
            (s.channel_value_sat - push - fee, push)
        } else {
            (push, s.channel_value_sat - push - fee)
        }
    }

    /// Let the signer sign the counterparty's initial commitment, so that it knows the
    /// counterparty's current per-commitment point (needed to recognise that commitment on chain).
    fn sign_cp(&mut self, ci: usize) {
        if self.dead() || self.chans[ci].stage != Stage::Ready || self.chans[ci].cp_signed {
            return;
        }
        let feerate = 1000u32;
        let (to_holder, to_cp) = self.commitment_values(&self.chans[ci], feerate);
        let point = self.cp_point(ci, 0);
        let id0 = self.chans[ci].id0.clone();
        let node = self.world.node.clone();
        let res = report::catch(move || {
            node.with_channel(&id0, |chan| {
                chan.sign_counterparty_commitment_tx_phase2(&point, 0, feerate, to_holder, to_cp, vec![], vec![])
                    .map(|_| ())
            })
        });
        match res {
            Ok(Ok(())) => {
                self.r.count("op.sign_counterparty_commitment.ok");
                self.chans[ci].cp_signed = true;
                self.log(json!(["sign_counterparty_commitment(0)", self.chans[ci].dbid]));
            }
            Ok(Err(e)) => {
                self.r.count("op.sign_counterparty_commitment.refused");
                self.r.set_add("sign_cp_refusals", &format!("{:?}", e).chars().take(120).collect::<String>());
            }
            Err(p) => {
                self.r.count("op.sign_counterparty_commitment.panic");
                self.abort(format!("sign_counterparty_commitment panic {}", p));
            }
        }
    }

    /// the counterparty's per-commitment point of (forward counting) commitment n
    fn cp_point(&self, ci: usize, n: u64) -> PublicKey {
        let sk = SecretKey::from_slice(&commitment_secret(&self.chans[ci].cp_seed, n)).expect("secret");
        PublicKey::from_secret_key(&self.secp, &sk)
    }

    /// Advance a freshly set up channel, through the real commitment flow, to commitment 1 with
    /// 1-3 HTLCs on both sides (holder commitment 0 revoked, counterparty commitment 0 revoked).
    fn advance(&mut self, ci: usize) {
        if self.dead() || self.chans[ci].stage != Stage::Ready || self.chans[ci].adv.is_some() || self.chans[ci].adv_broken {
            return;
        }
        let feerate = 1000u32;
        let want = 1 + self.rng.below(3);
        // choose the HTLCs against the balances of a commitment with 3 HTLCs (the funder pays the fee)
        let (mut h, mut p) = self.commitment_values_n(&self.chans[ci], feerate, 3);
        let cltv_base = self.chain.height() + 1;
        let mut offered: Vec<HTLCInfo2> = vec![];
        let mut received: Vec<HTLCInfo2> = vec![];
        let mut told: Vec<[u8; 32]> = vec![];
        for _ in 0..want {
            let value = self.rng.range(20_000, 200_000);
            let mut off = self.rng.bool();
            if off && h < value + 30_000 {
                off = false;
            }
            if !off && p < value + 30_000 {
                off = true;
            }
            if off && h < value + 30_000 {
                continue;
            }
            let preimage = self.rng.bytes::<32>();
            let info = HTLCInfo2 {
                value_sat: value,
                payment_hash: htlc_hash(&preimage),
                cltv_expiry: cltv_base + 50 + self.rng.below(350) as u32,
            };
            if off {
                h -= value;
                offered.push(info);
            } else {
                p -= value;
                if self.rng.chance(1, 3) {
                    told.push(preimage);
                }
                received.push(info);
            }
        }
        let n = (offered.len() + received.len()) as u64;
        if n == 0 {
            self.r.count("advance.no-htlc-affordable");
            return;
        }
        let c = &self.chans[ci];
        let v0 = self.commitment_values(c, feerate);
        let (h1, p1) = self.commitment_values_n(c, feerate, n);
        let so: u64 = offered.iter().map(|x| x.value_sat).sum();
        let sr: u64 = received.iter().map(|x| x.value_sat).sum();
        let v1 = (h1 - so, p1 - sr);
        let (cp_funding, cp_htlc_base) = c.cp_secrets.clone().unwrap();
        let s = c.setup.as_ref().unwrap();
        let job = AdvanceJob {
            node: self.world.node.clone(),
            id0: c.id0.clone(),
            params: self.channel_parameters(c),
            channel_value_sat: s.channel_value_sat,
            cp_funding,
            cp_htlc_base,
            cp_seed: c.cp_seed,
            feerate,
            v0,
            v1,
            offered: offered.clone(),
            received: received.clone(),
            told: told.clone(),
            payee: s.counterparty_points.payment_point,
            skip_cp0: c.cp_signed,
        };
        let dbid = c.dbid;
        let res = report::catch(move || job.run());
        match res {
            Ok(Ok(())) => {
                self.r.count("op.advance.ok");
                self.r.count_n("op.advance.htlcs.offered", offered.len() as u64);
                self.r.count_n("op.advance.htlcs.received", received.len() as u64);
                self.r.count_n("op.advance.htlcs.received.preimage-told", told.len() as u64);
                self.tracker_persisted();
                self.log(json!(["advance-to-commitment-1", dbid, {"offered": offered.iter().map(|x| x.value_sat).collect::<Vec<_>>(),
                    "received": received.iter().map(|x| x.value_sat).collect::<Vec<_>>(), "preimages_told": told.len(),
                    "to_holder": v1.0, "to_counterparty": v1.1}]));
                let c = &mut self.chans[ci];
                c.cp_signed = true;
                c.adv = Some(Adv {
                    feerate,
                    to_holder: v1.0,
                    to_cp: v1.1,
                    offered,
                    received,
                    told: told.iter().map(htlc_hash).collect(),
                });
            }
            Ok(Err((step, e))) => {
                self.r.count("op.advance.refused");
                self.r.count(&format!("op.advance.refused.step{}", step));
                self.r.set_add("advance_refusals", &e);
                self.log(json!(["advance-refused", dbid, step]));
                let c = &mut self.chans[ci];
                if step >= 1 {
                    // commitment 0 of the holder is validated; the counterparty's may be signed
                    c.cp_signed = c.cp_signed || step >= 2;
                }
                // after step 3 the two sides are out of step: leave unilateral closes alone
                c.adv_broken = step >= 3;
            }
            Err(pm) => {
                self.r.count("op.advance.panic");
                self.r.note(&format!("panic while advancing a channel (history abandoned): {}", pm));
                self.abort(format!("advance panic {}", pm));
            }
        }
    }

    fn forget(&mut self, ci: usize) {
        if self.dead() {
            return;
        }
        let id0 = self.chans[ci].id0.clone();
        let dbid = self.chans[ci].dbid;
        let state = self.is_ready_in_node(&id0);
        // one forget in six meets a store that is unavailable for its first write (the node state with the id
        // high-water mark): the daemon dies or the request fails; either way the node then asks again
        let inject = self.rng.chance(1, 6);
        if inject {
            self.world.store.arm_faults(0, 1);
        }
        let node = self.world.node.clone();
        let i2 = id0.clone();
        let mut res = report::catch(move || node.forget_channel(&i2));
        let fired = if inject { self.world.store.disarm_faults() } else { 0 };
        self.r.eval(1);
        if fired > 0 && !matches!(res, Ok(Ok(()))) {
            self.r.count(if res.is_err() { "op.forget.storage_failure.daemon_died" } else { "op.forget.storage_failure.request_failed" });
            self.log(json!(["forget_channel met a storage failure", dbid, format!("{:?}", res).chars().take(80).collect::<String>()]));
            if res.is_err() {
                self.restart();
                if self.dead() {
                    return;
                }
            }
            let node = self.world.node.clone();
            let i2 = id0.clone();
            res = report::catch(move || node.forget_channel(&i2));
            self.r.count("op.forget.retried_after_storage_failure");
        }
        match res {
            Ok(Ok(())) => {
                let what = match state {
                    Some(true) => "ready",
                    Some(false) => "stub",
                    None => "absent",
                };
                self.r.count(&format!("op.forget.{}", what));
                let peer = self.chans[ci].peer;
                self.log(json!(["forget_channel", dbid, {"peer": peer}, what]));
                if state.is_some() {
                    if dbid > self.max_forgotten {
                        self.max_forgotten = dbid;
                        self.restarts_since_max_forget = 0;
                    }
                    // every live ghost entry with this id (more than one only after an id was reused,
                    // which Oracle 2 has reported by then)
                    for c in self.chans.iter_mut().filter(|c| c.id0 == id0) {
                        match c.stage {
                            Stage::Ready => {
                                c.forget_requested = true;
                                c.restarts_since_forget = 0;
                                c.flag_persisted = false;
                                c.forget_lost = false;
                            }
                            Stage::Stub => {
                                c.stage = Stage::StubGone;
                            }
                            _ => {}
                        }
                    }
                }
                self.check("forget");
            }
            Ok(Err(e)) => {
                self.r.count("op.forget.refused");
                self.r.set_add("forget_refusals", &format!("{:?}", e).chars().take(100).collect::<String>());
            }
            Err(p) => {
                self.r.count("op.forget.panic");
                self.abort(format!("forget_channel panic {}", p));
            }
        }
    }

    // ---- transactions -----------------------------------------------------------------------

    fn fresh_out(&mut self, sat: u64) -> TxOut {
        self.tx_salt += 1;
        TxOut { value: Amount::from_sat(sat), script_pubkey: p2wpkh_script(&self.secp, self.tx_salt) }
    }

    fn double_spend_tx(&mut self, ci: usize) -> Option<Transaction> {
        let f = self.chans[ci].funding.clone()?;
        let candidates: Vec<OutPoint> = f
            .input
            .iter()
            .map(|i| i.previous_output)
            .filter(|op| !self.chain.spent.contains_key(op))
            .collect();
        if candidates.is_empty() {
            return None;
        }
        let take_all = candidates.len() > 1 && self.rng.chance(1, 4);
        let picked: Vec<OutPoint> = if take_all { candidates } else { vec![*self.rng.pick(&candidates)] };
        let out = self.fresh_out(40_000);
        Some(Transaction {
            version: Version::TWO,
            lock_time: LockTime::ZERO,
            input: picked
                .into_iter()
                .map(|op| TxIn { previous_output: op, script_sig: ScriptBuf::new(), sequence: Sequence::ZERO, witness: Witness::default() })
                .collect(),
            output: vec![out],
        })
    }

    fn mutual_close_tx(&mut self, ci: usize) -> Transaction {
        let fo = self.chans[ci].funding_outpoint().unwrap();
        let value = self.chans[ci].setup.as_ref().unwrap().channel_value_sat;
        let mut outs = vec![self.fresh_out(value / 2)];
        if self.rng.bool() {
            outs.push(self.fresh_out(value / 2 - 1000));
        }
        let seq = *self.rng.pick(&[Sequence::MAX, Sequence(0xffff_fffd), Sequence::ZERO]);
        let tx = Transaction {
            version: Version::TWO,
            lock_time: LockTime::ZERO,
            input: vec![TxIn { previous_output: fo, script_sig: ScriptBuf::new(), sequence: seq, witness: Witness::default() }],
            output: outs,
        };
        let txid = tx.compute_txid();
        self.chans[ci].closes.push(CloseTx { tx: tx.clone(), txid, kind: CloseKind::Mutual, ours: vec![], theirs: None, htlcs: vec![] });
        tx
    }

    fn channel_parameters(&self, c: &GChan) -> ChannelTransactionParameters {
        let s = c.setup.as_ref().unwrap();
        ChannelTransactionParameters {
            holder_pubkeys: c.holder_points.clone().unwrap(),
            holder_selected_contest_delay: s.holder_selected_contest_delay,
            is_outbound_from_holder: s.is_outbound,
            counterparty_parameters: Some(CounterpartyChannelTransactionParameters {
                pubkeys: s.counterparty_points.clone(),
                selected_contest_delay: s.counterparty_selected_contest_delay,
            }),
            funding_outpoint: Some(LdkOutPoint { txid: s.funding_outpoint.txid, index: s.funding_outpoint.vout as u16 }),
            channel_type_features: s.features(),
        }
    }

    /// The holder's current commitment transaction (broadcast by the node itself): number 1 with
    /// HTLCs for an advanced channel, else number 0
    fn holder_close_tx(&mut self, ci: usize) -> Option<Transaction> {
        if self.chans[ci].adv_broken {
            return None;
        }
        let id0 = self.chans[ci].id0.clone();
        let n: u64 = if self.chans[ci].adv.is_some() { 1 } else { 0 };
        let point = self.world.node.with_channel_base(&id0, |b| b.get_per_commitment_point(n)).ok()?;
        let c = &self.chans[ci];
        let s = c.setup.as_ref().unwrap();
        let params = self.channel_parameters(c);
        let (feerate, to_holder, to_cp, offered, received) = match &c.adv {
            Some(a) => (a.feerate, a.to_holder, a.to_cp, a.offered.clone(), a.received.clone()),
            None => {
                let feerate = 1000u32;
                let (h, p) = self.commitment_values(c, feerate);
                (feerate, h, p, vec![], vec![])
            }
        };
        // With anchors the counterparty's to_remote is a P2WSH the monitor can only classify with
        // the holder commitment info of a validated commitment (it would treat it as an HTLC and
        // abort, monitor.rs:430 — C14's subject); a channel that was not advanced never validated
        // a holder commitment, so that shape is not generated for it.
        if c.adv.is_none() && s.commitment_type != CommitmentType::StaticRemoteKey && to_cp > 0 {
            return None;
        }
        let (commit, keys) =
            build_commitment(&self.secp, &params, true, n, &point, feerate, to_holder, to_cp, oic(&offered, &received));
        let tx = commit.trust().built_transaction().transaction.clone();
        let txid = tx.compute_txid();
        if c.closes.iter().any(|x| x.txid == txid) {
            return Some(tx);
        }
        // the node's output: to_local (revocable, delayed by the counterparty-selected delay)
        let to_local = get_revokeable_redeemscript(
            &keys.revocation_key,
            s.counterparty_selected_contest_delay,
            &keys.broadcaster_delayed_payment_key,
        )
        .to_p2wsh();
        let told: Vec<PaymentHash> = c.adv.as_ref().map(|a| a.told.clone()).unwrap_or_default();
        let htlcs: Vec<HtlcOut> = commit
            .htlcs()
            .iter()
            .filter_map(|h| {
                let vout = h.transaction_output_index?;
                let second = build_htlc_transaction(
                    &txid,
                    commit.feerate_per_kw(),
                    s.counterparty_selected_contest_delay,
                    h,
                    &params.channel_type_features,
                    &keys.broadcaster_delayed_payment_key,
                    &keys.revocation_key,
                );
                Some(HtlcOut {
                    vout,
                    value: h.amount_msat / 1000,
                    // offered by the broadcaster = offered by the node
                    ours_offered: h.offered,
                    preimage_told: !h.offered && told.contains(&h.payment_hash),
                    second_level: Some((second.compute_txid(), second)),
                })
            })
            .collect();
        let hv: Vec<u32> = htlcs.iter().map(|h| h.vout).collect();
        let ours: Vec<u32> = tx
            .output
            .iter()
            .enumerate()
            .filter(|(i, o)| o.script_pubkey == to_local && !hv.contains(&(*i as u32)))
            .map(|(i, _)| i as u32)
            .collect();
        let theirs = tx
            .output
            .iter()
            .enumerate()
            .find(|(i, o)| !ours.contains(&(*i as u32)) && !hv.contains(&(*i as u32)) && o.value.to_sat() != 330)
            .map(|(i, _)| i as u32);
        self.chans[ci].closes.push(CloseTx { tx: tx.clone(), txid, kind: CloseKind::Holder, ours, theirs, htlcs });
        Some(tx)
    }

    /// The counterparty's current commitment transaction: number 1 with HTLCs for an advanced
    /// channel, else number 0
    fn cp_close_tx(&mut self, ci: usize) -> Option<Transaction> {
        if self.chans[ci].adv_broken {
            return None;
        }
        let c = &self.chans[ci];
        let s = c.setup.as_ref().unwrap();
        let hp = c.holder_points.as_ref().unwrap();
        let n: u64 = if c.adv.is_some() { 1 } else { 0 };
        let (feerate, to_holder, to_cp, offered, received) = match &c.adv {
            Some(a) => (a.feerate, a.to_holder, a.to_cp, a.offered.clone(), a.received.clone()),
            None => {
                let feerate = 1000u32;
                let (h, p) = self.commitment_values(c, feerate);
                (feerate, h, p, vec![], vec![])
            }
        };
        // the signer can only tell the counterparty's to_local apart once it has signed that
        // commitment; without it only a commitment without counterparty balance is generated
        if !c.cp_signed && to_cp > 0 {
            return None;
        }
        let point = self.cp_point(ci, n);
        let params = self.channel_parameters(c);
        // what the node received is what the counterparty (the broadcaster) offered
        let (commit, _keys) =
            build_commitment(&self.secp, &params, false, n, &point, feerate, to_cp, to_holder, oic(&received, &offered));
        let tx = commit.trust().built_transaction().transaction.clone();
        let txid = tx.compute_txid();
        if c.closes.iter().any(|x| x.txid == txid) {
            return Some(tx);
        }
        // the node's output: to_remote
        let anchors = s.commitment_type != CommitmentType::StaticRemoteKey;
        let to_remote = if anchors {
            get_to_countersignatory_with_anchors_redeemscript(&hp.payment_point).to_p2wsh()
        } else {
            ScriptBuf::new_p2wpkh(&CompressedPublicKey(hp.payment_point).wpubkey_hash())
        };
        let told: Vec<PaymentHash> = c.adv.as_ref().map(|a| a.told.clone()).unwrap_or_default();
        let htlcs: Vec<HtlcOut> = commit
            .htlcs()
            .iter()
            .filter_map(|h| {
                let vout = h.transaction_output_index?;
                Some(HtlcOut {
                    vout,
                    value: h.amount_msat / 1000,
                    // received by the broadcaster (the counterparty) = offered by the node
                    ours_offered: !h.offered,
                    preimage_told: h.offered && told.contains(&h.payment_hash),
                    second_level: None,
                })
            })
            .collect();
        let hv: Vec<u32> = htlcs.iter().map(|h| h.vout).collect();
        let ours: Vec<u32> = tx
            .output
            .iter()
            .enumerate()
            .filter(|(i, o)| o.script_pubkey == to_remote && !hv.contains(&(*i as u32)))
            .map(|(i, _)| i as u32)
            .collect();
        let theirs = tx
            .output
            .iter()
            .enumerate()
            .find(|(i, o)| !ours.contains(&(*i as u32)) && !hv.contains(&(*i as u32)) && o.value.to_sat() != 330)
            .map(|(i, _)| i as u32);
        self.chans[ci].closes.push(CloseTx { tx: tx.clone(), txid, kind: CloseKind::Counterparty, ours, theirs, htlcs });
        Some(tx)
    }

    /// the confirmed unilateral close of a channel, if any
    fn confirmed_unilateral(&self, ci: usize) -> Option<usize> {
        let c = &self.chans[ci];
        let fo = c.funding_outpoint()?;
        let (_, by) = self.chain.spent.get(&fo)?;
        c.closes.iter().position(|x| x.txid == *by && x.kind != CloseKind::Mutual)
    }

    fn sweep_tx(&mut self, ci: usize, ours: bool) -> Option<Transaction> {
        let k = self.confirmed_unilateral(ci)?;
        let cl = &self.chans[ci].closes[k];
        let vout = if ours {
            cl.ours.iter().copied().find(|v| !self.chain.spent.contains_key(&OutPoint { txid: cl.txid, vout: *v }))?
        } else {
            let v = cl.theirs?;
            if self.chain.spent.contains_key(&OutPoint { txid: cl.txid, vout: v }) {
                return None;
            }
            v
        };
        let op = OutPoint { txid: cl.txid, vout };
        let value = cl.tx.output[vout as usize].value.to_sat();
        let out = self.fresh_out(value.saturating_sub(500).max(600));
        Some(Transaction {
            version: Version::TWO,
            lock_time: LockTime::ZERO,
            input: vec![TxIn { previous_output: op, script_sig: ScriptBuf::new(), sequence: Sequence(6), witness: Witness::default() }],
            output: vec![out],
        })
    }

    // ---- HTLC outputs of a unilateral close -----------------------------------------------------

    /// unspent HTLC outputs (index into `htlcs`) of the confirmed unilateral close
    fn unspent_htlcs(&self, ci: usize) -> Vec<usize> {
        let k = match self.confirmed_unilateral(ci) {
            Some(k) => k,
            None => return vec![],
        };
        let cl = &self.chans[ci].closes[k];
        (0..cl.htlcs.len())
            .filter(|i| !self.chain.spent.contains_key(&OutPoint { txid: cl.txid, vout: cl.htlcs[*i].vout }))
            .collect()
    }

    /// confirmed spenders of HTLC outputs of the confirmed unilateral close whose output #0 is
    /// unspent: (spender txid, index into `htlcs`, is the node's second-level transaction)
    fn unswept_spenders(&self, ci: usize) -> Vec<(Txid, usize, bool)> {
        let k = match self.confirmed_unilateral(ci) {
            Some(k) => k,
            None => return vec![],
        };
        let c = &self.chans[ci];
        let cl = &c.closes[k];
        let mut v = vec![];
        for (i, ht) in cl.htlcs.iter().enumerate() {
            if let Some((_, by)) = self.chain.spent.get(&OutPoint { txid: cl.txid, vout: ht.vout }) {
                if c.aux.contains_key(by) && !self.chain.spent.contains_key(&OutPoint { txid: *by, vout: 0 }) {
                    let second = ht.second_level.as_ref().map(|(t, _)| t == by).unwrap_or(false);
                    v.push((*by, i, second));
                }
            }
        }
        v
    }

    /// A transaction spending HTLC output `hi` of the confirmed unilateral close: the node's
    /// second-level transaction (holder commitment only) or a direct spend (1 input, 1 output)
    fn htlc_spend_tx(&mut self, ci: usize, hi: usize, second_level: bool) -> Option<Transaction> {
        let k = self.confirmed_unilateral(ci)?;
        let (txid, ht) = {
            let cl = &self.chans[ci].closes[k];
            (cl.txid, cl.htlcs.get(hi)?.clone())
        };
        let tx = match (&ht.second_level, second_level) {
            (Some((_, t)), true) => t.clone(),
            _ => {
                let out = self.fresh_out(ht.value.saturating_sub(700).max(600));
                let seq = *self.rng.pick(&[Sequence::ZERO, Sequence(1), Sequence::MAX]);
                Transaction {
                    version: Version::TWO,
                    lock_time: LockTime::ZERO,
                    input: vec![TxIn {
                        previous_output: OutPoint { txid, vout: ht.vout },
                        script_sig: ScriptBuf::new(),
                        sequence: seq,
                        witness: Witness::default(),
                    }],
                    output: vec![out],
                }
            }
        };
        self.chans[ci].aux.insert(tx.compute_txid(), tx.clone());
        Some(tx)
    }

    /// A sweep of output #0 of a (confirmed) spender of an HTLC output
    fn spender_output_sweep_tx(&mut self, ci: usize, parent: Txid) -> Option<Transaction> {
        let ptx = self.chans[ci].aux.get(&parent)?.clone();
        let value = ptx.output.first()?.value.to_sat();
        let out = self.fresh_out(value.saturating_sub(400).max(600));
        let delay = self.chans[ci].setup.as_ref().map(|s| s.counterparty_selected_contest_delay).unwrap_or(6);
        let tx = Transaction {
            version: Version::TWO,
            lock_time: LockTime::ZERO,
            input: vec![TxIn {
                previous_output: OutPoint { txid: parent, vout: 0 },
                script_sig: ScriptBuf::new(),
                sequence: Sequence(delay as u32),
                witness: Witness::default(),
            }],
            output: vec![out],
        };
        self.chans[ci].aux.insert(tx.compute_txid(), tx.clone());
        Some(tx)
    }

    /// evidence: what kind of HTLC-related transactions a connected block carried
    fn count_htlc_txs(&mut self, txs: &[Transaction]) {
        for tx in txs.iter() {
            let txid = tx.compute_txid();
            let mut keys: Vec<&'static str> = vec![];
            for c in self.chans.iter() {
                if !c.aux.contains_key(&txid) {
                    continue;
                }
                for cl in c.closes.iter() {
                    for ht in cl.htlcs.iter() {
                        let spends_htlc =
                            tx.input.iter().any(|i| i.previous_output == OutPoint { txid: cl.txid, vout: ht.vout });
                        if spends_htlc {
                            let second = ht.second_level.as_ref().map(|(t, _)| *t == txid).unwrap_or(false);
                            keys.push(match (second, ht.ours_offered) {
                                (true, true) => "htlc.second_level_tx_confirmed.htlc-timeout(offered-by-node)",
                                (true, false) => "htlc.second_level_tx_confirmed.htlc-success(received-by-node)",
                                (false, true) => "htlc.direct_spend_confirmed.offered-by-node",
                                (false, false) => "htlc.direct_spend_confirmed.received-by-node",
                            });
                            keys.push(if second { "htlc.second_level_tx_confirmed" } else { "htlc.direct_spend_confirmed" });
                            keys.push(if cl.kind == CloseKind::Holder {
                                "htlc.output_spent.holder-commitment"
                            } else {
                                "htlc.output_spent.counterparty-commitment"
                            });
                        }
                        let parent_second = ht.second_level.as_ref().map(|(t, _)| *t);
                        for i in tx.input.iter() {
                            let pt = i.previous_output.txid;
                            if pt != cl.txid && c.aux.contains_key(&pt) && i.previous_output.vout == 0 {
                                let parent_spends_this = c
                                    .aux
                                    .get(&pt)
                                    .map(|p| p.input.iter().any(|pi| pi.previous_output == OutPoint { txid: cl.txid, vout: ht.vout }))
                                    .unwrap_or(false);
                                if parent_spends_this {
                                    keys.push(if parent_second == Some(pt) {
                                        "htlc.second_level_output_swept"
                                    } else {
                                        "htlc.direct_spender_output_swept"
                                    });
                                }
                            }
                        }
                    }
                }
            }
            for k in keys {
                self.r.count(k);
            }
        }
    }

    /// connect the transactions, each in its own block or all in one (they must not depend on
    /// each other when in one block); stops at the first that is not includable
    fn include_seq(&mut self, txs: Vec<Transaction>, one_block: bool) -> bool {
        if txs.is_empty() {
            return true;
        }
        let known = self.known_txids();
        if one_block {
            let mut take: Vec<Transaction> = vec![];
            for tx in txs.into_iter() {
                let child = take.iter().any(|p| tx.input.iter().any(|i| i.previous_output.txid == p.compute_txid()));
                if !child && self.includable(&tx, &take, &known) {
                    take.push(tx);
                }
            }
            !take.is_empty() && self.connect(take)
        } else {
            for tx in txs.into_iter() {
                if !self.includable(&tx, &[], &known) {
                    return false;
                }
                if !self.connect(vec![tx]) {
                    return false;
                }
                if self.rng.chance(1, 4) {
                    self.heartbeat();
                }
                if self.rng.chance(1, 5) {
                    let n = 1 + self.rng.below(2) as u32;
                    self.mine_empty(n);
                }
                if self.dead() {
                    return false;
                }
            }
            true
        }
    }

    /// Mine n empty blocks with heartbeats every few blocks, at every block while something is
    /// about 100 deep (the ghost event, the last required sweep seen so far, a sweep that a reorg
    /// removed), and at the end
    fn long_wait(&mut self, n: u32) {
        self.log(json!(["long-wait", n]));
        for _ in 0..n {
            if !self.connect(vec![]) {
                return;
            }
            let height = self.chain.height();
            let near = self.near_threshold()
                || self.chans.iter().any(|c| {
                    c.stage == Stage::Ready && {
                        let stale = c.stale_last_h.map(|h| (99..=101).contains(&(height + 1).saturating_sub(h))).unwrap_or(false);
                        let partial = uni_status(c, &self.chain)
                            .map(|st| st.has_htlcs && !st.qualifies() && (99..=101).contains(&self.chain.depth_of(st.last_h)))
                            .unwrap_or(false);
                        stale || partial
                    }
                });
            if near {
                if self.rng.chance(4, 5) {
                    self.heartbeat();
                }
                if self.rng.chance(1, 12) {
                    self.restart();
                }
            } else if self.rng.chance(1, 9) {
                self.heartbeat();
            } else if self.rng.chance(1, 80) {
                self.restart();
            }
            if self.dead() {
                return;
            }
        }
        self.heartbeat();
    }

    /// Macro: sweep the outputs of a confirmed unilateral close with HTLCs.
    /// mode 0: everything; 1: leave one HTLC output the node offered unspent; 2: leave the output
    /// of one of the node's second-level transactions unspent.  After a partial sweep the node
    /// mostly asks to forget the channel and 100..130 blocks go by with heartbeats.
    fn htlc_macro(&mut self, ci: usize) {
        let k = match self.confirmed_unilateral(ci) {
            Some(k) => k,
            None => return,
        };
        let (holder, dbid) = (self.chans[ci].closes[k].kind == CloseKind::Holder, self.chans[ci].dbid);
        let mut mode = self.rng.weighted(&[4, 3, 3]);
        let unspent = self.unspent_htlcs(ci);
        let offered_unspent: Vec<usize> =
            unspent.iter().copied().filter(|i| self.chans[ci].closes[k].htlcs[*i].ours_offered).collect();
        if mode == 1 && offered_unspent.is_empty() {
            mode = if holder { 2 } else { 0 };
        }
        let skip_htlc = if mode == 1 { Some(*self.rng.pick(&offered_unspent)) } else { None };
        let mode_name = ["complete", "leave-an-offered-htlc-output", "leave-a-second-level-output"][mode];
        self.log(json!(["htlc-sweep-macro", dbid, mode_name]));
        self.r.count(&format!("macro.htlc-sweep.mode{}", mode));
        // stage 1: main output and HTLC outputs
        let mut stage1: Vec<Transaction> = vec![];
        let main = self.sweep_tx(ci, true);
        for hi in unspent.iter().copied() {
            if Some(hi) == skip_htlc {
                continue;
            }
            let ours = self.chans[ci].closes[k].htlcs[hi].ours_offered;
            // the node's second-level transaction most of the time on its own commitment
            // (always for the HTLCs it offered when a second-level output is to be left)
            let second = holder && (self.rng.chance(3, 4) || (mode == 2 && ours));
            if let Some(tx) = self.htlc_spend_tx(ci, hi, second) {
                stage1.push(tx);
            }
        }
        self.rng.shuffle(&mut stage1);
        if let Some(m) = main {
            if self.rng.chance(3, 4) {
                stage1.insert(0, m);
            } else {
                let at = self.rng.usize(stage1.len() + 1);
                stage1.insert(at, m);
            }
        }
        let one_block = self.rng.chance(1, 3);
        if !self.include_seq(stage1, one_block) && self.dead() {
            return;
        }
        // stage 2: the outputs of the transactions that spent HTLC outputs
        let spenders = self.unswept_spenders(ci);
        let second_offered: Vec<Txid> = spenders
            .iter()
            .filter(|(_, hi, second)| *second && self.chans[ci].closes[k].htlcs[*hi].ours_offered)
            .map(|(t, _, _)| *t)
            .collect();
        let skip_second = if mode == 2 && !second_offered.is_empty() { Some(*self.rng.pick(&second_offered)) } else { None };
        if mode == 2 && skip_second.is_none() {
            mode = 0;
        }
        let mut stage2: Vec<Transaction> = vec![];
        for (t, _, _) in spenders.iter() {
            if Some(*t) == skip_second {
                continue;
            }
            if let Some(tx) = self.spender_output_sweep_tx(ci, *t) {
                stage2.push(tx);
            }
        }
        self.rng.shuffle(&mut stage2);
        let one_block = self.rng.chance(1, 4);
        if !self.include_seq(stage2, one_block) && self.dead() {
            return;
        }
        if mode != 0 && self.rng.chance(3, 4) {
            if !self.chans[ci].forget_requested || self.rng.chance(1, 4) {
                self.forget(ci);
            }
            // now and then the node's unswept output stays unswept for more than two thousand blocks (the depth at
            // which `diagnostic` calls a swept main output "aged"): the channel must still be there afterwards, however
            // long ago the main output or the other HTLC outputs were swept
            let n = if self.rng.chance(1, 12) {
                let n = 2017 + self.rng.below(40) as u32;
                self.cap_bonus += n;
                self.r.count("macro.htlc-sweep.partial-then-over-2016-blocks");
                n
            } else {
                100 + self.rng.below(31) as u32
            };
            self.long_wait(n);
        }
    }

    /// Macro: a reorg disconnects the blocks down to the one that carries the LAST required
    /// HTLC-related sweep of a fully swept unilateral close; the sweep of the main output stays
    /// confirmed.  The removed HTLC-related sweeps are not re-mined (mode 0), re-mined after a long
    /// wait (1) or right away (2).  With 0 and 1 the node asks to forget the channel and 100..125
    /// blocks go by with heartbeats: the channel must survive.
    fn reorg_last_macro(&mut self, ci: usize) {
        let st = match uni_status(&self.chans[ci], &self.chain) {
            Some(st) => st,
            None => return,
        };
        if !st.qualifies() || !st.last_is_htlc {
            return;
        }
        let d = self.chain.depth_of(st.last_h);
        let dbid = self.chans[ci].dbid;
        let mode = self.rng.weighted(&[4, 3, 2]);
        let then = ["not-re-mined", "re-mined-after-long-wait", "re-mined-right-away"][mode];
        self.log(json!(["reorg-last-htlc-sweep-macro", dbid, {"disconnect": d, "last_sweep_height": st.last_h,
            "main_sweep_height": st.main_h, "then": then}]));
        let mut dropped: Vec<Transaction> = vec![];
        let mut done = 0u32;
        for _ in 0..d {
            match self.disconnect() {
                Some(txs) => {
                    let mut t = txs;
                    t.extend(dropped);
                    dropped = t;
                    done += 1;
                }
                None => break,
            }
        }
        if self.dead() || done < d {
            return;
        }
        self.r.count("op.reorg");
        let after = uni_status(&self.chans[ci], &self.chain);
        let main_kept = after.map(|a| a.main_h.is_some() && !a.qualifies()).unwrap_or(false);
        if !main_kept {
            // cannot happen by construction; keep the evidence honest
            self.r.count("htlc.sweep_reorged_out.unexpected-shape");
            return;
        }
        self.r.count(if st.has_main {
            "htlc.sweep_reorged_out_main_sweep_kept"
        } else {
            "htlc.sweep_reorged_out_no_main_output"
        });
        let a = after.unwrap();
        self.r.count(if a.missing_htlc > 0 {
            "htlc.sweep_reorged_out.htlc-output-spend"
        } else {
            "htlc.sweep_reorged_out.second-level-output-sweep"
        });
        self.chans[ci].stale_last_h = Some(st.last_h);
        self.r.count(&format!("macro.reorg-last-htlc-sweep.{}", then));
        match self.rng.below(4) {
            0 => self.heartbeat(),
            1 => {
                self.restart();
                self.heartbeat();
            }
            _ => {}
        }
        // transactions of this channel's HTLC sweeps are held back, everything else returns
        let (held, rest): (Vec<Transaction>, Vec<Transaction>) =
            dropped.into_iter().partition(|t| self.chans[ci].aux.contains_key(&t.compute_txid()));
        let newlen = done + self.rng.below(3) as u32;
        let mut rest = rest;
        for b in 0..newlen {
            let take = if b == 0 {
                let known = self.known_txids();
                let mut take: Vec<Transaction> = vec![];
                for tx in std::mem::take(&mut rest).into_iter() {
                    let child = take.iter().any(|p| tx.input.iter().any(|i| i.previous_output.txid == p.compute_txid()));
                    if !child && self.includable(&tx, &take, &known) {
                        take.push(tx);
                    }
                }
                take
            } else {
                vec![]
            };
            if !self.connect(take) {
                return;
            }
        }
        if mode == 2 {
            self.include_seq(held, false);
            self.heartbeat();
            return;
        }
        if !self.chans[ci].forget_requested && self.rng.chance(7, 8) {
            self.forget(ci);
        }
        self.heartbeat();
        let n = 100 + self.rng.below(26) as u32;
        self.long_wait(n);
        if mode == 1 && !self.dead() {
            self.include_seq(held, false);
            self.heartbeat();
        }
    }

    // ---- macro steps ------------------------------------------------------------------------

    fn near_threshold(&self) -> bool {
        self.chans.iter().any(|c| {
            c.stage == Stage::Ready && {
                let (d, _) = qualifying_depth(c, &self.chain);
                (97..=102).contains(&d)
            }
        })
    }

    /// mine empty blocks; heartbeat+check at every block near the threshold, else sometimes
    fn mine_empty(&mut self, n: u32) {
        for _ in 0..n {
            if !self.connect(vec![]) {
                return;
            }
            if self.near_threshold() {
                if self.rng.chance(4, 5) {
                    self.heartbeat();
                }
                if self.rng.chance(1, 12) {
                    self.restart();
                }
            } else if self.rng.chance(1, 30) {
                self.heartbeat();
            }
            if self.dead() {
                return;
            }
        }
    }

    fn try_include(&mut self, tx: Transaction) -> bool {
        let known = self.known_txids();
        if self.includable(&tx, &[], &known) {
            self.connect(vec![tx])
        } else {
            false
        }
    }
}

// ---------------------------------------------------------------------------------------------
// history generator
// ---------------------------------------------------------------------------------------------

fn run_history(rng: &mut Rng, r: &mut Report, ctx: Value, steps: u32) {
    let cfg = WorldCfg::regtest(rng.bytes::<32>());
    let world = World::new(cfg);
    let node_id = world.node.get_id();
    let secp = Secp256k1::new();
    let (genesis_header, genesis_fh) = {
        let t = world.node.get_tracker();
        (t.tip().0, t.tip().1)
    };
    let mut peers = vec![];
    for _ in 0..3 {
        let mut rr = rng.fork(77);
        let (_, pk) = key_from(&mut rr, &secp);
        peers.push(pk.serialize());
    }
    let mut h = Hist {
        rng: rng.fork(1),
        r,
        world,
        node_id,
        secp,
        chain: Chain {
            blocks: vec![Blk { header: genesis_header, fh: genesis_fh, txs: vec![] }],
            conf: HashMap::new(),
            spent: HashMap::new(),
            salt: 0,
            total_connected: 0,
        },
        chans: vec![],
        peers,
        trace: vec![],
        empty_run: 0,
        max_forgotten: 0,
        cap_bonus: 0,
        restarts_since_max_forget: 0,
        wallet_idx: 0,
        aborted: None,
        ctx,
        tx_salt: 0,
        reorged: false,
    };
    h.r.count("history.started");

    // profile of this history: what it is inclined to do
    let forget_bias = h.rng.weighted(&[3, 3, 2]); // 0 eager, 1 late, 2 rarely
    let close_bias = h.rng.below(5); // preferred closing kind
    let mut next_dbid_floor = 1 + h.rng.below(5);

    // a few blocks first so that heights are not degenerate
    let pre = 1 + h.rng.below(4) as u32;
    h.mine_empty(pre);

    for step in 0..steps {
        if h.dead() {
            break;
        }
        // enabled actions with weights
        let stubs: Vec<usize> = (0..h.chans.len()).filter(|i| h.chans[*i].stage == Stage::Stub).collect();
        let ready: Vec<usize> = (0..h.chans.len()).filter(|i| h.chans[*i].stage == Stage::Ready).collect();
        let known = h.known_txids();
        let fund_ok: Vec<usize> = ready
            .iter()
            .copied()
            .filter(|i| h.includable(h.chans[*i].funding.as_ref().unwrap(), &[], &known))
            .collect();
        let unconfirmed: Vec<usize> = ready
            .iter()
            .copied()
            .filter(|i| !h.chain.conf.contains_key(&h.chans[*i].funding_txid().unwrap()))
            .collect();
        let closable: Vec<usize> = ready
            .iter()
            .copied()
            .filter(|i| {
                h.chain.conf.contains_key(&h.chans[*i].funding_txid().unwrap())
                    && !h.chain.spent.contains_key(&h.chans[*i].funding_outpoint().unwrap())
            })
            .collect();
        let sweepable: Vec<usize> = ready.iter().copied().filter(|i| h.confirmed_unilateral(*i).is_some()).collect();
        let with_event: Vec<(usize, u32)> = ready
            .iter()
            .copied()
            .map(|i| (i, qualifying_depth(&h.chans[i], &h.chain).0))
            .filter(|(_, d)| *d > 0)
            .collect();
        let blocks_left = MAX_BLOCKS_PER_HISTORY.saturating_sub(h.chain.total_connected);
        let hdrs = h.chain.blocks.len().saturating_sub(1).min(100) as u32;

        let w_new = if step == 0 { 1000 } else if h.chans.len() < 2 { 8 } else if h.chans.len() < 5 { 3 } else { 1 };
        let w_setup = if stubs.is_empty() { 0 } else if ready.is_empty() { 40 } else { 6 };
        let w_signcp = if ready.iter().any(|i| !h.chans[*i].cp_signed) { 4 } else { 0 };
        let w_fund = if fund_ok.is_empty() { 0 } else { 14 };
        let w_dspend = if unconfirmed.is_empty() { 0 } else { 4 };
        let w_close = if closable.is_empty() { 0 } else { 12 };
        let w_sweep = if sweepable.is_empty() { 0 } else { 12 };
        let w_forget = if h.chans.is_empty() {
            0
        } else {
            match forget_bias {
                0 => 9,
                1 => {
                    if with_event.is_empty() {
                        1
                    } else {
                        8
                    }
                }
                _ => 2,
            }
        };
        let w_hb = 6;
        let w_restart = 3;
        let w_mine = if blocks_left > 3 { 5 } else { 0 };
        let w_bury = if with_event.iter().any(|(_, d)| *d < 125) && blocks_left > 5 { 16 } else { 0 };
        let w_reorg = if hdrs >= 1 && blocks_left > 5 { if with_event.is_empty() { 2 } else { 6 } } else { 0 };
        let w_probe = if h.max_forgotten > 0 { 6 } else { 0 };
        // confirmed unilateral closes with HTLC outputs that still have something to sweep
        let htlc_work: Vec<usize> = sweepable
            .iter()
            .copied()
            .filter(|i| {
                uni_status(&h.chans[*i], &h.chain).map(|st| st.has_htlcs).unwrap_or(false)
                    && (!h.unspent_htlcs(*i).is_empty() || !h.unswept_spenders(*i).is_empty())
            })
            .collect();
        // fully swept (ghost) closes whose last required sweep is HTLC-related and above the main sweep
        let reorg_last: Vec<(usize, u32)> = ready
            .iter()
            .copied()
            .filter_map(|i| {
                let st = uni_status(&h.chans[i], &h.chain)?;
                if st.has_htlcs && st.qualifies() && st.last_is_htlc {
                    let d = h.chain.depth_of(st.last_h);
                    if d <= hdrs && blocks_left >= d + 112 {
                        return Some((i, d));
                    }
                }
                None
            })
            .collect();
        let w_htlc = if htlc_work.is_empty() || blocks_left < 12 {
            0
        } else if htlc_work.iter().any(|i| !h.unspent_htlcs(*i).is_empty()) {
            26
        } else {
            10
        };
        let w_reorg_last = if reorg_last.is_empty() {
            0
        } else if reorg_last.iter().any(|(_, d)| *d <= 12) {
            22
        } else {
            7
        };

        let op = h.rng.weighted(&[
            w_new, w_setup, w_signcp, w_fund, w_dspend, w_close, w_sweep, w_forget, w_hb, w_restart, w_mine, w_bury,
            w_reorg, w_probe, w_htlc, w_reorg_last,
        ]);
        match op {
            0 => {
                // new channel with an id above everything so far (normal operation)
                let dbid = next_dbid_floor + h.rng.below(3);
                next_dbid_floor = dbid + 1;
                let peer = h.rng.usize(3);
                h.new_channel(dbid.max(h.max_forgotten + 1), peer, "above");
                next_dbid_floor = next_dbid_floor.max(h.max_forgotten + 2);
            }
            1 => {
                let ci = *h.rng.pick(&stubs);
                h.setup(ci);
            }
            2 => {
                let c: Vec<usize> = ready.iter().copied().filter(|i| !h.chans[*i].cp_signed).collect();
                let ci = *h.rng.pick(&c);
                h.sign_cp(ci);
            }
            3 => {
                let ci = *h.rng.pick(&fund_ok);
                let tx = h.chans[ci].funding.clone().unwrap();
                if h.try_include(tx) {
                    h.r.count("event.funding-confirmed");
                }
            }
            4 => {
                // prefer channels whose inputs the signer knows
                let pref: Vec<usize> = unconfirmed.iter().copied().filter(|i| h.chans[*i].inputs_known).collect();
                let ci = if !pref.is_empty() && h.rng.chance(3, 4) { *h.rng.pick(&pref) } else { *h.rng.pick(&unconfirmed) };
                if let Some(tx) = h.double_spend_tx(ci) {
                    if h.try_include(tx) {
                        h.r.count("event.double-spend");
                        if h.chans[ci].inputs_known {
                            h.r.count("event.double-spend.inputs-known");
                        }
                    }
                }
            }
            5 => {
                let ci = *h.rng.pick(&closable);
                let kind = if h.rng.chance(1, 2) { close_bias } else { h.rng.below(5) };
                let tx = match kind {
                    0 | 1 => Some(h.mutual_close_tx(ci)),
                    2 | 3 => h.holder_close_tx(ci).or_else(|| Some(h.mutual_close_tx(ci))),
                    _ => {
                        if !h.chans[ci].cp_signed {
                            h.sign_cp(ci);
                        }
                        h.cp_close_tx(ci).or_else(|| h.holder_close_tx(ci))
                    }
                };
                if let Some(tx) = tx {
                    let txid = tx.compute_txid();
                    // sometimes the sweep rides in the same block
                    let known = h.known_txids();
                    if h.includable(&tx, &[], &known) {
                        let mut txs = vec![tx];
                        let k = h.chans[ci].closes.iter().position(|x| x.txid == txid).unwrap();
                        let kind = h.chans[ci].closes[k].kind;
                        if kind != CloseKind::Mutual && h.rng.chance(1, 10) {
                            if let Some(v) = h.chans[ci].closes[k].ours.first().copied() {
                                let val = h.chans[ci].closes[k].tx.output[v as usize].value.to_sat();
                                let out = h.fresh_out(val.saturating_sub(500).max(600));
                                txs.push(Transaction {
                                    version: Version::TWO,
                                    lock_time: LockTime::ZERO,
                                    input: vec![TxIn {
                                        previous_output: OutPoint { txid, vout: v },
                                        script_sig: ScriptBuf::new(),
                                        sequence: Sequence(6),
                                        witness: Witness::default(),
                                    }],
                                    output: vec![out],
                                });
                                h.r.count("event.close-and-sweep-same-block");
                            }
                        }
                        if h.connect(txs) {
                            h.r.count(&format!("event.close.{:?}", kind));
                            if kind != CloseKind::Mutual {
                                let nh = h.chans[ci].closes[k].htlcs.len();
                                if nh > 0 {
                                    h.r.count("close.unilateral_with_htlcs");
                                    let anchors = h.chans[ci].setup.as_ref().map(|s| s.commitment_type != CommitmentType::StaticRemoteKey).unwrap_or(false);
                                    h.r.count(if anchors { "close.unilateral_with_htlcs.anchors" } else { "close.unilateral_with_htlcs.static-remotekey" });
                                    h.r.count(&format!("close.unilateral_with_htlcs.{:?}", kind));
                                    h.r.count(&format!("close.unilateral_with_htlcs.{}-htlc-outputs", nh));
                                    let no = h.chans[ci].closes[k].htlcs.iter().filter(|x| x.ours_offered).count();
                                    h.r.count_n("close.unilateral_with_htlcs.outputs-offered-by-node", no as u64);
                                    h.r.count_n("close.unilateral_with_htlcs.outputs-received-by-node", (nh - no) as u64);
                                } else {
                                    h.r.count("close.unilateral_without_htlcs");
                                }
                            }
                            if kind != CloseKind::Mutual && h.chans[ci].closes[k].ours.is_empty() {
                                h.r.count("event.close.unilateral-without-node-output");
                            }
                        }
                    }
                }
            }
            6 if !htlc_work.is_empty() && h.rng.chance(1, 2) => {
                // one HTLC-related step: spend an HTLC output, or sweep the output of such a spender
                let ci = *h.rng.pick(&htlc_work);
                let unspent = h.unspent_htlcs(ci);
                let spenders = h.unswept_spenders(ci);
                let tx = if !unspent.is_empty() && (spenders.is_empty() || h.rng.bool()) {
                    let hi = *h.rng.pick(&unspent);
                    let second = h.rng.chance(2, 3);
                    h.htlc_spend_tx(ci, hi, second)
                } else if !spenders.is_empty() {
                    let (t, _, _) = spenders[h.rng.usize(spenders.len())];
                    h.spender_output_sweep_tx(ci, t)
                } else {
                    None
                };
                if let Some(tx) = tx {
                    if h.try_include(tx) {
                        h.r.count("event.sweep.htlc-related");
                    }
                }
            }
            6 => {
                let ci = *h.rng.pick(&sweepable);
                let ours = h.rng.chance(3, 4);
                if let Some(tx) = h.sweep_tx(ci, ours) {
                    if h.try_include(tx) {
                        h.r.count(if ours { "event.sweep.our-output" } else { "event.sweep.their-output" });
                    }
                }
            }
            7 => {
                // forget: mostly a live channel, sometimes one that is gone
                let live: Vec<usize> = (0..h.chans.len())
                    .filter(|i| matches!(h.chans[*i].stage, Stage::Ready | Stage::Stub))
                    .collect();
                let ci = if !live.is_empty() && h.rng.chance(9, 10) {
                    // prefer channels with an event when the profile forgets late
                    if forget_bias == 1 && !with_event.is_empty() {
                        with_event[h.rng.usize(with_event.len())].0
                    } else {
                        *h.rng.pick(&live)
                    }
                } else {
                    h.rng.usize(h.chans.len())
                };
                h.forget(ci);
                if h.rng.chance(1, 6) {
                    // E9 probe: restart right after forget (before any tracker persist)
                    h.restart();
                    if h.rng.bool() {
                        h.forget(ci); // the node repeats the request
                    }
                }
            }
            8 => h.heartbeat(),
            9 => h.restart(),
            10 => {
                let n = 1 + h.rng.below(3) as u32;
                h.mine_empty(n);
            }
            11 => {
                // bury an event to a chosen number of confirmations
                let cands: Vec<(usize, u32)> = with_event.iter().copied().filter(|(_, d)| *d < 125).collect();
                let (_, d) = cands[h.rng.usize(cands.len())];
                let targets = [98u32, 99, 100, 100, 101, 101, 102, 105, 130, 10, 50];
                let mut t = *h.rng.pick(&targets);
                if t <= d {
                    t = d + 1 + h.rng.below(3) as u32;
                }
                let n = (t - d).min(blocks_left);
                h.log(json!(["bury-to", t]));
                h.mine_empty(n);
                h.heartbeat();
            }
            12 => {
                // reorg: disconnect k blocks, then maybe re-mine
                let mut choices: Vec<u32> = vec![1, 2, 3];
                for (_, d) in with_event.iter() {
                    // keep one confirmation / un-confirm / one more / drop below the requirement
                    choices.push(d.saturating_sub(1));
                    choices.push(*d);
                    choices.push(*d);
                    choices.push(d + 1);
                    if *d >= REQUIRED_DEPTH {
                        choices.push(d - 99);
                        choices.push(d - 98);
                        choices.push(d - 90);
                    }
                }
                let choices: Vec<u32> = choices.into_iter().filter(|k| *k >= 1 && *k <= hdrs).collect();
                if choices.is_empty() {
                    continue;
                }
                let k = *h.rng.pick(&choices);
                let before: Vec<u32> = with_event.iter().map(|(_, d)| *d).collect();
                h.log(json!(["reorg-disconnect", k, {"event_depths_before": before}]));
                let mut dropped: Vec<Transaction> = vec![];
                let mut done = 0;
                for _ in 0..k {
                    match h.disconnect() {
                        Some(txs) => {
                            let mut t = txs;
                            t.extend(dropped);
                            dropped = t;
                            done += 1;
                        }
                        None => break,
                    }
                }
                if h.dead() {
                    break;
                }
                h.r.count("op.reorg");
                if done >= 1 && before.iter().any(|d| *d >= REQUIRED_DEPTH && done > *d - REQUIRED_DEPTH) {
                    h.r.count("op.reorg.unburies-a-buried-event");
                }
                if before.iter().any(|d| done >= *d) {
                    h.r.count("op.reorg.unconfirms-an-event");
                }
                // observe right after the disconnects
                match h.rng.below(4) {
                    0 => h.heartbeat(),
                    1 => {
                        h.restart();
                        h.heartbeat();
                    }
                    _ => {}
                }
                // re-mine: 0 nothing, 1 everything valid in the first block, 2 spread over blocks
                let mode = h.rng.below(3);
                let newlen = (done + h.rng.below(3) as u32).min(blocks_left);
                if mode == 0 {
                    h.mine_empty(newlen);
                } else {
                    let mut rest = dropped;
                    for b in 0..newlen.max(1) {
                        let known = h.known_txids();
                        let mut take: Vec<Transaction> = vec![];
                        let mut keep: Vec<Transaction> = vec![];
                        for tx in rest.into_iter() {
                            // close+sweep in one block is kept rare (a known reorg panic lives there)
                            let child_of_pending = take.iter().any(|p| tx.input.iter().any(|i| i.previous_output.txid == p.compute_txid()));
                            if (mode == 1 || h.rng.bool()) && !child_of_pending && h.includable(&tx, &take, &known) {
                                take.push(tx);
                            } else {
                                keep.push(tx);
                            }
                        }
                        rest = keep;
                        if !h.connect(take) {
                            break;
                        }
                        if b == 0 && h.rng.bool() {
                            h.heartbeat();
                        }
                    }
                }
                h.heartbeat();
            }
            14 => {
                let pref: Vec<usize> = htlc_work.iter().copied().filter(|i| !h.unspent_htlcs(*i).is_empty()).collect();
                let ci = if pref.is_empty() { *h.rng.pick(&htlc_work) } else { *h.rng.pick(&pref) };
                h.htlc_macro(ci);
            }
            15 => {
                let near: Vec<(usize, u32)> = reorg_last.iter().copied().filter(|(_, d)| *d <= 12).collect();
                let (ci, _) = if near.is_empty() { reorg_last[h.rng.usize(reorg_last.len())] } else { near[h.rng.usize(near.len())] };
                h.reorg_last_macro(ci);
            }
            _ => {
                // probe the id rule: ids at or below the highest forgotten one
                let m = h.max_forgotten;
                let dbid = match h.rng.below(5) {
                    0 | 1 => m,
                    2 => m.saturating_sub(1),
                    3 => h.rng.range(0, m),
                    _ => m + 1 + h.rng.below(2),
                };
                let peer = h.rng.usize(3);
                let relx: &'static str = if dbid == m { "equal" } else if dbid < m { "below" } else { "above" };
                if h.rng.chance(1, 4) {
                    h.restart();
                }
                h.new_channel(dbid, peer, relx);
                if dbid > m {
                    next_dbid_floor = next_dbid_floor.max(dbid + 1);
                }
            }
        }
    }

    // finale: observe, restart, observe, probe the id rule on both sides of a restart
    if !h.dead() {
        h.heartbeat();
        h.heartbeat();
        if h.max_forgotten > 0 {
            let m = h.max_forgotten;
            let peer = h.rng.usize(3);
            h.new_channel(m, peer, "equal");
            if m > 1 {
                let d = h.rng.range(1, m - 1);
                let peer = h.rng.usize(3);
                h.new_channel(d, peer, "below");
            }
        }
        h.restart();
        h.heartbeat();
        if h.max_forgotten > 0 {
            let m = h.max_forgotten;
            let peer = h.rng.usize(3);
            h.new_channel(m, peer, "equal");
            if m > 1 {
                let d = h.rng.range(1, m - 1);
                let peer = h.rng.usize(3);
                h.new_channel(d, peer, "below");
            }
            let peer = h.rng.usize(3);
            h.new_channel(m + 1, peer, "above");
        }
    }
    if h.dead() {
        h.r.count("history.abandoned");
    } else {
        h.r.count("history.completed");
    }
    let blocks = h.chain.total_connected as u64;
    h.r.count_n("history.blocks_total", blocks);
}

fn main() {
    let cli = Cli::parse("C15");
    report::install_quiet_panic_hook();
    let start = Instant::now();
    let quick = cli.tier.is_quick();
    let shards: usize = if quick { 32 } else { 128 };
    let per_shard = cli.scaled(if quick { 32 } else { 150 });
    let steps: u32 = if quick { 34 } else { 44 };
    let seed = cli.seed;
    let only: Option<(u64, u64)> = match (cli.extra.get("only-shard"), cli.extra.get("only-history")) {
        (Some(a), Some(b)) => Some((a.parse().unwrap_or(0), b.parse().unwrap_or(0))),
        _ => None,
    };
    let mut report = run_sharded("C15", cli.threads, shards, |shard, r| {
        let mut rng = Rng::new(seed.wrapping_mul(1_000_003).wrapping_add(shard as u64).wrapping_mul(0x9E37));
        for hi in 0..per_shard {
            let mut hr = rng.fork(hi);
            // replay of a single history: --only-shard S --only-history H (same seed and tier)
            if let Some((os, oh)) = only {
                if os != shard as u64 || oh != hi {
                    continue;
                }
            }
            let ctx = json!({"seed": seed, "shard": shard, "history": hi, "tier": if quick {"quick"} else {"thorough"},
                "how": "c15_prune --prop C15 --tier <tier> --seed <seed> --only-shard <shard> --only-history <history>"});
            run_history(&mut hr, r, ctx, steps);
        }
    });
    if only.is_some() {
        report.inconclusive("single-history replay (--only-shard/--only-history): coverage minimums not applicable");
    }
    // antecedents that must have fired
    report.require("gone.legit", if quick { 30 } else { 300 });
    report.require("survived.forget.not-buried", 100);
    report.require("survived.no-forget.buried>=100", 20);
    report.require("survived.restart", 100);
    report.require("op.reorg", 30);
    report.require("idrule.antecedent", 100);
    report.require("idrule.refused.after-restart", 30);
    report.require("history.completed", if quick { 200 } else { 2000 });
    // the HTLC situations must really have been reached
    report.require("close.unilateral_with_htlcs", if quick { 50 } else { 1000 });
    report.require("close.unilateral_with_htlcs.Holder", if quick { 20 } else { 300 });
    report.require("close.unilateral_with_htlcs.Counterparty", if quick { 10 } else { 200 });
    report.require("htlc.second_level_tx_confirmed", if quick { 50 } else { 1000 });
    report.require("htlc.second_level_output_swept", if quick { 50 } else { 1000 });
    report.require("htlc.direct_spend_confirmed", if quick { 50 } else { 1000 });
    report.require("htlc.sweep_reorged_out_main_sweep_kept", if quick { 10 } else { 200 });
    report.require("survived.partial_sweep_100_blocks.htlc-output-unspent", if quick { 50 } else { 1000 });
    report.require("survived.partial_sweep_100_blocks.second-level-output-unspent", if quick { 50 } else { 1000 });
    report.require("survived.htlc_sweep_reorged_out_100_blocks", if quick { 50 } else { 1000 });
    report.require("gone.legit.unilateral-with-htlcs", if quick { 10 } else { 200 });
    report.require("macro.htlc-sweep.partial-then-over-2016-blocks", if quick { 3 } else { 30 });
    finish(
        report,
        FinishSpec {
            cli: &cli,
            level: "exploration",
            rule: "seeded random histories over a real Node (regtest): new_channel/setup_channel/unchecked_sign_onchain_tx/sign counterparty commitment/forget_channel/get_heartbeat/restart interleaved with a harness-built chain (funding, funding-input double-spend, mutual close, holder/counterparty unilateral close, sweeps, burial runs ending at 98..130 confirmations, reorgs). Half of the channels are advanced through the real commitment flow to commitment 1 with 1-3 HTLCs (offered and received, 20k-200k sat), so their unilateral closes carry HTLC outputs; the chain then carries the node's second-level HTLC-timeout/HTLC-success transactions (holder commitment), direct spends of HTLC outputs, sweeps of the outputs of those spenders, partial sweeps left for 100-130 blocks with forget requested, and reorgs that remove only the last HTLC-related sweep while the main-output sweep stays (not re-mined / re-mined 100+ blocks later / re-mined at once). Oracle 1 after every heartbeat/restart/forget: Ready channel missing from get_channel or get_node_channels => forget requested and ghost event (double-spend | mutual | unilateral with the main node output, every HTLC output the node offered, and the output of every second-level transaction of the node that spent such an HTLC output, all spent; confirmations counted from the last of them) has >= 99 confirmations on the harness's best chain. Oracle 2: new_channel(d <= highest forgotten dbid) must not create a channel. evaluations = per-channel checks + new_channel/forget calls; distinct = (observation point, chain situation, depth bucket, forget flag, gone?, reorged?) and (dbid relation, outcome, forgotten-before?, restarted?)",
            assumptions: vec![
                "blocks are delivered the way the protocol handler does: tracker.add_block/remove_block with a valid TxoProof followed by persister.update_tracker".into(),
                "'buried by the required number of blocks' = 100 confirmations counting the confirming block; one block of slack is given (only < 99 is flagged)".into(),
                "'forgotten' for the id rule = forget_channel returned Ok for a channel (stub or ready) that existed".into(),
                "node-owned outputs of a unilateral close = to_local / to_remote, the HTLC outputs the node offered (it gets them back by timeout), and the outputs of its own second-level transactions for those; HTLC outputs the node received are NOT required to be swept by the ghost (the signer tracks them only while it holds the preimage, which is kept in memory only until the node state is persisted again), nor is the output of a foreign transaction that claimed an HTLC output (the signer waits for it: counted as liveness.eligible-not-pruned.signer-waits-for-more-htlc-related-outputs)".into(),
                "channels that are not advanced close with commitment 0 without HTLCs; advanced channels close with commitment 1 (current on both sides, commitment 0 revoked on both sides)".into(),
                "stubs are pruned by age and are outside the property (counted only)".into(),
                "a panic or refusal while processing a block abandons the history (reported as a note, not as a C15 violation)".into(),
            ],
            start,
            extra_coverage: Default::default(),
        },
    );
}
