//! C19 — protocol messages survive the wire unchanged.
//!
//! For every message type of the registry (`vls-protocol/src/msgs.rs`: every struct with
//! `#[message_id(..)]` and the `Message` enum) seeded generators build values of every field type
//! (boundary integers, empty..maximal octets/arrays, options present/absent, embedded transactions,
//! PSBTs, proofs) and the monitor checks on the real codec:
//!   b = m.as_vec();  msgs::from_vec(b) is the same variant, prints the same (`log-secrets` Debug),
//!   re-encodes to b bytewise;  T::from_vec(b) likewise;  msgs::write / msgs::read /
//!   msgs::read_message (length framed) likewise;  b minus its last byte is refused.
//! For the messages carrying `WithSize<StreamedPSBT>` the oracle is the property's second sentence
//! (decoded unsigned tx, per-input previous output, per-input segwit flag), with an independent
//! BIP-141 witness-program predicate.
//!
//! Every struct is built with a struct literal naming all fields, so a field added in /repo breaks
//! the harness build (exit 2).  At run time msgs.rs is parsed textually and a registry type that
//! this driver does not generate makes the run inconclusive.
#![allow(unexpected_cfgs)]
#![allow(deprecated)]

use lightning_signer::bitcoin;
use lightning_signer::txoo;

use bitcoin::absolute::LockTime;
use bitcoin::bip32::{ChildNumber, DerivationPath, Fingerprint};
use bitcoin::block::{Header as BlockHeader, Version as BlockVersion};
use bitcoin::hashes::{sha256, Hash};
use bitcoin::io::Cursor;
use bitcoin::merkle_tree::PartialMerkleTree;
use bitcoin::psbt::{raw, Input as PsbtInput, Output as PsbtOutput, Psbt, PsbtSighashType};
use bitcoin::secp256k1::{PublicKey, Secp256k1, SecretKey, XOnlyPublicKey};
use bitcoin::transaction::Version as TxVersion;
use bitcoin::{
    Amount, Block, BlockHash, CompactTarget, OutPoint, ScriptBuf, Sequence, Transaction, TxIn,
    TxMerkleNode, TxOut, Txid, Witness,
};
use serde_json::{json, Value};
use std::collections::{BTreeMap, BTreeSet};
use std::fmt::Debug;
use std::sync::{Arc, OnceLock};
use std::time::Instant;
use txoo::bitcoin::hash_types::FilterHeader;
use txoo::proof::{ProofType, TxoProof};
use txoo::spv::SpvProof;
use txoo::{Attestation, SignedAttestation};
use vls_protocol::model::*;
use vls_protocol::msgs::{self, *};
use vls_protocol::psbt::{PsbtWrapper, StreamedPSBT};
use vls_protocol::serde_bolt::{
    Array, ArrayBE, LargeOctets, NonContiguousOctets, Octets, WireString, WithSize,
};
use vls_verif::report::{self, catch, finish, run_sharded, FinishSpec};
use vls_verif::rng::fnv_str;
use vls_verif::{Cli, Report, Rng};

/// msgs.rs: `const MAX_MESSAGE_SIZE: u32 = 128 * 1024` (private there; the documented frame limit)
const MAX_MESSAGE_SIZE: usize = 128 * 1024;

// ---------------------------------------------------------------------------------------------
// generator context
// ---------------------------------------------------------------------------------------------

struct Pool {
    pks: Vec<PublicKey>,
    xonly: Vec<XOnlyPublicKey>,
}

fn pool() -> &'static Pool {
    static P: OnceLock<Pool> = OnceLock::new();
    P.get_or_init(|| {
        let secp = Secp256k1::new();
        let mut pks = vec![];
        let mut xonly = vec![];
        for i in 0..24u8 {
            let mut s = [0x11u8; 32];
            s[0] = i + 1;
            s[31] = 0xA0 ^ i;
            let sk = SecretKey::from_slice(&s).expect("secret key");
            let pk = PublicKey::from_secret_key(&secp, &sk);
            pks.push(pk);
            xonly.push(pk.x_only_public_key().0);
        }
        Pool { pks, xonly }
    })
}

struct G {
    rng: Rng,
    /// shape class of the optional / variable-length parts generated so far
    shape: String,
    /// counters to flush into the report
    events: Vec<&'static str>,
    /// remaining byte budget of the message being generated (keeps frames <= 128 KiB)
    budget: usize,
}

impl G {
    fn new(rng: Rng) -> G {
        G { rng, shape: String::new(), events: vec![], budget: 100_000 }
    }

    fn spend(&mut self, n: usize) {
        self.budget = self.budget.saturating_sub(n);
    }

    fn uint(&mut self, max: u64) -> u64 {
        match self.rng.below(12) {
            0 | 1 => 0,
            2 => 1,
            3 | 4 => max,
            5 => max - 1,
            6 => (max >> 1) + 1, // only the top bit
            7 => max >> 1,
            8 => 0x0102_0304_0506_0708 & max, // byte-order sensitive
            _ => self.rng.next_u64() & max,
        }
    }

    fn arr<const N: usize>(&mut self) -> [u8; N] {
        self.spend(N);
        match self.rng.below(10) {
            0 => [0u8; N],
            1 => [0xffu8; N],
            2 => {
                let mut a = [0u8; N];
                for (i, x) in a.iter_mut().enumerate() {
                    *x = i as u8;
                }
                a
            }
            _ => self.rng.bytes::<N>(),
        }
    }

    fn len_class_char(n: usize) -> char {
        match n {
            0 => '0',
            1 => '1',
            2..=40 => 's',
            41..=1500 => 'm',
            1501..=65534 => 'L',
            65535 => 'X',
            _ => 'H',
        }
    }

    /// length of a byte string, at most `hard_max`, within the remaining budget
    fn blob_len(&mut self, hard_max: usize, tag: char) -> usize {
        let cls = self.rng.weighted(&[14, 10, 40, 26, 6, 4]);
        let want = match cls {
            0 => 0,
            1 => 1,
            2 => self.rng.range(2, 40) as usize,
            3 => self.rng.range(41, 1500) as usize,
            4 => *self.rng.pick(&[65535usize, 65534, 65536, 65537, 32768, 16384, 255, 256, 257]),
            _ => hard_max,
        };
        let n = want.min(hard_max).min(self.budget);
        self.budget -= n;
        self.shape.push(tag);
        self.shape.push(Self::len_class_char(n));
        self.events.push(match n {
            0 => "blob.empty",
            1..=1500 => "blob.small",
            65535 => "blob.u16max",
            _ => "blob.large",
        });
        n
    }

    fn blob(&mut self, n: usize) -> Vec<u8> {
        match self.rng.below(8) {
            0 => vec![0u8; n],
            1 => vec![0xffu8; n],
            _ => self.rng.vec(n),
        }
    }

    /// number of array elements wanted
    fn array_len(&mut self) -> usize {
        match self.rng.weighted(&[20, 20, 34, 20, 6]) {
            0 => 0,
            1 => 1,
            2 => self.rng.range(2, 6) as usize,
            3 => self.rng.range(20, 300) as usize,
            _ => 65535, // as many as fit into the frame
        }
    }

    fn array_done(&mut self, n: usize) {
        let (c, ev) = match n {
            0 => ('0', "array.empty"),
            1 => ('1', "array.one"),
            2..=6 => ('f', "array.few"),
            7..=300 => ('m', "array.many"),
            _ => ('X', "array.fill"),
        };
        self.shape.push('a');
        self.shape.push(c);
        self.events.push(ev);
    }

    // ----- scripts, transactions ---------------------------------------------------------

    /// a script pubkey with interesting relation to "is a witness program"
    fn spk(&mut self, want_witness: Option<bool>) -> ScriptBuf {
        let kind = match want_witness {
            Some(true) => self.rng.below(5),
            Some(false) => 5 + self.rng.below(10),
            None => self.rng.below(15),
        };
        let mut v: Vec<u8> = vec![];
        match kind {
            0 => {
                v.extend([0x00, 0x14]);
                v.extend(self.rng.bytes::<20>());
            }
            1 => {
                v.extend([0x00, 0x20]);
                v.extend(self.rng.bytes::<32>());
            }
            2 => {
                v.extend([0x51, 0x20]);
                v.extend(self.rng.bytes::<32>());
            }
            3 => {
                // future witness version, program length 2..=40
                let ver = 0x51 + self.rng.below(16) as u8;
                let n = *self.rng.pick(&[2usize, 3, 20, 32, 39, 40]);
                v.push(ver);
                v.push(n as u8);
                v.extend(self.rng.vec(n));
            }
            4 => v.extend([0x51, 0x02, 0x4e, 0x73]), // pay-to-anchor
            5 => {
                v.extend([0x76, 0xa9, 0x14]);
                v.extend(self.rng.bytes::<20>());
                v.extend([0x88, 0xac]);
            }
            6 => {
                v.extend([0xa9, 0x14]);
                v.extend(self.rng.bytes::<20>());
                v.push(0x87);
            }
            7 => {}
            8 => {
                // push length does not match
                v.extend([0x00, 0x14]);
                v.extend(self.rng.vec(19));
            }
            9 => {
                // program too long (41)
                v.extend([0x00, 41]);
                v.extend(self.rng.vec(41));
            }
            10 => v.extend([0x51, 0x01, 0x07]), // program too short
            11 => {
                // OP_1NEGATE is not a version opcode
                v.extend([0x4f, 0x14]);
                v.extend(self.rng.bytes::<20>());
            }
            12 => {
                // PUSHDATA1 instead of a direct push
                v.extend([0x00, 0x4c, 0x14]);
                v.extend(self.rng.bytes::<20>());
            }
            13 => {
                // version byte OP_16 + 1
                v.extend([0x61, 0x14]);
                v.extend(self.rng.bytes::<20>());
            }
            _ => {
                let n = self.rng.range(1, 60) as usize;
                v = self.rng.vec(n);
                if is_witness_program_bip141(&v) {
                    v[0] = 0x6a;
                }
            }
        }
        self.spend(v.len() + 9);
        ScriptBuf::from(v)
    }

    fn small_script(&mut self) -> ScriptBuf {
        let n = match self.rng.below(6) {
            0 => 0,
            1 => 1,
            2 => self.rng.range(100, 300) as usize,
            _ => self.rng.range(2, 80) as usize,
        };
        self.spend(n + 1);
        ScriptBuf::from(self.rng.vec(n))
    }

    fn outpoint(&mut self) -> OutPoint {
        self.spend(36);
        OutPoint { txid: Txid::from_byte_array(self.rng.bytes::<32>()), vout: self.uint(u32::MAX as u64) as u32 }
    }

    fn txout(&mut self, want_witness: Option<bool>) -> TxOut {
        TxOut { value: Amount::from_sat(self.uint(u64::MAX)), script_pubkey: self.spk(want_witness) }
    }

    /// `signed`: inputs may carry script_sig and witness.  `min_in`/`min_out` lower bounds.
    fn tx(&mut self, signed: bool, min_in: usize, min_out: usize) -> Transaction {
        let n_in = match self.rng.below(20) {
            0 => min_in,
            1 => self.rng.range(8, 24) as usize,
            _ => self.rng.range(1, 3) as usize,
        }
        .max(min_in);
        let n_out = match self.rng.below(20) {
            0 => 0,
            1 => self.rng.range(8, 40) as usize,
            _ => self.rng.range(1, 4) as usize,
        }
        .max(min_out);
        let version = match self.rng.below(8) {
            0 => TxVersion(1),
            1 | 2 | 3 => TxVersion(2),
            4 => TxVersion(3),
            5 => TxVersion(0),
            6 => TxVersion(-1),
            _ => TxVersion(self.rng.next_u64() as i32),
        };
        let lock_time = LockTime::from_consensus(match self.rng.below(8) {
            0 | 1 => 0,
            2 => 1,
            3 => 499_999_999,
            4 => 500_000_000,
            5 => u32::MAX,
            6 => 0x2000_0000 | (self.rng.next_u64() as u32 & 0xff_ffff),
            _ => self.rng.next_u64() as u32,
        });
        let mut any_witness = false;
        let mut input = vec![];
        for _ in 0..n_in {
            let previous_output = self.outpoint();
            let script_sig = if signed && self.rng.chance(1, 3) { self.small_script() } else { ScriptBuf::new() };
            let witness = if signed && self.rng.chance(1, 2) {
                let k = self.rng.range(1, 3) as usize;
                let items: Vec<Vec<u8>> = (0..k)
                    .map(|_| {
                        let n = *self.rng.pick(&[0usize, 1, 33, 64, 72, 73, 140]);
                        self.rng.vec(n)
                    })
                    .collect();
                self.spend(items.iter().map(|i| i.len() + 1).sum::<usize>() + 1);
                any_witness = true;
                Witness::from_slice(&items)
            } else {
                Witness::default()
            };
            let sequence = Sequence(self.uint(u32::MAX as u64) as u32);
            self.spend(5);
            input.push(TxIn { previous_output, script_sig, sequence, witness });
        }
        let output: Vec<TxOut> = (0..n_out).map(|_| self.txout(None)).collect();
        self.spend(10);
        self.shape.push('T');
        self.shape.push(match n_in {
            0 => '0',
            1 => '1',
            2..=7 => 'f',
            _ => 'm',
        });
        self.shape.push(match n_out {
            0 => '0',
            1 => '1',
            2..=7 => 'f',
            _ => 'm',
        });
        self.shape.push(if any_witness { 'w' } else { 'l' });
        if n_in == 0 {
            self.events.push("tx.zero_inputs");
        }
        if n_out == 0 {
            self.events.push("tx.zero_outputs");
        }
        self.events.push(if any_witness { "tx.segwit_serialization" } else { "tx.legacy_serialization" });
        Transaction { version, lock_time, input, output }
    }

    // ----- PSBT ---------------------------------------------------------------------------

    fn key_source(&mut self) -> (Fingerprint, DerivationPath) {
        let n = self.rng.below(5) as usize;
        let path: Vec<ChildNumber> = (0..n)
            .map(|_| {
                let idx = self.uint(0x7fff_ffff) as u32;
                if self.rng.bool() {
                    ChildNumber::from_normal_idx(idx).unwrap()
                } else {
                    ChildNumber::from_hardened_idx(idx).unwrap()
                }
            })
            .collect();
        self.spend(40 + 4 * n);
        (Fingerprint::from(self.rng.bytes::<4>()), DerivationPath::from(path))
    }

    fn bip32_map(&mut self) -> BTreeMap<PublicKey, (Fingerprint, DerivationPath)> {
        let mut m = BTreeMap::new();
        let n = match self.rng.below(4) {
            0 | 1 => 0,
            2 => 1,
            _ => 2,
        };
        for _ in 0..n {
            let pk = *self.rng.pick(&pool().pks);
            m.insert(pk, self.key_source());
        }
        m
    }

    fn unknown_map(&mut self) -> BTreeMap<raw::Key, Vec<u8>> {
        let mut m = BTreeMap::new();
        if self.rng.chance(1, 5) {
            for _ in 0..self.rng.range(1, 2) {
                let kl = self.rng.below(6) as usize;
                let vl = self.rng.below(40) as usize;
                let key = raw::Key { type_value: 0x30 + self.rng.below(0x40) as u8, key: self.rng.vec(kl) };
                self.spend(kl + vl + 4);
                m.insert(key, self.rng.vec(vl));
            }
        }
        m
    }

    fn proprietary_map(&mut self) -> BTreeMap<raw::ProprietaryKey, Vec<u8>> {
        let mut m = BTreeMap::new();
        if self.rng.chance(1, 5) {
            let pl = self.rng.below(8) as usize;
            let kl = self.rng.below(6) as usize;
            let vl = self.rng.below(40) as usize;
            let key = raw::ProprietaryKey {
                prefix: self.rng.vec(pl),
                subtype: self.rng.below(256) as u8,
                key: self.rng.vec(kl),
            };
            self.spend(pl + kl + vl + 6);
            m.insert(key, self.rng.vec(vl));
        }
        m
    }

    /// A PSBT with >= 1 input.  Returns the per-input expectation for the streamed decoding:
    /// (previous output the PSBT designates, whether it is *proven* segwit) and whether the PSBT is
    /// self-consistent (a previous transaction, when given, is the one the outpoint names and has
    /// that output, and agrees with a given witness_utxo).
    fn psbt(&mut self, allow_inconsistent: bool) -> GenPsbt {
        let mut unsigned_tx = self.tx(false, 1, 0);
        let mut inputs = vec![];
        let mut expect = vec![];
        let mut consistent = true;
        self.shape.push('P');
        for i in 0..unsigned_tx.input.len() {
            let mut inp = PsbtInput::default();
            let mut kind = self.rng.weighted(&[18, 22, 30, 22]);
            if allow_inconsistent && self.rng.chance(1, 40) {
                kind = 4 + self.rng.below(3) as usize;
            }
            let e = match kind {
                0 => Expect { prev: None, segwit: false, kind: "no_utxo" },
                1 => {
                    let wu = self.txout(None);
                    inp.witness_utxo = Some(wu.clone());
                    Expect { prev: Some(wu), segwit: false, kind: "witness_utxo_only" }
                }
                _ => {
                    // a previous transaction
                    let want_w = self.rng.chance(3, 5);
                    let prev_min_in = if self.rng.chance(1, 30) { 0 } else { 1 };
                    let mut prev = self.tx(true, prev_min_in, 1);
                    let vout = match self.rng.below(3) {
                        0 => 0,
                        1 => prev.output.len() - 1,
                        _ => self.rng.usize(prev.output.len()),
                    };
                    prev.output[vout] = self.txout(Some(want_w));
                    let out = prev.output[vout].clone();
                    let seg = is_witness_program_bip141(out.script_pubkey.as_bytes());
                    unsigned_tx.input[i].previous_output = OutPoint { txid: prev.compute_txid(), vout: vout as u32 };
                    let e = match kind {
                        2 => Expect { prev: Some(out), segwit: seg, kind: "prev_tx" },
                        3 => {
                            inp.witness_utxo = Some(out.clone());
                            Expect { prev: Some(out), segwit: seg, kind: "prev_tx_and_witness_utxo" }
                        }
                        4 => {
                            // witness_utxo disagrees with the previous transaction
                            consistent = false;
                            let mut wu = out.clone();
                            if self.rng.bool() {
                                wu.value = Amount::from_sat(wu.value.to_sat() ^ 1);
                            } else {
                                wu.script_pubkey = self.spk(Some(!seg));
                            }
                            inp.witness_utxo = Some(wu);
                            Expect { prev: Some(out), segwit: seg, kind: "bad:witness_utxo_disagrees" }
                        }
                        5 => {
                            // the supplied transaction is not the one the outpoint names
                            consistent = false;
                            unsigned_tx.input[i].previous_output.txid = Txid::from_byte_array(self.rng.bytes::<32>());
                            let wu = if self.rng.bool() { Some(self.txout(None)) } else { None };
                            inp.witness_utxo = wu.clone();
                            Expect { prev: wu, segwit: false, kind: "bad:foreign_prev_tx" }
                        }
                        _ => {
                            // the named output does not exist
                            consistent = false;
                            unsigned_tx.input[i].previous_output.vout = prev.output.len() as u32;
                            let wu = if self.rng.bool() { Some(self.txout(None)) } else { None };
                            inp.witness_utxo = wu.clone();
                            Expect { prev: wu, segwit: false, kind: "bad:vout_out_of_range" }
                        }
                    };
                    inp.non_witness_utxo = Some(prev);
                    e
                }
            };
            if i < 4 {
                self.shape.push(char::from(b'0' + kind as u8));
            }
            if self.rng.chance(1, 4) {
                inp.sighash_type = Some(PsbtSighashType::from_u32(*self.rng.pick(&[0u32, 1, 2, 3, 0x81, 0x82, 0x83, u32::MAX])));
            }
            if self.rng.chance(1, 4) {
                inp.redeem_script = Some(self.small_script());
            }
            if self.rng.chance(1, 3) {
                inp.witness_script = Some(self.small_script());
            }
            inp.bip32_derivation = self.bip32_map();
            if self.rng.chance(1, 8) {
                inp.final_script_sig = Some(self.small_script());
            }
            if self.rng.chance(1, 8) {
                let item = self.rng.vec(33);
                inp.final_script_witness = Some(Witness::from_slice(&[item, self.rng.vec(71)]));
                self.spend(110);
            }
            if self.rng.chance(1, 8) {
                let pre_len = self.rng.below(40) as usize;
                let pre = self.rng.vec(pre_len);
                inp.sha256_preimages.insert(sha256::Hash::hash(&pre), pre);
                self.spend(80);
            }
            if self.rng.chance(1, 8) {
                inp.tap_internal_key = Some(*self.rng.pick(&pool().xonly));
            }
            inp.proprietary = self.proprietary_map();
            inp.unknown = self.unknown_map();
            inputs.push(inp);
            expect.push(e);
        }
        let mut outputs = vec![];
        for _ in 0..unsigned_tx.output.len() {
            let mut o = PsbtOutput::default();
            if self.rng.chance(1, 5) {
                o.redeem_script = Some(self.small_script());
            }
            if self.rng.chance(1, 3) {
                o.witness_script = Some(self.small_script());
            }
            o.bip32_derivation = self.bip32_map();
            if self.rng.chance(1, 8) {
                o.tap_internal_key = Some(*self.rng.pick(&pool().xonly));
            }
            o.proprietary = self.proprietary_map();
            o.unknown = self.unknown_map();
            outputs.push(o);
        }
        let mut unknown = self.unknown_map();
        // now and then a PSBT larger than 64 KiB (the frame allows 128 KiB): the writer's u32 length prefix and the
        // reader must agree above the 16-bit boundary too
        if self.budget >= 85_000 && self.rng.chance(1, 16) {
            let n = self.rng.range(65_000, 76_000) as usize;
            self.spend(n + 8);
            unknown.insert(raw::Key { type_value: 0x7e, key: vec![0x4c] }, self.rng.vec(n));
            self.shape.push('L');
            self.events.push("psbt.over_64k");
        }
        let psbt = Psbt {
            unsigned_tx,
            version: 0,
            xpub: Default::default(),
            proprietary: self.proprietary_map(),
            unknown,
            inputs,
            outputs,
        };
        GenPsbt { psbt, expect, consistent }
    }
}

struct Expect {
    /// the previous output the encoded PSBT designates for this input (None: none given)
    prev: Option<TxOut>,
    /// previous tx supplied, names that output, and the output's script is a witness program
    segwit: bool,
    kind: &'static str,
}

struct GenPsbt {
    psbt: Psbt,
    expect: Vec<Expect>,
    consistent: bool,
}

/// BIP-141: "a 1-byte push opcode (one of OP_0, OP_1..OP_16) followed by a direct data push
/// between 2 and 40 bytes" — and nothing else.
fn is_witness_program_bip141(spk: &[u8]) -> bool {
    if spk.len() < 4 || spk.len() > 42 {
        return false;
    }
    let ver_ok = spk[0] == 0x00 || (0x51..=0x60).contains(&spk[0]);
    let push = spk[1] as usize;
    ver_ok && (2..=40).contains(&push) && spk.len() == push + 2
}

// ---------------------------------------------------------------------------------------------
// one generator per field type
// ---------------------------------------------------------------------------------------------

trait Gen: Sized {
    fn gen(g: &mut G) -> Self;
}

impl Gen for bool {
    fn gen(g: &mut G) -> Self {
        g.spend(1);
        g.rng.bool()
    }
}
impl Gen for u8 {
    fn gen(g: &mut G) -> Self {
        g.spend(1);
        g.uint(u8::MAX as u64) as u8
    }
}
impl Gen for u16 {
    fn gen(g: &mut G) -> Self {
        g.spend(2);
        g.uint(u16::MAX as u64) as u16
    }
}
impl Gen for u32 {
    fn gen(g: &mut G) -> Self {
        g.spend(4);
        g.uint(u32::MAX as u64) as u32
    }
}
impl Gen for u64 {
    fn gen(g: &mut G) -> Self {
        g.spend(8);
        g.uint(u64::MAX)
    }
}

macro_rules! gen_byte_array_newtype {
    ($($T:ident),*) => { $( impl Gen for $T { fn gen(g: &mut G) -> Self { $T(g.arr()) } } )* };
}
gen_byte_array_newtype!(
    Secret,
    DisclosedSecret,
    DevSecret,
    DevPrivKey,
    PubKey32,
    ExtKey,
    Sha256,
    Signature,
    RecoverableSignature
);

impl Gen for PubKey {
    fn gen(g: &mut G) -> Self {
        if g.rng.chance(1, 3) {
            g.spend(33);
            PubKey(g.rng.pick(&pool().pks).serialize())
        } else {
            PubKey(g.arr())
        }
    }
}

impl Gen for Bip32KeyVersion {
    fn gen(g: &mut G) -> Self {
        Bip32KeyVersion { pubkey_version: Gen::gen(g), privkey_version: Gen::gen(g) }
    }
}

impl Gen for Basepoints {
    fn gen(g: &mut G) -> Self {
        Basepoints { revocation: Gen::gen(g), payment: Gen::gen(g), htlc: Gen::gen(g), delayed_payment: Gen::gen(g) }
    }
}

impl Gen for BitcoinSignature {
    fn gen(g: &mut G) -> Self {
        BitcoinSignature { signature: Gen::gen(g), sighash: Gen::gen(g) }
    }
}

impl Gen for Htlc {
    fn gen(g: &mut G) -> Self {
        Htlc { side: Gen::gen(g), amount: Gen::gen(g), payment_hash: Gen::gen(g), ctlv_expiry: Gen::gen(g) }
    }
}

impl Gen for CloseInfo {
    fn gen(g: &mut G) -> Self {
        CloseInfo {
            channel_id: Gen::gen(g),
            peer_id: Gen::gen(g),
            commitment_point: Gen::gen(g),
            is_anchors: Gen::gen(g),
            csv: Gen::gen(g),
        }
    }
}

impl Gen for Utxo {
    fn gen(g: &mut G) -> Self {
        Utxo {
            txid: Gen::gen(g),
            outnum: Gen::gen(g),
            amount: Gen::gen(g),
            keyindex: Gen::gen(g),
            is_p2sh: Gen::gen(g),
            script: Gen::gen(g),
            close_info: Gen::gen(g),
            is_in_coinbase: Gen::gen(g),
        }
    }
}

impl Gen for Octets {
    fn gen(g: &mut G) -> Self {
        g.spend(2);
        let n = g.blob_len(65535, 'o');
        Octets(g.blob(n))
    }
}

impl Gen for LargeOctets {
    fn gen(g: &mut G) -> Self {
        g.spend(4);
        let n = g.blob_len(usize::MAX, 'O');
        LargeOctets(g.blob(n))
    }
}

impl Gen for WireString {
    fn gen(g: &mut G) -> Self {
        g.spend(1);
        let n = g.blob_len(70_000, 's');
        let style = g.rng.below(4);
        let mut v = g.rng.vec(n);
        for b in v.iter_mut() {
            *b = match style {
                // printable ascii
                0 | 1 => 0x20 + (*b % 0x5f),
                // any non-zero byte (mostly not utf-8)
                2 => {
                    if *b == 0 {
                        0xff
                    } else {
                        *b
                    }
                }
                // high bytes only
                _ => 0x80 | *b,
            };
        }
        if style <= 1 && n >= 4 && g.rng.chance(1, 6) {
            // some multi-byte utf-8 and characters Debug might want to escape
            let s = "é\"\\\n";
            v[..s.len().min(n)].copy_from_slice(&s.as_bytes()[..s.len().min(n)]);
        }
        WireString(v)
    }
}

impl<T: Gen + bitcoin::consensus::Encodable + bitcoin::consensus::Decodable + Debug> Gen for Array<T> {
    fn gen(g: &mut G) -> Self {
        g.spend(2);
        let want = g.array_len();
        let mut v = Vec::new();
        for _ in 0..want {
            if g.budget < 2048 {
                break;
            }
            v.push(T::gen(g));
        }
        g.array_done(v.len());
        Array(v)
    }
}

impl<T: Gen + vls_protocol::serde_bolt::BigEndianEncodable + Debug> Gen for ArrayBE<T> {
    fn gen(g: &mut G) -> Self {
        g.spend(2);
        let want = g.array_len();
        let mut v = Vec::new();
        for _ in 0..want {
            if g.budget < 2048 {
                break;
            }
            v.push(T::gen(g));
        }
        g.array_done(v.len());
        ArrayBE(v)
    }
}

impl<T: Gen> Gen for Option<T> {
    fn gen(g: &mut G) -> Self {
        g.spend(1);
        if g.rng.bool() {
            g.shape.push('+');
            g.events.push("option.some");
            Some(T::gen(g))
        } else {
            g.shape.push('-');
            g.events.push("option.none");
            None
        }
    }
}

impl Gen for Txid {
    fn gen(g: &mut G) -> Self {
        Txid::from_byte_array(g.arr())
    }
}
impl Gen for BlockHash {
    fn gen(g: &mut G) -> Self {
        BlockHash::from_byte_array(g.arr())
    }
}
impl Gen for FilterHeader {
    fn gen(g: &mut G) -> Self {
        FilterHeader::from_byte_array(g.arr())
    }
}
impl Gen for OutPoint {
    fn gen(g: &mut G) -> Self {
        g.outpoint()
    }
}

impl Gen for BlockHeader {
    fn gen(g: &mut G) -> Self {
        BlockHeader {
            version: BlockVersion::from_consensus(g.uint(u32::MAX as u64) as u32 as i32),
            prev_blockhash: Gen::gen(g),
            merkle_root: TxMerkleNode::from_byte_array(g.arr()),
            time: Gen::gen(g),
            bits: CompactTarget::from_consensus(Gen::gen(g)),
            nonce: Gen::gen(g),
        }
    }
}

impl Gen for WithSize<Transaction> {
    fn gen(g: &mut G) -> Self {
        g.spend(4);
        let min_in = if g.rng.chance(1, 30) { 0 } else { 1 };
        WithSize(g.tx(true, min_in, 0))
    }
}

impl Gen for WithSize<PsbtWrapper> {
    fn gen(g: &mut G) -> Self {
        g.spend(4);
        let gp = g.psbt(false);
        g.events.push("psbt.plain");
        WithSize(PsbtWrapper { inner: gp.psbt })
    }
}
// deliberately no `Gen for WithSize<StreamedPSBT>`: a new message carrying one must get the
// streamed oracle (see `StreamedMsg`), so building it like a plain message must not compile.

impl Gen for DebugTxoProof {
    fn gen(g: &mut G) -> Self {
        let n_att = g.rng.range(1, 3);
        let mut attestations = vec![];
        for _ in 0..n_att {
            let pk = *g.rng.pick(&pool().pks);
            let attestation = Attestation {
                block_hash: Gen::gen(g),
                block_height: Gen::gen(g),
                filter_header: Gen::gen(g),
                time: Gen::gen(g),
            };
            let signature = bitcoin::secp256k1::schnorr::Signature::from_slice(&g.rng.bytes::<64>()).expect("64 bytes");
            g.spend(33 + 64);
            attestations.push((pk, SignedAttestation { attestation, signature }));
        }
        let proof = match g.rng.below(5) {
            0 => {
                g.shape.push_str("xE");
                g.events.push("txoproof.external_block");
                ProofType::ExternalBlock()
            }
            1 => {
                g.shape.push_str("xB");
                g.events.push("txoproof.block");
                let header: BlockHeader = Gen::gen(g);
                let n = g.rng.below(4) as usize;
                let txdata = (0..n).map(|_| g.tx(true, 1, 0)).collect();
                ProofType::Block(Block { header, txdata })
            }
            _ => {
                g.shape.push_str("xF");
                g.events.push("txoproof.filter");
                g.spend(4);
                let n = g.blob_len(usize::MAX, 'f');
                let bytes = g.blob(n);
                let mut f = NonContiguousOctets::<1024>::new();
                bitcoin::io::Write::write_all(&mut f, &bytes).expect("chunked write");
                let ntx = g.rng.below(3) as usize;
                let txs: Vec<Transaction> = (0..ntx).map(|_| g.tx(true, 1, 0)).collect();
                let proof = if g.rng.bool() {
                    g.shape.push('+');
                    let total = g.rng.range(1, 9) as usize;
                    let txids: Vec<Txid> = (0..total).map(|_| Txid::from_byte_array(g.rng.bytes::<32>())).collect();
                    let matches: Vec<bool> = (0..total).map(|_| g.rng.chance(1, 3)).collect();
                    g.spend(total * 40);
                    Some(PartialMerkleTree::from_txids(&txids, &matches))
                } else {
                    g.shape.push('-');
                    None
                };
                ProofType::Filter(Arc::new(f), SpvProof { txs, proof })
            }
        };
        DebugTxoProof(TxoProof { attestations, proof })
    }
}

// ---------------------------------------------------------------------------------------------
// the registry: every message type, built field by field
// ---------------------------------------------------------------------------------------------

trait Build: SerBolt + DeBolt {
    const NAME: &'static str;
    fn build(g: &mut G) -> Self;
}

#[derive(Clone, Copy, PartialEq, Eq)]
enum Kind {
    /// full round trip
    Plain,
    /// carries a streamed PSBT: the property's second sentence
    Streamed,
    /// has a message id but is not a variant of `Message` (placeholder behind `Message::Unknown`)
    NotDispatched,
}

struct Meta {
    seed: u64,
    shard: usize,
    round: u64,
}

struct Ctx {
    /// message id -> type names carrying it
    id_names: BTreeMap<u16, Vec<&'static str>>,
}

#[derive(Clone, Copy)]
struct Case {
    name: &'static str,
    id: u16,
    kind: Kind,
    run: fn(&mut G, &mut Report, &Ctx, &Meta),
}

macro_rules! registry {
    ( plain: [ $( $T:ident { $($f:ident),* } ),* $(,)? ], streamed: [ $( $S:ident ),* $(,)? ] ) => {
        $(
            impl Build for $T {
                const NAME: &'static str = stringify!($T);
                fn build(g: &mut G) -> Self {
                    let _ = &g;
                    $T { $( $f: Gen::gen(g) ),* }
                }
            }
        )*

        fn cases() -> Vec<Case> {
            let mut v = vec![
                $( Case { name: stringify!($T), id: <$T as DeBolt>::TYPE, kind: Kind::Plain, run: run_plain::<$T> }, )*
                $( Case { name: stringify!($S), id: <$S as DeBolt>::TYPE, kind: Kind::Streamed, run: run_streamed::<$S> }, )*
                Case { name: "UnknownPlaceholder", id: <UnknownPlaceholder as DeBolt>::TYPE, kind: Kind::NotDispatched, run: run_placeholder },
            ];
            developer_cases(&mut v);
            v
        }

        /// exhaustive on purpose (no wildcard): a variant added to `Message` breaks the build
        fn variant_name(m: &Message) -> &'static str {
            match m {
                $( Message::$T(_) => stringify!($T), )*
                $( Message::$S(_) => stringify!($S), )*
                #[cfg(feature = "developer")]
                Message::HsmdDevPreinit(_) => "HsmdDevPreinit",
                #[cfg(feature = "developer")]
                Message::HsmdDevPreinit2(_) => "HsmdDevPreinit2",
                #[cfg(feature = "developer")]
                Message::HsmdDevPreinitReply(_) => "HsmdDevPreinitReply",
                Message::Unknown(_) => "Unknown",
            }
        }
    };
}

registry! {
    plain: [
        Ecdh { point },
        EcdhReply { secret },
        SignChannelAnnouncement { announcement },
        SignChannelAnnouncementReply { node_signature, bitcoin_signature },
        SignChannelUpdate { update },
        SignChannelUpdateReply { update },
        SignAnyChannelAnnouncement { announcement, peer_id, dbid },
        SignAnyChannelAnnouncementReply { node_signature, bitcoin_signature },
        SignCommitmentTx { peer_id, dbid, tx, psbt, remote_funding_key, commitment_number },
        SignCommitmentTxReply { signature },
        SignNodeAnnouncement { announcement },
        SignNodeAnnouncementReply { signature },
        SignWithdrawalReply { psbt },
        SignInvoice { u5bytes, hrp },
        SignInvoiceReply { signature },
        ClientHsmFd { peer_id, dbid, capabilities },
        ClientHsmFdReply {},
        GetChannelBasepoints { node_id, dbid },
        GetChannelBasepointsReply { basepoints, funding },
        HsmdInit {
            key_version, chain_params, encryption_key, dev_privkey, dev_bip32_seed,
            dev_channel_secrets, dev_channel_secrets_shaseed, hsm_wire_min_version, hsm_wire_max_version
        },
        HsmdInitReplyV2 { node_id, bip32, bolt12 },
        HsmdInitReplyV4 { hsm_version, hsm_capabilities, node_id, bip32, bolt12 },
        SignDelayedPaymentToUs { commitment_number, tx, psbt, wscript },
        SignTxReply { signature },
        SignRemoteHtlcToUs { remote_per_commitment_point, tx, psbt, wscript, option_anchors },
        SignPenaltyToUs { revocation_secret, tx, psbt, wscript },
        SignLocalHtlcTx { commitment_number, tx, psbt, wscript, option_anchors },
        GetPerCommitmentPoint { commitment_number },
        GetPerCommitmentPointReply { point, secret },
        SignRemoteCommitmentTx {
            tx, psbt, remote_funding_key, remote_per_commitment_point, option_static_remotekey,
            commitment_number, htlcs, feerate
        },
        SignLocalHtlcTx2 { tx, input, per_commitment_number, offered, cltv_expiry, htlc_amount_msat, payment_hash },
        SignRemoteHtlcTx { tx, psbt, wscript, remote_per_commitment_point, option_anchors },
        SignMutualCloseTx { tx, psbt, remote_funding_key },
        CheckFutureSecret { commitment_number, secret },
        CheckFutureSecretReply { result },
        SignMessage { message },
        SignMessageReply { signature },
        SignBolt12 { message_name, field_name, merkle_root, public_tweak },
        SignBolt12Reply { signature },
        DeriveSecret { info },
        DeriveSecretReply { secret },
        CheckPubKey { index, pubkey },
        CheckPubKeyReply { ok },
        SignSpliceTx { tx, psbt, remote_funding_key, input_index },
        NewChannel { peer_id, dbid },
        NewChannelReply {},
        SetupChannel {
            is_outbound, channel_value, push_value, funding_txid, funding_txout, to_self_delay,
            local_shutdown_script, local_shutdown_wallet_index, remote_basepoints,
            remote_funding_pubkey, remote_to_self_delay, remote_shutdown_script, channel_type
        },
        SetupChannelReply {},
        CheckOutpoint { funding_txid, funding_txout },
        CheckOutpointReply { is_buried },
        Memleak {},
        MemleakReply { result },
        ForgetChannel { node_id, dbid },
        ForgetChannelReply {},
        ValidateCommitmentTx { tx, psbt, htlcs, commitment_number, feerate, signature, htlc_signatures },
        ValidateCommitmentTxReply { old_commitment_secret, next_per_commitment_point },
        ValidateRevocation { commitment_number, commitment_secret },
        ValidateRevocationReply {},
        LockOutpoint { funding_txid, funding_txout },
        LockOutpointReply {},
        PreapproveInvoice { invstring },
        PreapproveInvoiceReply { result },
        PreapproveKeysend { destination, payment_hash, amount_msat },
        PreapproveKeysendReply { result },
        RevokeCommitmentTx { commitment_number },
        RevokeCommitmentTxReply { old_commitment_secret, next_per_commitment_point },
        SignBolt12V2 { message_name, field_name, merkle_root, info, public_tweak },
        SignBolt12V2Reply { signature },
        SignAnyDelayedPaymentToUs { commitment_number, tx, psbt, wscript, input, peer_id, dbid },
        SignAnyRemoteHtlcToUs { remote_per_commitment_point, tx, psbt, wscript, option_anchors, input, peer_id, dbid },
        SignAnyPenaltyToUs { revocation_secret, tx, psbt, wscript, input, peer_id, dbid },
        SignAnyLocalHtlcTx { commitment_number, tx, psbt, wscript, option_anchors, input, peer_id, dbid },
        SignAnchorspendReply { psbt },
        SignHtlcTxMingleReply { psbt },
        Ping { id, message },
        Pong { id, message },
        SignLocalCommitmentTx2 { commitment_number },
        SignGossipMessage { message },
        SignGossipMessageReply { signature },
        HsmdInit2 { derivation_style, network_name, dev_seed, dev_allowlist },
        HsmdInit2Reply { node_id, bip32, bolt12 },
        NodeInfo {},
        NodeInfoReply { network_name, node_id, bip32 },
        GetPerCommitmentPoint2 { commitment_number },
        GetPerCommitmentPoint2Reply { point },
        SignRemoteCommitmentTx2 { remote_per_commitment_point, commitment_number, feerate, to_local_value_sat, to_remote_value_sat, htlcs },
        SignCommitmentTxWithHtlcsReply { signature, htlc_signatures },
        SignMutualCloseTx2 { to_local_value_sat, to_remote_value_sat, local_script, remote_script, local_wallet_path_hint },
        ValidateCommitmentTx2 { commitment_number, feerate, to_local_value_sat, to_remote_value_sat, htlcs, signature, htlc_signatures },
        GetSecureRandomBytes {},
        GetSecureRandomBytesReply { random_bytes },
        TipInfo {},
        TipInfoReply { height, block_hash },
        ForwardWatches {},
        ForwardWatchesReply { txids, outpoints },
        ReverseWatches {},
        ReverseWatchesReply { txids, outpoints },
        AddBlock { header, unspent_proof },
        AddBlockReply {},
        RemoveBlock { unspent_proof, prev_block_header, prev_filter_header },
        RemoveBlockReply {},
        GetHeartbeat {},
        GetHeartbeatReply { heartbeat },
        BlockChunk { hash, offset, content },
        BlockChunkReply {},
        SignerError { code, message },
    ],
    streamed: [ SignWithdrawal, SignAnchorspend, SignHtlcTxMingle ]
}

impl Build for UnknownPlaceholder {
    const NAME: &'static str = "UnknownPlaceholder";
    fn build(_g: &mut G) -> Self {
        UnknownPlaceholder {}
    }
}

// ----- types behind vls-protocol's `developer` feature (only when the harness forwards it) -----

#[cfg(feature = "developer")]
mod developer {
    use super::*;

    impl Gen for HsmdDevPreinit2Options {
        fn gen(g: &mut G) -> Self {
            g.shape.push('V');
            HsmdDevPreinit2Options {
                fail_preapprove: Gen::gen(g),
                no_preapprove_check: Gen::gen(g),
                derivation_style: Gen::gen(g),
                network_name: Gen::gen(g),
                seed: Gen::gen(g),
                allowlist: Gen::gen(g),
            }
        }
    }
    impl Build for HsmdDevPreinit {
        const NAME: &'static str = "HsmdDevPreinit";
        fn build(g: &mut G) -> Self {
            HsmdDevPreinit {
                derivation_style: Gen::gen(g),
                network_name: Gen::gen(g),
                seed: Gen::gen(g),
                allowlist: Gen::gen(g),
            }
        }
    }
    impl Build for HsmdDevPreinit2 {
        const NAME: &'static str = "HsmdDevPreinit2";
        fn build(g: &mut G) -> Self {
            HsmdDevPreinit2 { options: Gen::gen(g) }
        }
    }
    impl Build for HsmdDevPreinitReply {
        const NAME: &'static str = "HsmdDevPreinitReply";
        fn build(g: &mut G) -> Self {
            HsmdDevPreinitReply { node_id: Gen::gen(g) }
        }
    }
    pub fn push(v: &mut Vec<Case>) {
        v.push(Case { name: "HsmdDevPreinit", id: <HsmdDevPreinit as DeBolt>::TYPE, kind: Kind::Plain, run: run_plain::<HsmdDevPreinit> });
        v.push(Case { name: "HsmdDevPreinit2", id: <HsmdDevPreinit2 as DeBolt>::TYPE, kind: Kind::Plain, run: run_plain::<HsmdDevPreinit2> });
        v.push(Case { name: "HsmdDevPreinitReply", id: <HsmdDevPreinitReply as DeBolt>::TYPE, kind: Kind::Plain, run: run_plain::<HsmdDevPreinitReply> });
    }
}

#[cfg(feature = "developer")]
fn developer_cases(v: &mut Vec<Case>) {
    developer::push(v)
}
#[cfg(not(feature = "developer"))]
fn developer_cases(_v: &mut Vec<Case>) {}

// ----- messages carrying a streamed PSBT --------------------------------------------------------

trait StreamedMsg: SerBolt + DeBolt {
    const NAME: &'static str;
    fn build(g: &mut G, psbt: StreamedPSBT) -> Self;
    /// the streamed PSBT and the Debug print of all other fields
    fn split(&self) -> (&StreamedPSBT, String);
    fn from_message(m: Message) -> Result<Self, Message>;
}

impl StreamedMsg for SignWithdrawal {
    const NAME: &'static str = "SignWithdrawal";
    fn build(g: &mut G, sp: StreamedPSBT) -> Self {
        SignWithdrawal { utxos: Gen::gen(g), psbt: WithSize(sp) }
    }
    fn split(&self) -> (&StreamedPSBT, String) {
        let SignWithdrawal { utxos, psbt } = self;
        (&psbt.0, format!("utxos={:?}", utxos))
    }
    fn from_message(m: Message) -> Result<Self, Message> {
        match m {
            Message::SignWithdrawal(x) => Ok(x),
            o => Err(o),
        }
    }
}

impl StreamedMsg for SignAnchorspend {
    const NAME: &'static str = "SignAnchorspend";
    fn build(g: &mut G, sp: StreamedPSBT) -> Self {
        SignAnchorspend { peer_id: Gen::gen(g), dbid: Gen::gen(g), utxos: Gen::gen(g), psbt: WithSize(sp) }
    }
    fn split(&self) -> (&StreamedPSBT, String) {
        let SignAnchorspend { peer_id, dbid, utxos, psbt } = self;
        (&psbt.0, format!("peer_id={:?} dbid={:?} utxos={:?}", peer_id, dbid, utxos))
    }
    fn from_message(m: Message) -> Result<Self, Message> {
        match m {
            Message::SignAnchorspend(x) => Ok(x),
            o => Err(o),
        }
    }
}

impl StreamedMsg for SignHtlcTxMingle {
    const NAME: &'static str = "SignHtlcTxMingle";
    fn build(g: &mut G, sp: StreamedPSBT) -> Self {
        SignHtlcTxMingle { peer_id: Gen::gen(g), dbid: Gen::gen(g), utxos: Gen::gen(g), psbt: WithSize(sp) }
    }
    fn split(&self) -> (&StreamedPSBT, String) {
        let SignHtlcTxMingle { peer_id, dbid, utxos, psbt } = self;
        (&psbt.0, format!("peer_id={:?} dbid={:?} utxos={:?}", peer_id, dbid, utxos))
    }
    fn from_message(m: Message) -> Result<Self, Message> {
        match m {
            Message::SignHtlcTxMingle(x) => Ok(x),
            o => Err(o),
        }
    }
}

// ---------------------------------------------------------------------------------------------
// monitors
// ---------------------------------------------------------------------------------------------

fn cap(s: &str, n: usize) -> String {
    if s.len() <= n {
        s.to_string()
    } else {
        let mut end = n;
        while !s.is_char_boundary(end) {
            end -= 1;
        }
        format!("{}...[{} chars]", &s[..end], s.len())
    }
}

fn hex_cap(b: &[u8]) -> Value {
    if b.len() <= 6000 {
        json!({"len": b.len(), "hex": hex::encode(b)})
    } else {
        json!({"len": b.len(), "hex_prefix": hex::encode(&b[..6000]), "note": "regenerate from seed/shard/round/type"})
    }
}

fn first_diff(a: &str, b: &str) -> Value {
    let pos = a.bytes().zip(b.bytes()).position(|(x, y)| x != y).unwrap_or(a.len().min(b.len()));
    let lo = pos.saturating_sub(60);
    let cut = |s: &str| -> String {
        let mut l = lo.min(s.len());
        while !s.is_char_boundary(l) {
            l -= 1;
        }
        let mut h = (pos + 100).min(s.len());
        while !s.is_char_boundary(h) {
            h += 1;
        }
        s[l..h].to_string()
    };
    json!({"first_difference_at": pos, "original_around": cut(a), "decoded_around": cut(b), "original_len": a.len(), "decoded_len": b.len()})
}

struct Wit<'a> {
    name: &'static str,
    id: u16,
    meta: &'a Meta,
    shape: &'a str,
    bytes: &'a [u8],
    debug: &'a str,
}

impl<'a> Wit<'a> {
    fn detail(&self, extra: Value) -> Value {
        json!({
            "type": self.name, "message_id": self.id,
            "seed": self.meta.seed, "shard": self.meta.shard, "round": self.meta.round,
            "replay": format!("c19_codec --prop C19 --seed {} --only {} (shard {}, round {})", self.meta.seed, self.name, self.meta.shard, self.meta.round),
            "shape": self.shape,
            "encoded": hex_cap(self.bytes),
            "original_debug": cap(self.debug, 3000),
            "observed": extra,
        })
    }
}

/// A dispatch failure of a type whose id is also carried by another type, while the typed decode
/// of the same bytes works, is the id collision; anything else is named after what was observed.
fn dispatch_sig(ctx: &Ctx, name: &str, id: u16, what: &str, typed_ok: bool) -> String {
    let others: Vec<&str> =
        ctx.id_names.get(&id).map(|v| v.iter().copied().filter(|n| *n != name).collect()).unwrap_or_default();
    if others.is_empty() || !typed_ok {
        format!("codec:{}:{}", what, name)
    } else {
        format!("codec:shared-message-id:{}-shadowed-by-{}", name, others.join("+"))
    }
}

fn framed(b: &[u8]) -> Vec<u8> {
    let mut f = (b.len() as u32).to_be_bytes().to_vec();
    f.extend_from_slice(b);
    f
}

fn flush_events(g: &mut G, r: &mut Report) -> String {
    for e in g.events.drain(..) {
        r.count(e);
    }
    std::mem::take(&mut g.shape)
}

fn run_plain<T: Build>(g: &mut G, r: &mut Report, ctx: &Ctx, meta: &Meta) {
    let m = T::build(g);
    let shape = flush_events(g, r);
    check_plain(T::NAME, Kind::Plain, m, &shape, &mut g.rng, r, ctx, meta);
}

fn run_placeholder(g: &mut G, r: &mut Report, ctx: &Ctx, meta: &Meta) {
    let m = UnknownPlaceholder::build(g);
    check_plain("UnknownPlaceholder", Kind::NotDispatched, m, "", &mut g.rng, r, ctx, meta);
}

fn oversize(name: &str, b: &[u8], r: &mut Report) {
    // outside the domain (frames are limited to 128 KiB); only observed
    r.count("oversize.generated");
    match catch(|| msgs::from_vec(b.to_vec())) {
        Ok(Err(_)) => r.count("oversize.refused"),
        Ok(Ok(_)) => {
            r.count("oversize.accepted");
            r.note(&format!("{}: a frame of {} bytes (> 128 KiB) was accepted by msgs::from_vec", name, b.len()));
        }
        Err(p) => r.note(&format!("{}: msgs::from_vec panicked on an oversize frame: {}", name, p)),
    }
}

#[allow(clippy::too_many_arguments)]
fn check_plain<T: SerBolt + DeBolt>(
    name: &'static str,
    kind: Kind,
    m: T,
    shape: &str,
    rng: &mut Rng,
    r: &mut Report,
    ctx: &Ctx,
    meta: &Meta,
) {
    r.eval(1);
    let id = T::TYPE;
    let d0 = format!("{:?}", m);
    let b = match catch(|| m.as_vec()) {
        Ok(b) => b,
        Err(p) => {
            let w = Wit { name, id, meta, shape, bytes: &[], debug: &d0 };
            r.violation(&format!("codec:encode-panic:{}", name), w.detail(json!({"panic": p})));
            return;
        }
    };
    if b.len() > MAX_MESSAGE_SIZE {
        oversize(name, &b, r);
        return;
    }
    r.count(&format!("gen.{}", name));
    r.distinct_str(&format!("{}|{}", name, shape));
    let w = Wit { name, id, meta, shape, bytes: &b, debug: &d0 };
    let before = r.counters.iter().filter(|(k, _)| k.starts_with("violation:")).map(|(_, v)| *v).sum::<u64>();
    if b.len() < 2 || b[0..2] != id.to_be_bytes() {
        r.violation(&format!("codec:type-prefix-wrong:{}", name), w.detail(json!({"expected_prefix": id})));
    }

    let typed_ok = matches!(catch(|| T::from_vec(b.clone())), Ok(Ok(_)));
    // (1) Message enum dispatch, unframed and length-framed
    let fr = framed(&b);
    for (path, res) in [
        ("msgs::from_vec", catch(|| msgs::from_vec(b.clone()))),
        ("msgs::read", catch(|| msgs::read(&mut Cursor::new(fr.clone())))),
    ] {
        r.count("dispatch.checked");
        match res {
            Err(p) => r.violation(&format!("codec:decode-panic:{}", name), w.detail(json!({"path": path, "panic": p}))),
            Ok(Err(e)) => r.violation(
                &dispatch_sig(ctx, name, id, "dispatch-decode-failed", typed_ok),
                w.detail(json!({"path": path, "error": format!("{:?}", e), "types_with_this_id": ctx.id_names.get(&id)})),
            ),
            Ok(Ok(msg)) => {
                let vn = variant_name(&msg);
                let expect_vn = if kind == Kind::NotDispatched { "Unknown" } else { name };
                if vn != expect_vn {
                    r.violation(
                        &dispatch_sig(ctx, name, id, "dispatch-wrong-variant", typed_ok),
                        w.detail(json!({"path": path, "decoded_variant": vn, "decoded_debug": cap(&format!("{:?}", msg), 3000), "types_with_this_id": ctx.id_names.get(&id)})),
                    );
                } else if kind == Kind::NotDispatched {
                    r.count("dispatch.placeholder_as_unknown");
                } else {
                    let dd = format!("{:?}", msg);
                    let expect = format!("{}({})", name, d0);
                    if dd != expect {
                        r.violation(&format!("codec:roundtrip-debug-mismatch:{}", name), w.detail(json!({"path": path, "diff": first_diff(&expect, &dd)})));
                    }
                    let inner = msg.inner();
                    if inner.name() != name {
                        r.violation(&format!("codec:inner-name-mismatch:{}", name), w.detail(json!({"path": path, "inner_name": inner.name()})));
                    }
                    match catch(|| inner.as_vec()) {
                        Ok(rb) => {
                            if rb != b {
                                r.violation(&format!("codec:reencode-bytes-differ:{}", name), w.detail(json!({"path": path, "reencoded": hex_cap(&rb)})));
                            }
                        }
                        Err(p) => r.violation(&format!("codec:encode-panic:{}", name), w.detail(json!({"path": path, "stage": "re-encode of decoded", "panic": p}))),
                    }
                    r.count("dispatch.ok");
                }
            }
        }
    }

    // (2) typed decode, unframed and length-framed; msgs::write
    let typed = [
        ("T::from_vec", catch(|| T::from_vec(b.clone()))),
        ("msgs::read_message::<T>", catch(|| msgs::read_message::<_, T>(&mut Cursor::new(fr.clone())))),
    ];
    for (path, res) in typed {
        r.count("typed.checked");
        match res {
            Err(p) => r.violation(&format!("codec:decode-panic:{}", name), w.detail(json!({"path": path, "panic": p}))),
            Ok(Err(e)) => r.violation(&format!("codec:typed-decode-failed:{}", name), w.detail(json!({"path": path, "error": format!("{:?}", e)}))),
            Ok(Ok(t)) => {
                let dt = format!("{:?}", t);
                if dt != d0 {
                    r.violation(&format!("codec:roundtrip-debug-mismatch:{}", name), w.detail(json!({"path": path, "diff": first_diff(&d0, &dt)})));
                }
                match catch(|| t.as_vec()) {
                    Ok(tb) if tb == b => {}
                    Ok(tb) => r.violation(&format!("codec:reencode-bytes-differ:{}", name), w.detail(json!({"path": path, "reencoded": hex_cap(&tb)}))),
                    Err(p) => r.violation(&format!("codec:encode-panic:{}", name), w.detail(json!({"path": path, "stage": "re-encode of decoded", "panic": p}))),
                }
                if path == "T::from_vec" {
                    r.count("framed_write.checked");
                    match catch(move || {
                        let mut out: Vec<u8> = Vec::new();
                        msgs::write(&mut out, t).map(|_| out)
                    }) {
                        Ok(Ok(out)) if out == fr => {}
                        Ok(Ok(out)) => r.violation(&format!("codec:framed-write-bytes-differ:{}", name), w.detail(json!({"written": hex_cap(&out)}))),
                        Ok(Err(e)) => r.violation(&format!("codec:framed-write-failed:{}", name), w.detail(json!({"error": format!("{:?}", e)}))),
                        Err(p) => r.violation(&format!("codec:encode-panic:{}", name), w.detail(json!({"path": "msgs::write", "panic": p}))),
                    }
                }
                r.count("typed.ok");
            }
        }
    }

    // (3) one byte short must be refused
    let tr = b[..b.len() - 1].to_vec();
    r.count("truncation.checked");
    match catch(|| msgs::from_vec(tr.clone())) {
        Ok(Ok(msg)) => r.violation(&format!("codec:truncated-accepted:{}", name), w.detail(json!({"path": "msgs::from_vec", "decoded_debug": cap(&format!("{:?}", msg), 2000)}))),
        Ok(Err(_)) => r.count("truncation.refused"),
        Err(p) => {
            r.count("truncation.panicked");
            r.note(&format!("{}: msgs::from_vec panicked on a truncated frame: {}", name, p));
        }
    }
    match catch(|| T::from_vec(tr.clone())) {
        Ok(Ok(t)) => r.violation(&format!("codec:truncated-accepted:{}", name), w.detail(json!({"path": "T::from_vec", "decoded_debug": cap(&format!("{:?}", t), 2000)}))),
        Ok(Err(_)) => r.count("truncation.refused_typed"),
        Err(p) => {
            r.count("truncation.panicked");
            r.note(&format!("{}: T::from_vec panicked on a truncated frame: {}", name, p));
        }
    }

    // observed only (not part of the property): one byte too many, a random proper prefix
    let mut ext = b.clone();
    ext.push(rng.below(256) as u8);
    match catch(|| msgs::from_vec(ext)) {
        Ok(Ok(_)) => {
            r.count("extension.accepted");
            r.note(&format!("{}: a frame with one trailing byte was accepted", name));
        }
        Ok(Err(_)) => r.count("extension.refused"),
        Err(_) => r.count("extension.panicked"),
    }
    if b.len() > 3 {
        let cut = 2 + rng.usize(b.len() - 3);
        match catch(|| msgs::from_vec(b[..cut].to_vec())) {
            Ok(Ok(_)) => {
                r.count("prefix.accepted");
                r.note(&format!("{}: a proper prefix of a frame was accepted as a message", name));
            }
            Ok(Err(_)) => r.count("prefix.refused"),
            Err(_) => r.count("prefix.panicked"),
        }
    }

    let after = r.counters.iter().filter(|(k, _)| k.starts_with("violation:")).map(|(_, v)| *v).sum::<u64>();
    if after == before {
        r.count(&format!("ok.{}", name));
    }
    if meta.shard == 0 && meta.round == 0 && matches!(name, "HsmdInit" | "SetupChannel" | "AddBlock" | "SignCommitmentTx" | "ForwardWatchesReply") {
        r.sample(json!({"type": name, "message_id": id, "shape": shape, "encoded": cap(&hex::encode(&b), 400), "message": cap(&d0, 600), "checks": "dispatch(from_vec, read), typed(from_vec, read_message), write, truncation"}));
    }
}

/// The property's second sentence, on one decoded streamed PSBT.
fn judge_streamed(name: &'static str, path: &str, d: &StreamedPSBT, orig: &Psbt, expect: &[Expect], w: &Wit, r: &mut Report) {
    let dp = &d.psbt.inner;
    r.count("streamed.tx_checked");
    if dp.unsigned_tx != orig.unsigned_tx {
        r.violation(
            &format!("codec:streamed-psbt:unsigned-tx-changed:{}", name),
            w.detail(json!({"path": path, "encoded_tx": format!("{:?}", orig.unsigned_tx), "decoded_tx": format!("{:?}", dp.unsigned_tx)})),
        );
    }
    if d.segwit_flags.len() != expect.len() || dp.inputs.len() != expect.len() {
        r.violation(
            &format!("codec:streamed-psbt:per-input-lengths:{}", name),
            w.detail(json!({"path": path, "inputs_encoded": expect.len(), "inputs_decoded": dp.inputs.len(), "segwit_flags": d.segwit_flags.len()})),
        );
        return;
    }
    for (i, e) in expect.iter().enumerate() {
        r.count("streamed.prevout_checked");
        r.count(&format!("streamed.input.{}", e.kind));
        let got = &dp.inputs[i].witness_utxo;
        if *got != e.prev {
            r.violation(
                &format!("codec:streamed-psbt:previous-output-mismatch:{}", name),
                w.detail(json!({"path": path, "input": i, "input_kind": e.kind, "expected": format!("{:?}", e.prev), "decoded": format!("{:?}", got)})),
            );
        }
        r.count("streamed.segwit_checked");
        r.count(if e.segwit { "streamed.segwit.expected_true" } else { "streamed.segwit.expected_false" });
        let flag = d.segwit_flags[i];
        if flag != e.segwit {
            let sig = if flag {
                format!("codec:streamed-psbt:segwit-flag-true-unproven:{}", name)
            } else {
                format!("codec:streamed-psbt:segwit-flag-false-for-witness-output:{}", name)
            };
            r.violation(
                &sig,
                w.detail(json!({"path": path, "input": i, "input_kind": e.kind, "decoded_flag": flag, "expected_flag": e.segwit,
                                "previous_output": format!("{:?}", e.prev), "all_flags": d.segwit_flags})),
            );
        }
    }
    // everything else of the PSBT (scripts, derivations, unknown keys, outputs, globals)
    r.count("streamed.other_fields_checked");
    let mut restored = dp.clone();
    for (i, inp) in restored.inputs.iter_mut().enumerate() {
        inp.non_witness_utxo = orig.inputs[i].non_witness_utxo.clone();
        inp.witness_utxo = orig.inputs[i].witness_utxo.clone();
    }
    if restored != *orig {
        r.violation(
            &format!("codec:streamed-psbt:other-fields-changed:{}", name),
            w.detail(json!({"path": path, "diff": first_diff(&format!("{:?}", orig), &format!("{:?}", restored))})),
        );
    }
}

fn run_streamed<T: StreamedMsg>(g: &mut G, r: &mut Report, ctx: &Ctx, meta: &Meta) {
    let name = T::NAME;
    let id = T::TYPE;
    let GenPsbt { psbt, expect, consistent } = g.psbt(true);
    let orig = psbt.clone();
    let m = T::build(g, StreamedPSBT::new(psbt));
    let shape = flush_events(g, r);
    r.eval(1);
    let d0 = format!("{:?}", m);
    let b = match catch(|| m.as_vec()) {
        Ok(b) => b,
        Err(p) => {
            let w = Wit { name, id, meta, shape: &shape, bytes: &[], debug: &d0 };
            r.violation(&format!("codec:encode-panic:{}", name), w.detail(json!({"panic": p})));
            return;
        }
    };
    if b.len() > MAX_MESSAGE_SIZE {
        oversize(name, &b, r);
        return;
    }
    r.count(&format!("gen.{}", name));
    r.distinct_str(&format!("{}|{}|{}", name, shape, consistent));
    r.count(if consistent { "streamed.consistent" } else { "streamed.inconsistent" });
    let w = Wit { name, id, meta, shape: &shape, bytes: &b, debug: &d0 };
    let before = r.counters.iter().filter(|(k, _)| k.starts_with("violation:")).map(|(_, v)| *v).sum::<u64>();
    let rest0 = m.split().1;
    let fr = framed(&b);
    let typed_ok = matches!(catch(|| T::from_vec(b.clone())), Ok(Ok(_)));

    let judge = |path: &str, res: Result<Result<T, String>, String>, r: &mut Report| match res {
        Err(p) => {
            if consistent {
                r.violation(&format!("codec:decode-panic:{}", name), w.detail(json!({"path": path, "panic": p})));
            } else {
                r.note(&format!("{}: decoder panicked on an inconsistent PSBT: {}", name, p));
            }
        }
        Ok(Err(e)) => {
            if consistent {
                let sig = if path.contains("<T>") || path.starts_with("T::") {
                    format!("codec:typed-decode-failed:{}", name)
                } else if e.starts_with("variant:") {
                    dispatch_sig(ctx, name, id, "dispatch-wrong-variant", typed_ok)
                } else {
                    dispatch_sig(ctx, name, id, "dispatch-decode-failed", typed_ok)
                };
                r.violation(&sig, w.detail(json!({"path": path, "error": e})));
            } else {
                r.count("streamed.inconsistent.refused");
            }
        }
        Ok(Ok(d)) => {
            if !consistent {
                r.count("streamed.inconsistent.accepted");
            }
            let (sp, rest) = d.split();
            if rest != rest0 {
                r.violation(&format!("codec:roundtrip-debug-mismatch:{}", name), w.detail(json!({"path": path, "diff": first_diff(&rest0, &rest)})));
            }
            judge_streamed(name, path, sp, &orig, &expect, &w, r);
            r.count("streamed.decoded");
        }
    };

    let via_enum = |res: Result<vls_protocol::Result<Message>, String>| -> Result<Result<T, String>, String> {
        res.map(|x| match x {
            Err(e) => Err(format!("{:?}", e)),
            Ok(msg) => T::from_message(msg).map_err(|o| format!("variant:{}", variant_name(&o))),
        })
    };
    let via_typed = |res: Result<vls_protocol::Result<T>, String>| -> Result<Result<T, String>, String> { res.map(|x| x.map_err(|e| format!("{:?}", e))) };

    judge("msgs::from_vec", via_enum(catch(|| msgs::from_vec(b.clone()))), r);
    judge("msgs::read", via_enum(catch(|| msgs::read(&mut Cursor::new(fr.clone())))), r);
    judge("T::from_vec", via_typed(catch(|| T::from_vec(b.clone()))), r);
    judge("msgs::read_message::<T>", via_typed(catch(|| msgs::read_message::<_, T>(&mut Cursor::new(fr.clone())))), r);

    // one byte short must be refused
    let tr = b[..b.len() - 1].to_vec();
    r.count("truncation.checked");
    match catch(|| msgs::from_vec(tr.clone())) {
        Ok(Ok(msg)) => r.violation(&format!("codec:truncated-accepted:{}", name), w.detail(json!({"path": "msgs::from_vec", "decoded_debug": cap(&format!("{:?}", msg), 2000)}))),
        Ok(Err(_)) => r.count("truncation.refused"),
        Err(p) => {
            r.count("truncation.panicked");
            r.note(&format!("{}: msgs::from_vec panicked on a truncated frame: {}", name, p));
        }
    }
    match catch(|| T::from_vec(tr.clone())) {
        Ok(Ok(_)) => r.violation(&format!("codec:truncated-accepted:{}", name), w.detail(json!({"path": "T::from_vec"}))),
        Ok(Err(_)) => r.count("truncation.refused_typed"),
        Err(_) => r.count("truncation.panicked"),
    }

    let after = r.counters.iter().filter(|(k, _)| k.starts_with("violation:")).map(|(_, v)| *v).sum::<u64>();
    if after == before {
        r.count(&format!("ok.{}", name));
    }
    if meta.shard == 0 && meta.round == 0 && name == "SignWithdrawal" {
        r.sample(json!({"type": name, "message_id": id, "shape": shape, "psbt_consistent": consistent,
                        "inputs_[kind,previous_output,proven_segwit]": expect.iter().map(|e| json!([e.kind, format!("{:?}", e.prev), e.segwit])).collect::<Vec<_>>(),
                        "encoded": cap(&hex::encode(&b), 400)}));
    }
}

/// A frame of exactly 128 KiB must still round-trip; one byte more is outside the domain (observed).
fn size_boundary(r: &mut Report, ctx: &Ctx, meta: &Meta) {
    let mut g = G::new(Rng::new(meta.seed ^ 0xB0DA));
    let mk = |g: &mut G, n: usize| RemoveBlock {
        unspent_proof: Some(LargeOctets(g.rng.vec(n))),
        prev_block_header: Gen::gen(g),
        prev_filter_header: Gen::gen(g),
    };
    let base = mk(&mut g, 0).as_vec().len();
    for (extra, tag) in [(0usize, "boundary:frame=128KiB"), (1, "boundary:frame=128KiB+1")] {
        let m = mk(&mut g, MAX_MESSAGE_SIZE - base + extra);
        g.shape.clear();
        if extra == 0 {
            r.count("boundary.max_frame_checked");
        }
        check_plain("RemoveBlock", Kind::Plain, m, tag, &mut g.rng, r, ctx, meta);
    }
}

// ---------------------------------------------------------------------------------------------
// the registry as written in msgs.rs (textual), against what this driver generates
// ---------------------------------------------------------------------------------------------

struct RegEntry {
    name: String,
    id: u32,
    cfg: Option<String>,
}

struct Registry {
    structs: Vec<RegEntry>,
    /// (variant, cfg)
    variants: Vec<(String, Option<String>)>,
}

fn parse_registry(src: &str) -> Registry {
    let mut structs = vec![];
    let mut variants = vec![];
    let mut pending_id: Option<u32> = None;
    let mut pending_cfg: Option<String> = None;
    let mut in_enum = false;
    for line in src.lines() {
        if in_enum {
            let t = line.trim();
            if line.starts_with('}') {
                in_enum = false;
                pending_cfg = None;
            } else if t.starts_with("#[cfg(") {
                pending_cfg = Some(t.to_string());
            } else if t.starts_with("#[") || t.starts_with("//") || t.is_empty() {
            } else {
                let ident: String = t.chars().take_while(|c| c.is_alphanumeric() || *c == '_').collect();
                if !ident.is_empty() {
                    variants.push((ident, pending_cfg.take()));
                }
            }
            continue;
        }
        // only top-level items (column 0): the #[cfg(test)] module's test structs are indented
        if line.starts_with("#[message_id(") {
            let num: String = line["#[message_id(".len()..].chars().take_while(|c| c.is_ascii_digit()).collect();
            pending_id = num.parse().ok();
        } else if line.starts_with("#[cfg(") {
            pending_cfg = Some(line.trim().to_string());
        } else if line.starts_with("#[") || line.starts_with("//") || line.trim().is_empty() {
        } else if line.starts_with("pub struct ") {
            let name: String = line["pub struct ".len()..].chars().take_while(|c| c.is_alphanumeric() || *c == '_').collect();
            if let Some(id) = pending_id.take() {
                structs.push(RegEntry { name, id, cfg: pending_cfg.take() });
            }
            pending_cfg = None;
        } else if line.starts_with("pub enum Message") {
            in_enum = true;
            pending_id = None;
            pending_cfg = None;
        } else if !line.starts_with(' ') && !line.starts_with('\t') && !line.starts_with('}') {
            // some other top-level item consumed the attributes
            pending_id = None;
            pending_cfg = None;
        }
    }
    Registry { structs, variants }
}

fn repo_root() -> std::path::PathBuf {
    if let Ok(p) = std::env::var("VERIF_REPO") {
        return p.into();
    }
    let local = report::verif_root().join("repo");
    if local.join("vls-protocol/src/msgs.rs").exists() {
        return local;
    }
    "/repo".into()
}

/// returns extra coverage keys; pushes inconclusive reasons
fn registry_check(cases: &[Case], inconclusive: &mut Vec<String>) -> serde_json::Map<String, Value> {
    let mut cov = serde_json::Map::new();
    let path = repo_root().join("vls-protocol/src/msgs.rs");
    cov.insert("registry_source".into(), json!(path.display().to_string()));
    let src = match std::fs::read_to_string(&path) {
        Ok(s) => s,
        Err(e) => {
            inconclusive.push(format!("cannot read the registry source {}: {}", path.display(), e));
            return cov;
        }
    };
    let reg = parse_registry(&src);
    if reg.structs.len() < 50 || reg.variants.len() < 50 {
        inconclusive.push(format!("registry parse found only {} message structs / {} variants — parser out of date", reg.structs.len(), reg.variants.len()));
    }
    let dev = cfg!(feature = "developer");
    let built = |cfg: &Option<String>| match cfg {
        None => true,
        Some(c) => dev && c.contains("feature = \"developer\""),
    };
    let generated: BTreeMap<&str, &Case> = cases.iter().map(|c| (c.name, c)).collect();
    let mut missing = vec![];
    let mut not_built = vec![];
    let mut id_mismatch = vec![];
    for e in &reg.structs {
        if !built(&e.cfg) {
            not_built.push(format!("{} (id {}, {})", e.name, e.id, e.cfg.clone().unwrap_or_default()));
            continue;
        }
        match generated.get(e.name.as_str()) {
            None => missing.push(format!("{} (id {})", e.name, e.id)),
            Some(c) => {
                if c.id as u32 != e.id {
                    id_mismatch.push(format!("{}: source says {}, binary was built with {}", e.name, e.id, c.id));
                }
            }
        }
    }
    let reg_names: BTreeSet<&str> = reg.structs.iter().map(|e| e.name.as_str()).collect();
    let stale: Vec<&str> = cases.iter().map(|c| c.name).filter(|n| !reg_names.contains(n)).collect();
    let mut variant_missing = vec![];
    let variant_names: BTreeSet<&str> = reg.variants.iter().map(|(v, _)| v.as_str()).collect();
    for (v, cfg) in &reg.variants {
        if v == "Unknown" || !built(cfg) {
            continue;
        }
        match generated.get(v.as_str()) {
            Some(c) if c.kind != Kind::NotDispatched => {}
            _ => variant_missing.push(v.clone()),
        }
    }
    let not_dispatchable: Vec<&str> =
        reg.structs.iter().filter(|e| built(&e.cfg) && !variant_names.contains(e.name.as_str())).map(|e| e.name.as_str()).collect();
    let mut by_id: BTreeMap<u32, Vec<&str>> = BTreeMap::new();
    for e in reg.structs.iter().filter(|e| built(&e.cfg)) {
        by_id.entry(e.id).or_default().push(&e.name);
    }
    let shared: Vec<Value> = by_id.iter().filter(|(_, v)| v.len() > 1).map(|(k, v)| json!({"message_id": k, "types": v})).collect();

    if !missing.is_empty() {
        inconclusive.push(format!("message types in msgs.rs that this driver does not generate: {}", missing.join(", ")));
    }
    if !variant_missing.is_empty() {
        inconclusive.push(format!("Message variants in msgs.rs that this driver does not generate: {}", variant_missing.join(", ")));
    }
    if !id_mismatch.is_empty() {
        inconclusive.push(format!("binary is stale with respect to msgs.rs: {}", id_mismatch.join("; ")));
    }
    if !stale.is_empty() {
        inconclusive.push(format!("driver generates types that msgs.rs no longer declares: {}", stale.join(", ")));
    }
    cov.insert("registry_types_in_source".into(), json!(reg.structs.len()));
    cov.insert("registry_types_built_here".into(), json!(reg.structs.iter().filter(|e| built(&e.cfg)).count()));
    cov.insert("registry_variants_in_source".into(), json!(reg.variants.len()));
    cov.insert("types_generated".into(), json!(cases.len()));
    cov.insert("types_missing".into(), json!(missing));
    cov.insert("types_not_built_in_this_configuration".into(), json!(not_built));
    cov.insert("types_with_id_but_no_Message_variant".into(), json!(not_dispatchable));
    cov.insert("message_ids_shared_by_several_types".into(), json!(shared));
    cov.insert("developer_feature".into(), json!(dev));
    cov
}

fn main() {
    let cli = Cli::parse("C19");
    report::install_quiet_panic_hook();
    let start = Instant::now();
    let _ = pool();
    let all = cases();
    let mut id_names: BTreeMap<u16, Vec<&'static str>> = BTreeMap::new();
    for c in &all {
        id_names.entry(c.id).or_default().push(c.name);
    }
    let ctx = Ctx { id_names };
    let mut inconclusive = vec![];
    let mut extra = registry_check(&all, &mut inconclusive);

    let only = cli.extra.get("only").cloned();
    let selected: Vec<Case> = all.iter().copied().filter(|c| only.as_deref().map_or(true, |o| o == c.name)).collect();
    let quick = cli.tier.is_quick();
    let shards = if quick { 16 } else { 64 };
    let rounds = cli.extra.get("rounds").and_then(|s| s.parse().ok()).unwrap_or_else(|| cli.scaled(if quick { 40 } else { 400 }));

    let mut report = run_sharded("C19", cli.threads, shards, |shard, r| {
        for round in 0..rounds {
            let meta = Meta { seed: cli.seed, shard, round };
            for c in &selected {
                let rng = Rng::new(fnv_str(&format!("c19:{}:{}:{}:{}", cli.seed, shard, round, c.name)));
                let mut g = G::new(rng);
                (c.run)(&mut g, r, &ctx, &meta);
            }
        }
        if shard == 0 && only.is_none() {
            size_boundary(r, &ctx, &Meta { seed: cli.seed, shard, round: u64::MAX });
        }
    });
    for why in inconclusive {
        report.inconclusive(&why);
    }

    // every generated type must have been exercised, and every rule's antecedent must have fired
    let mut covered = 0u64;
    let mut passed_everywhere = 0u64;
    for c in &selected {
        let n = report.get(&format!("gen.{}", c.name));
        if n > 0 {
            covered += 1;
        }
        if n > 0 && report.get(&format!("ok.{}", c.name)) == n {
            passed_everywhere += 1;
        }
        report.require(&format!("gen.{}", c.name), (shards as u64 * rounds / 2).max(1));
    }
    extra.insert("types_covered_this_run".into(), json!(covered));
    extra.insert("types_all_checks_passed".into(), json!(passed_everywhere));
    if only.is_none() {
        for (k, min) in [
            ("dispatch.checked", 1000),
            ("typed.checked", 1000),
            ("framed_write.checked", 500),
            ("truncation.refused", 500),
            ("option.some", 200),
            ("option.none", 200),
            ("array.empty", 100),
            ("array.many", 100),
            ("array.fill", 5),
            ("blob.empty", 100),
            ("blob.u16max", 5),
            ("psbt.plain", 200),
            ("tx.segwit_serialization", 100),
            ("tx.legacy_serialization", 100),
            ("txoproof.filter", 20),
            ("txoproof.block", 10),
            ("txoproof.external_block", 10),
            ("boundary.max_frame_checked", 1),
            ("streamed.decoded", 500),
            ("streamed.tx_checked", 500),
            ("streamed.input.no_utxo", 50),
            ("streamed.input.witness_utxo_only", 50),
            ("streamed.input.prev_tx", 50),
            ("streamed.input.prev_tx_and_witness_utxo", 50),
            ("streamed.segwit.expected_true", 100),
            ("streamed.segwit.expected_false", 100),
            ("streamed.other_fields_checked", 500),
        ] {
            report.require(k, min);
        }
    }

    finish(
        report,
        FinishSpec {
            cli: &cli,
            level: "exploration",
            rule: "every message type of vls-protocol/src/msgs.rs is built from seeded per-field-type generators (boundary integers, byte strings 0..65535 / >64Ki for LargeOctets, arrays 0..as many as fit a 128 KiB frame, options present/absent, legacy/segwit/zero-input transactions, PSBTs with previous txs / witness utxos / scripts / derivations / unknown keys, TxoProof variants); monitors: Message dispatch (msgs::from_vec, msgs::read) gives the same variant, the same Debug print (log-secrets) and re-encodes bytewise; typed decode (T::from_vec, msgs::read_message) likewise; msgs::write frames identically; the frame minus its last byte is refused; for WithSize<StreamedPSBT> messages: decoded unsigned tx == encoded, per-input previous output == non_witness_utxo.output[vout] or the given witness_utxo, segwit flag == (previous tx given and that output is a BIP-141 witness program), remaining PSBT fields unchanged. distinct = (message type, shape class of its optional / variable-length / tx / PSBT parts)",
            assumptions: vec![
                "frames are at most 128 KiB (msgs.rs MAX_MESSAGE_SIZE); larger ones are refused as a whole and only counted".into(),
                "Octets <= 65535 bytes, WireString without NUL, PSBTs have at least one input (BIP-174 cannot represent a 0-input unsigned tx unambiguously), PSBT version 0".into(),
                "equality of messages is judged by the log-secrets Debug print plus bytewise re-encoding (the types have no PartialEq); DebugTxoProof prints only a summary, so its content is covered by the bytewise re-encoding only".into(),
                "rust-bitcoin (transaction / PSBT serialization), txoo (TxoProof serialization) and serde_bolt / bitcoin-consensus-derive are exercised through vls-protocol but a defect that is symmetric in encoder and decoder is invisible to a round-trip oracle".into(),
                "types behind vls-protocol's `developer` feature are generated only when the harness is built with a `developer` feature forwarding it (listed under types_not_built_in_this_configuration otherwise)".into(),
            ],
            start,
            extra_coverage: extra,
        },
    );
}
