//! C17 — externally stored state is authenticated against tampering, swapping and replay.
//!
//! Direct calls, no Node.  Four monitors, all one-directional (accepted => legitimately produced):
//!
//! A. per-value acceptance (`lightning_storage_server::util::{prepare_value_for_put,
//!    process_value_from_get}`, built without `crypt` exactly as the /repo workspace links it):
//!    a context writes a handful of (key, version, content) records under one secret; every
//!    presentation (key', version', blob') that `process_value_from_get` accepts must yield a
//!    triple (key', version', content') that is in the set of written triples, from exactly the
//!    bytes that were stored for it.  Presentations:
//!    single-bit flips, truncations, extensions, key swaps, version swaps, content swaps between
//!    records, forgeries under another secret, random blobs, and *field-boundary shifts* (every
//!    other parse key'|version'|value' of the very same byte string key|version|value).
//! B. per-value tag table: legitimately written triples under one secret, table keyed by the
//!    32-byte MAC; two different triples must never share a MAC.
//! C. shared tag table (`ExternalPersistHelper::{client_hmac, server_hmac, check_hmac}`,
//!    `lightning_signer::persist::compute_shared_hmac`, and the LSS twin
//!    `lightning_storage_server::util::compute_shared_hmac`): many distinct record lists under one
//!    (secret, nonce); table keyed by tag over *all* lists of the context; two lists whose record
//!    sets differ must never share a tag.  Lists come from realistic bases, targeted structural
//!    mutants (merge, split, byte moves between adjacent records / fields, random re-parse of the
//!    same byte stream, reorder, edits) and a small-alphabet random generator in which ambiguous
//!    parses arise by chance.
//! D. nonce freshness: sessions of `new_nonce` / honest server tag / `check_hmac`; anything
//!    accepted must have been produced for the *current* nonce and the same record set: stale
//!    responses (previous and older nonces), put tags, other nonces, mangled tags, other secrets,
//!    modified lists.
//!
//! Signatures name the *shape* of the witness.  Collisions caused by the missing field framing get
//! `value-hmac:key-version-boundary-shift`, `shared-hmac:record-split-collision`,
//! `shared-hmac:record-boundary-shift`, `shared-hmac:key-version-boundary-shift` (+ `lss-` twins);
//! every other way of breaking the property (ignored nonce, truncated comparison, field left out
//! of the MAC, ...) maps to a different signature.

use lightning_signer::lightning::sign::EntropySource;
use lightning_signer::persist::{compute_shared_hmac, ExternalPersistHelper, Mutations};
use lightning_storage_server::util::{
    compute_shared_hmac as lss_compute_shared_hmac, prepare_value_for_put, process_value_from_get,
};
use lightning_storage_server::Value as LssValue;
use serde_json::{json, Value};
use std::collections::{BTreeSet, HashMap};
use std::sync::Mutex;
use std::time::Instant;
use vls_verif::report::{self, finish, run_sharded, FinishSpec};
use vls_verif::{Cli, Report, Rng};

// ---------------------------------------------------------------------------------------------
// records and reference encodings (the harness's own, framed; used only to tell lists apart and
// to classify a collision after it has been observed)

#[derive(Clone, Debug, PartialEq, Eq, Hash, PartialOrd, Ord)]
struct Rec {
    key: String,
    ver: u64,
    val: Vec<u8>,
}

fn rec(key: &str, ver: u64, val: &[u8]) -> Rec {
    Rec { key: key.to_string(), ver, val: val.to_vec() }
}

fn printable(b: &[u8]) -> String {
    b.iter()
        .map(|c| if (0x20..0x7f).contains(c) && *c != b'\\' { (*c as char).to_string() } else { format!("\\x{:02x}", c) })
        .collect()
}

fn rec_json(r: &Rec) -> Value {
    json!({
        "key": printable(r.key.as_bytes()),
        "key_hex": hex::encode(r.key.as_bytes()),
        "version": r.ver,
        "version_be_hex": hex::encode(r.ver.to_be_bytes()),
        "value": printable(&r.val),
        "value_hex": hex::encode(&r.val),
    })
}

fn list_json(l: &[Rec]) -> Value {
    Value::Array(l.iter().map(rec_json).collect())
}

/// the byte string a record contributes when fields are simply concatenated
fn stream_of(r: &Rec, out: &mut Vec<u8>) {
    out.extend_from_slice(r.key.as_bytes());
    out.extend_from_slice(&r.ver.to_be_bytes());
    out.extend_from_slice(&r.val);
}

fn stream(l: &[Rec]) -> Vec<u8> {
    let mut out = vec![];
    for r in l {
        stream_of(r, &mut out);
    }
    out
}

fn record_offsets(l: &[Rec]) -> Vec<usize> {
    let mut o = vec![];
    let mut p = 0;
    for r in l {
        o.push(p);
        p += r.key.len() + 8 + r.val.len();
    }
    o
}

fn as_set(l: &[Rec]) -> BTreeSet<&Rec> {
    l.iter().collect()
}

/// Shape of a collision between two lists with different record sets (same tag observed).
fn classify_lists(a: &[Rec], b: &[Rec]) -> &'static str {
    if stream(a) == stream(b) {
        if a.len() != b.len() {
            "record-split-collision"
        } else if record_offsets(a) == record_offsets(b) {
            "key-version-boundary-shift"
        } else {
            "record-boundary-shift"
        }
    } else if a.len() == b.len() {
        let keys = a.iter().zip(b).all(|(x, y)| x.key == y.key);
        let vers = a.iter().zip(b).all(|(x, y)| x.ver == y.ver);
        let vals = a.iter().zip(b).all(|(x, y)| x.val == y.val);
        match (keys, vers, vals) {
            (true, false, true) => "version-not-bound",
            (false, true, true) => "key-not-bound",
            (true, true, false) => "value-not-bound",
            _ => "distinct-stream-collision",
        }
    } else {
        "distinct-stream-collision"
    }
}

fn to_mutations(l: &[Rec]) -> Mutations {
    Mutations::from_vec(l.iter().map(|r| (r.key.clone(), (r.ver, r.val.clone()))).collect())
}

fn to_lss(l: &[Rec]) -> Vec<(String, LssValue)> {
    l.iter().map(|r| (r.key.clone(), LssValue { version: r.ver as i64, value: r.val.clone() })).collect()
}

fn len_class(n: usize) -> u8 {
    match n {
        0 => 0,
        1..=7 => 1,
        8..=31 => 2,
        32 => 3,
        33..=64 => 4,
        _ => 5,
    }
}

/// `Report::violation` with the detail built only when it will be kept (the counter always moves)
fn violate(r: &mut Report, sig: &str, detail: impl FnOnce() -> Value) {
    let kept = r.violations.iter().filter(|v| v.signature == sig).count();
    let d = if kept < 3 && r.violations.len() < 200 { detail() } else { Value::Null };
    r.violation(sig, d);
}

// ---------------------------------------------------------------------------------------------
// generators

const SMALL: [u8; 2] = [0x00, b'a'];

fn gen_key(rng: &mut Rng) -> (String, &'static str) {
    match rng.below(10) {
        0 | 1 | 2 => {
            let p = *rng.pick(&["node", "channel", "tracker", "allowlist", "node_state", "x"]);
            let n = rng.range(1, 5) as usize;
            (format!("{}/{}", p, hex::encode(rng.vec(n))), "realistic")
        }
        3 | 4 => {
            let n = rng.below(5) as usize;
            let s: String = (0..n).map(|_| *rng.pick(&['a', 'b', '/', '0', '1', 'k', 'j'])).collect();
            (s, "short-ascii")
        }
        5 | 6 => {
            let n = rng.below(4) as usize;
            let s: String = (0..n).map(|_| *rng.pick(&['\0', 'a'])).collect();
            (s, "small-alphabet")
        }
        7 | 8 => {
            let n = rng.range(1, 4) as usize;
            let s: String = (0..n).map(|_| *rng.pick(&['a', 'é', '€', '𝄞', '\0', '/'])).collect();
            (s, "unicode")
        }
        _ => (String::new(), "empty"),
    }
}

fn gen_version(rng: &mut Rng) -> u64 {
    match rng.below(12) {
        0 => 0,
        1 => 1,
        2 | 3 | 4 | 5 => rng.below(1000),
        6 => {
            let mut b = [0u8; 8];
            for x in b.iter_mut() {
                *x = *rng.pick(&[0u8, b'a', b'b', b'/']);
            }
            u64::from_be_bytes(b)
        }
        7 => rng.next_u64(),
        8 => u64::MAX,
        9 => i64::MAX as u64,
        10 => (rng.below(256) << 56) | rng.below(256),
        _ => rng.below(1 << 20),
    }
}

fn gen_value(rng: &mut Rng) -> Vec<u8> {
    match rng.below(11) {
        0 => vec![],
        1 => {
            let n = rng.range(1, 7) as usize;
            rng.vec(n)
        }
        2 | 3 => {
            let n = rng.range(8, 40) as usize;
            rng.vec(n)
        }
        4 => {
            let n = rng.below(30) as usize;
            (0..n).map(|_| *rng.pick(b"abjk/01 {}\":")).collect()
        }
        5 => {
            let n = rng.below(24) as usize;
            (0..n).map(|_| *rng.pick(&SMALL)).collect()
        }
        6 => {
            // a value that itself contains an encoded record
            let mut v = {
                let n = rng.below(6) as usize;
                rng.vec(n)
            };
            let (k, _) = gen_key(rng);
            let inner = Rec { key: k, ver: gen_version(rng), val: {
                let n = rng.below(12) as usize;
                rng.vec(n)
            } };
            stream_of(&inner, &mut v);
            v
        }
        7 => rng.vec(32),
        8 => {
            let n = rng.range(100, 300) as usize;
            rng.vec(n)
        }
        _ => {
            let n = rng.below(64) as usize;
            rng.vec(n)
        }
    }
}

fn gen_rec(rng: &mut Rng) -> Rec {
    let (key, _) = gen_key(rng);
    Rec { key, ver: gen_version(rng), val: gen_value(rng) }
}

fn gen_secret(rng: &mut Rng) -> Vec<u8> {
    match rng.below(8) {
        0 => rng.vec(16),
        1 => rng.vec(64),
        2 => rng.vec(100),
        _ => rng.vec(32),
    }
}

/// record over the alphabet {0x00, 'a'}: ambiguous parses arise by chance
fn gen_small_rec(rng: &mut Rng, max_key: u64, max_val: u64) -> Rec {
    let kn = rng.below(max_key + 1) as usize;
    let key: String = (0..kn).map(|_| *rng.pick(&['\0', 'a'])).collect();
    let mut vb = [0u8; 8];
    for x in vb.iter_mut() {
        *x = *rng.pick(&SMALL);
    }
    let vn = rng.below(max_val + 1) as usize;
    let val: Vec<u8> = (0..vn).map(|_| *rng.pick(&SMALL)).collect();
    Rec { key, ver: u64::from_be_bytes(vb), val }
}

/// All positions i such that bytes[..i] is valid UTF-8
fn utf8_prefix_lengths(bytes: &[u8]) -> Vec<usize> {
    let valid = match std::str::from_utf8(bytes) {
        Ok(s) => s,
        Err(e) => std::str::from_utf8(&bytes[..e.valid_up_to()]).unwrap_or(""),
    };
    let mut v: Vec<usize> = valid.char_indices().map(|(i, _)| i).collect();
    v.push(valid.len());
    v.dedup();
    v
}

/// Every other way to read the same bytes key|version|value as one record (key' must be a string)
fn reparses(r: &Rec, max: usize, rng: &mut Rng) -> Vec<Rec> {
    let mut s = vec![];
    stream_of(r, &mut s);
    let mut cuts: Vec<usize> =
        utf8_prefix_lengths(&s).into_iter().filter(|i| *i + 8 <= s.len() && *i != r.key.len()).collect();
    if cuts.len() > max {
        // keep the ones nearest to the real boundary, fill with random others
        let kl = r.key.len() as i64;
        cuts.sort_by_key(|i| (*i as i64 - kl).abs());
        let mut keep: Vec<usize> = cuts[..max / 2].to_vec();
        let mut rest: Vec<usize> = cuts[max / 2..].to_vec();
        rng.shuffle(&mut rest);
        keep.extend(rest.into_iter().take(max - max / 2));
        cuts = keep;
    }
    cuts.into_iter()
        .map(|i| {
            let mut vb = [0u8; 8];
            vb.copy_from_slice(&s[i..i + 8]);
            Rec {
                key: String::from_utf8(s[..i].to_vec()).expect("checked utf8"),
                ver: u64::from_be_bytes(vb),
                val: s[i + 8..].to_vec(),
            }
        })
        .collect()
}

/// A random parse of a byte stream into records (None if the stream cannot be parsed that way)
fn random_parse(s: &[u8], rng: &mut Rng) -> Option<Vec<Rec>> {
    let mut out = vec![];
    let mut pos = 0;
    if s.is_empty() {
        return Some(out);
    }
    loop {
        let rest = &s[pos..];
        if rest.len() < 8 {
            return None;
        }
        let mut lens: Vec<usize> = utf8_prefix_lengths(rest).into_iter().filter(|i| *i + 8 <= rest.len()).collect();
        if lens.is_empty() {
            return None;
        }
        lens.truncate(6);
        let kl = *rng.pick(&lens);
        let mut vb = [0u8; 8];
        vb.copy_from_slice(&rest[kl..kl + 8]);
        let after = rest.len() - kl - 8;
        // value length: either the whole rest (last record) or a prefix leaving >= 8 bytes
        let vl = if after < 8 || out.len() >= 5 || rng.chance(1, 3) { after } else { rng.below((after - 8) as u64 + 1) as usize };
        out.push(Rec {
            key: String::from_utf8(rest[..kl].to_vec()).ok()?,
            ver: u64::from_be_bytes(vb),
            val: rest[kl + 8..kl + 8 + vl].to_vec(),
        });
        pos += kl + 8 + vl;
        if pos == s.len() {
            return Some(out);
        }
    }
}

// ---------------------------------------------------------------------------------------------
// A. per-value acceptance monitor

struct VCtx<'a> {
    secret: &'a [u8],
    /// written triple -> the exact bytes the signer stored for it
    written: &'a HashMap<Rec, Vec<u8>>,
    place: Value,
}

/// Present (key, ver, blob) to process_value_from_get.  Accepted => the resulting triple must
/// have been written under this secret.
#[allow(clippy::too_many_arguments)]
fn present(
    r: &mut Report,
    c: &VCtx,
    kind: &str,
    sig: &str,
    base: Option<(&Rec, &[u8])>,
    key: &str,
    ver: u64,
    blob: &[u8],
    how: Value,
) -> Option<bool> {
    r.eval(1);
    r.count(&format!("value.{}.presented", kind));
    let mut v = LssValue { version: ver as i64, value: blob.to_vec() };
    let res = report::catch(|| process_value_from_get(c.secret, key, &mut v));
    let outcome;
    let ret = match res {
        Err(p) => {
            r.count(&format!("value.{}.panic", kind));
            r.note(&format!("process_value_from_get panicked ({}): {}", kind, p));
            outcome = "panic";
            None
        }
        Ok(Err(())) => {
            r.count(&format!("value.{}.refused", kind));
            outcome = "refused";
            Some(false)
        }
        Ok(Ok(())) => {
            let got = Rec { key: key.to_string(), ver, val: v.value.clone() };
            let stored = c.written.get(&got);
            if stored.map(|b| b.as_slice()) == Some(blob) {
                r.count(&format!("value.{}.accepted_as_written", kind));
                outcome = "accepted-written";
            } else {
                r.count(&format!("value.{}.accepted_NOT_written", kind));
                outcome = "accepted-not-written";
                violate(r, sig, || json!({
                        "entry": "lightning_storage_server::util::process_value_from_get (crate built without `crypt`)",
                        "why": if stored.is_none() { "accepted a (key, version, content) triple that was never written under this secret" }
                               else { "accepted stored bytes that differ from the bytes the signer wrote for this (key, version): a tampered value passed the check (the decoded content happens to equal the written one)" },
                        "decoded_triple_was_written": stored.is_some(),
                        "mutation": kind,
                        "how": how,
                        "secret_hex": hex::encode(c.secret),
                        "derived_from_written_record": base.map(|(b, blob)| json!({"record": rec_json(b), "stored_blob_hex": hex::encode(blob)})),
                        "presented": {"key": printable(key.as_bytes()), "key_hex": hex::encode(key.as_bytes()),
                                       "version_i64": ver as i64, "version_be_hex": hex::encode(ver.to_be_bytes()),
                                       "blob_hex": hex::encode(blob)},
                        "accepted_content": rec_json(&got),
                        "written_under_this_secret": c.written.keys().map(rec_json).collect::<Vec<_>>(),
                        "place": c.place,
                    }));
            }
            Some(true)
        }
    };
    r.distinct_str(&format!("A:{}:{}:{}:{}", kind, outcome, len_class(blob.len()), len_class(key.len())));
    ret
}

fn mutate_one(r: &mut Report, rng: &mut Rng, c: &VCtx, recs: &[(Rec, Vec<u8>)], i: usize, forge_secret: &[u8]) {
    let (b, blob) = (&recs[i].0, &recs[i].1);
    let base = Some((b, blob.as_slice()));
    let n = blob.len();
    let vlen = b.val.len();

    // honest read back
    if present(r, c, "honest", "value-hmac:honest-unwritten", base, &b.key, b.ver, blob, json!(null)) != Some(true) {
        r.count("value.honest.NOT_accepted");
    }

    // single-bit flips
    let mut bits: Vec<usize> = vec![];
    if n <= 40 || rng.chance(1, 6) {
        bits.extend(0..(n.min(80) * 8));
        if n > 80 {
            bits.extend(((n - 32) * 8)..(n * 8));
        }
    } else {
        for _ in 0..12 {
            bits.push((vlen * 8) + rng.usize(256));
        }
        // make sure both halves of the MAC are hit
        bits.push(vlen * 8 + rng.usize(128));
        bits.push(vlen * 8 + 128 + rng.usize(128));
        bits.push(n * 8 - 1);
        bits.push(vlen * 8);
        for _ in 0..8 {
            if vlen > 0 {
                bits.push(rng.usize(vlen * 8));
            }
        }
    }
    bits.sort();
    bits.dedup();
    for bit in bits {
        let mut m = blob.clone();
        m[bit / 8] ^= 1 << (bit % 8);
        if bit / 8 >= vlen {
            let half = if bit / 8 - vlen < 16 { "first-half" } else { "second-half" };
            present(r, c, "mac-bitflip", "value-hmac:mac-bitflip-accepted", base, &b.key, b.ver, &m,
                    json!({"bit": bit, "mac_byte": bit / 8 - vlen, "mac_half": half}));
        } else {
            present(r, c, "content-bitflip", "value-hmac:content-bitflip-accepted", base, &b.key, b.ver, &m, json!({"bit": bit}));
        }
    }

    // truncations (tail and head)
    let mut cuts: Vec<usize> = if n <= 80 { (0..n).collect() } else {
        let mut v = vec![0, 1, 31, 32, 33, n - 33, n - 32, n - 31, n - 16, n - 1];
        for _ in 0..10 { v.push(rng.usize(n)); }
        v
    };
    cuts.sort();
    cuts.dedup();
    for l in cuts {
        present(r, c, "truncation", "value-hmac:truncation-accepted", base, &b.key, b.ver, &blob[..l], json!({"kept_prefix_len": l, "of": n}));
    }
    for t in [1usize, 2, 8, 16, 32, 33] {
        if t < n {
            present(r, c, "truncation", "value-hmac:truncation-accepted", base, &b.key, b.ver, &blob[t..], json!({"dropped_head_len": t, "of": n}));
        }
    }
    // the MAC alone with the content removed (only legitimate when the content was empty)
    if vlen > 0 {
        present(r, c, "truncation", "value-hmac:truncation-accepted", base, &b.key, b.ver, &blob[vlen..], json!({"content_removed": true}));
    }

    // extensions
    let mac = &blob[vlen..];
    let mut exts: Vec<(Vec<u8>, &str)> = vec![];
    for x in [vec![0u8], vec![rng.below(256) as u8], rng.vec(3), rng.vec(32)] {
        let mut m = blob.clone();
        m.extend_from_slice(&x);
        exts.push((m, "append"));
        let mut m = x.clone();
        m.extend_from_slice(blob);
        exts.push((m, "prepend"));
        let mut m = b.val.clone();
        m.extend_from_slice(&x);
        m.extend_from_slice(mac);
        exts.push((m, "insert-before-mac"));
    }
    let mut m = blob.clone();
    m.extend_from_slice(mac);
    exts.push((m, "mac-twice"));
    let mut m = blob.clone();
    m.extend_from_slice(blob);
    exts.push((m, "blob-twice"));
    for (m, how) in exts {
        present(r, c, "extension", "value-hmac:extension-accepted", base, &b.key, b.ver, &m, json!({"extension": how}));
    }

    // key swaps
    let mut keys: Vec<String> = recs.iter().map(|(x, _)| x.key.clone()).collect();
    keys.push(format!("{}a", b.key));
    keys.push(format!("{}\0", b.key));
    keys.push(format!("a{}", b.key));
    keys.push(String::new());
    keys.push(b.key.to_uppercase());
    if let Some((idx, _)) = b.key.char_indices().last() {
        keys.push(b.key[..idx].to_string());
        let mut k2: Vec<char> = b.key.chars().collect();
        let p = rng.usize(k2.len());
        k2[p] = if k2[p] == 'z' { 'y' } else { 'z' };
        keys.push(k2.into_iter().collect());
    }
    keys.sort();
    keys.dedup();
    for k in keys.iter().filter(|k| **k != b.key) {
        present(r, c, "key-swap", "value-hmac:key-swap-accepted", base, k, b.ver, blob, json!({"key_used": printable(k.as_bytes())}));
    }

    // version swaps
    let v0 = b.ver;
    let mut vers: Vec<u64> = recs.iter().map(|(x, _)| x.ver).collect();
    vers.extend([
        v0.wrapping_add(1), v0.wrapping_sub(1), 0, 1, (v0 as i64).wrapping_neg() as u64, v0 ^ (1 << 63), v0.swap_bytes(),
        v0 << 8, v0 >> 8, !v0, v0 ^ (1 << rng.below(64)), v0 & 0xffff_ffff, rng.next_u64(),
    ]);
    vers.sort();
    vers.dedup();
    for v in vers.into_iter().filter(|v| *v != v0) {
        present(r, c, "version-swap", "value-hmac:version-swap-accepted", base, &b.key, v, blob, json!({"version_used": v as i64}));
    }

    // swaps with the other records of the context (stored blob of j shown for record i)
    for (j, (o, oblob)) in recs.iter().enumerate() {
        if j == i {
            continue;
        }
        let how = json!({"blob_of": rec_json(o)});
        present(r, c, "content-swap", "value-hmac:content-swap-accepted", base, &b.key, b.ver, oblob, how.clone());
        present(r, c, "key-swap", "value-hmac:key-swap-accepted", base, &b.key, o.ver, oblob, how.clone());
        present(r, c, "version-swap", "value-hmac:version-swap-accepted", base, &o.key, b.ver, oblob, how);
    }

    // forgeries made with another secret (attacker does not know ours)
    for (content, how) in [(b.val.clone(), "same-content"), (gen_value(rng), "other-content")] {
        let mut f = LssValue { version: b.ver as i64, value: content };
        prepare_value_for_put(forge_secret, &b.key, &mut f);
        present(r, c, "forged-other-secret", "value-hmac:forged-with-other-secret-accepted", base, &b.key, b.ver, &f.value,
                json!({"forged_with_secret_hex": hex::encode(forge_secret), "content": how}));
    }

    // random blobs
    for _ in 0..3 {
        let l = *rng.pick(&[0usize, 5, 31, 32, 33, 64, 70]);
        let m = rng.vec(l);
        present(r, c, "random-blob", "value-hmac:random-blob-accepted", base, &b.key, b.ver, &m, json!(null));
    }

    // field-boundary shifts: the same bytes key|version|value read with the cut elsewhere
    for p in reparses(b, 28, rng) {
        let mut m = p.val.clone();
        m.extend_from_slice(mac);
        let dir = if p.key.len() < b.key.len() { "key-bytes-into-version" } else { "version-bytes-into-key" };
        let shift = p.key.len() as i64 - b.key.len() as i64;
        r.count(&format!("value.boundary-shift.{}", dir));
        let acc = present(r, c, "boundary-shift", "value-hmac:key-version-boundary-shift", base, &p.key, p.ver, &m,
                          json!({"direction": dir, "key_length_change": shift,
                                 "same_byte_string_hex": hex::encode({ let mut s = vec![]; stream_of(b, &mut s); s }),
                                 "reading": rec_json(&p)}));
        if acc == Some(true) {
            r.count(&format!("value.boundary-shift.{}.accepted", dir));
            r.distinct_str(&format!("A:shift:{}:{}", dir, shift.clamp(-9, 9)));
        }
    }
}

fn value_context(r: &mut Report, rng: &mut Rng, place: Value, fixed: Option<(Vec<u8>, Vec<Rec>)>) {
    let (secret, base_recs) = match fixed {
        Some(f) => f,
        None => {
            let secret = gen_secret(rng);
            let n = rng.range(3, 6) as usize;
            let mut v: Vec<Rec> = vec![];
            for _ in 0..n {
                if !v.is_empty() && rng.chance(1, 3) {
                    // a later version of an existing key (replay material)
                    let o = rng.pick(&v).clone();
                    let val = if rng.bool() { gen_value(rng) } else { o.val.clone() };
                    v.push(Rec { key: o.key, ver: o.ver.wrapping_add(1 + rng.below(2)), val });
                } else {
                    v.push(gen_rec(rng));
                }
            }
            (secret, v)
        }
    };
    let mut forge_secret = rng.vec(secret.len().max(1));
    if rng.chance(1, 4) && !secret.is_empty() {
        forge_secret = secret.clone();
        let p = rng.usize(forge_secret.len());
        forge_secret[p] ^= 1 << rng.below(8);
    }
    let mut written: HashMap<Rec, Vec<u8>> = HashMap::new();
    let mut recs: Vec<(Rec, Vec<u8>)> = vec![];
    for b in base_recs {
        if written.contains_key(&b) {
            continue;
        }
        let mut v = LssValue { version: b.ver as i64, value: b.val.clone() };
        match report::catch(|| prepare_value_for_put(&secret, &b.key, &mut v)) {
            Ok(()) => {}
            Err(p) => {
                r.note(&format!("prepare_value_for_put panicked: {}", p));
                r.count("value.prepare.panic");
                continue;
            }
        }
        r.count("value.prepared");
        if v.value.len() != b.val.len() + 32 || v.value[..b.val.len()] != b.val[..] {
            // the boundary-shift generator assumes "content || 32-byte MAC" (no `crypt`)
            r.count("value.prepared.not_plain_content_plus_mac");
        }
        written.insert(b.clone(), v.value.clone());
        recs.push((b, v.value));
    }
    let c = VCtx { secret: &secret, written: &written, place };
    for i in 0..recs.len() {
        mutate_one(r, rng, &c, &recs, i, &forge_secret);
    }
    if r.samples.len() < 2 {
        if let Some((b, blob)) = recs.first() {
            r.sample(json!({"monitor": "A per-value", "secret_hex": hex::encode(&secret), "written": rec_json(b),
                            "stored_blob_hex": hex::encode(blob), "records_in_context": recs.len()}));
        }
    }
}

// ---------------------------------------------------------------------------------------------
// B. per-value tag table

struct ValueTable {
    secret: Vec<u8>,
    map: HashMap<[u8; 32], usize>,
    recs: Vec<Rec>,
    place: Value,
}

impl ValueTable {
    fn new(secret: Vec<u8>, place: Value) -> Self {
        ValueTable { secret, map: HashMap::new(), recs: vec![], place }
    }

    fn write(&mut self, r: &mut Report, b: Rec, origin: &str) {
        r.eval(1);
        let mut v = LssValue { version: b.ver as i64, value: b.val.clone() };
        if let Err(p) = report::catch(|| prepare_value_for_put(&self.secret, &b.key, &mut v)) {
            r.note(&format!("prepare_value_for_put panicked: {}", p));
            return;
        }
        if v.value.len() < 32 {
            r.count("valuetable.short_blob");
            return;
        }
        r.count("valuetable.written");
        r.count(&format!("valuetable.written.{}", origin));
        let mut mac = [0u8; 32];
        mac.copy_from_slice(&v.value[v.value.len() - 32..]);
        let idx = self.recs.len();
        self.recs.push(b);
        let b = &self.recs[idx];
        match self.map.get(&mac) {
            None => {
                self.map.insert(mac, idx);
                r.distinct_str(&format!("B:{}:fresh:{}:{}", origin, len_class(b.key.len()), len_class(b.val.len())));
            }
            Some(&j) => {
                let a = &self.recs[j];
                if a == b {
                    r.count("valuetable.same_triple_again");
                    return;
                }
                let mut sa = vec![];
                stream_of(a, &mut sa);
                let mut sb = vec![];
                stream_of(b, &mut sb);
                let shape = if sa == sb { "key-version-boundary-shift" } else { "tag-collision-distinct-stream" };
                r.count(&format!("valuetable.collision.{}", shape));
                r.count(&format!("valuetable.collision.{}.{}", shape, origin));
                r.distinct_str(&format!("B:{}:collision:{}:{}", origin, shape, (a.key.len() as i64 - b.key.len() as i64).clamp(-9, 9)));
                violate(r, &format!("value-hmac:{}", if sa == sb { shape } else { "tag-collision-distinct-stream" }), || json!({
                        "entry": "lightning_storage_server::util::prepare_value_for_put (crate built without `crypt`)",
                        "why": "two different (key, version, content) triples written under the same secret carry the same 32-byte MAC, so the stored blob of one is accepted as the other",
                        "observed_by": "tag table over all triples written in this context",
                        "secret_hex": hex::encode(&self.secret),
                        "mac_hex": hex::encode(mac),
                        "first": rec_json(a),
                        "second": rec_json(b),
                        "same_byte_string": sa == sb,
                        "byte_string_hex": hex::encode(&sa),
                        "generator": origin,
                        "place": self.place,
                    }));
            }
        }
    }
}

fn value_table_context(r: &mut Report, rng: &mut Rng, place: Value, n_small: u64, n_targeted: u64, n_plain: u64) {
    let mut t = ValueTable::new(gen_secret(rng), place);
    for _ in 0..n_small {
        let b = gen_small_rec(rng, 3, 8);
        t.write(r, b, "small-alphabet-random");
    }
    for _ in 0..n_targeted {
        let b = gen_rec(rng);
        let ps = reparses(&b, 6, rng);
        t.write(r, b, "targeted-base");
        for p in ps {
            r.count("valuetable.same_stream_pairs_generated");
            t.write(r, p, "targeted-reparse");
        }
    }
    for _ in 0..n_plain {
        // near misses that must all differ: same key/value with neighbouring versions, etc.
        let b = gen_rec(rng);
        let mut o = b.clone();
        match rng.below(4) {
            0 => o.ver = o.ver.wrapping_add(1),
            1 => o.key.push('a'),
            2 => o.val.push(0),
            _ => {
                if !o.val.is_empty() {
                    let p = rng.usize(o.val.len());
                    o.val[p] ^= 1 << rng.below(8);
                } else {
                    o.val.push(1)
                }
            }
        }
        t.write(r, b, "plain");
        t.write(r, o, "plain-neighbour");
    }
}

// ---------------------------------------------------------------------------------------------
// C. shared tag table

struct FixedEntropy(Mutex<Vec<[u8; 32]>>);

impl EntropySource for FixedEntropy {
    fn get_secure_random_bytes(&self) -> [u8; 32] {
        let mut q = self.0.lock().unwrap();
        if q.is_empty() {
            [0xEE; 32]
        } else {
            q.remove(0)
        }
    }
}

const DOMAIN_NAMES: [&str; 3] = ["client_hmac(nonce 0x01)", "server_hmac(nonce 0x02)", "get-response tag (fresh 32-byte nonce)"];

struct SharedCtx {
    secret: [u8; 32],
    nonce: [u8; 32],
    /// behind a RefCell so that the driver compiles whether the helper's methods take `&self` or `&mut self`
    helper: std::cell::RefCell<ExternalPersistHelper>,
    lists: Vec<(Vec<Rec>, &'static str)>,
    core: HashMap<[u8; 32], (usize, usize)>, // tag -> (domain, list index)
    lss: HashMap<Vec<u8>, usize>,
    place: Value,
}

impl SharedCtx {
    fn new(r: &mut Report, secret: [u8; 32], nonce: [u8; 32], place: Value) -> Self {
        let mut helper = ExternalPersistHelper::new(secret);
        let got = helper.new_nonce(&FixedEntropy(Mutex::new(vec![nonce])));
        if got != nonce {
            r.inconclusive("new_nonce did not return the entropy source's bytes");
        }
        SharedCtx { secret, nonce, helper: std::cell::RefCell::new(helper), lists: vec![], core: HashMap::new(), lss: HashMap::new(), place }
    }

    fn tag_in_domain(&self, l: &[Rec], d: usize) -> [u8; 32] {
        let m = to_mutations(l);
        match d {
            0 => self.helper.borrow_mut().client_hmac(&m),
            1 => self.helper.borrow_mut().server_hmac(&m),
            _ => compute_shared_hmac(&self.secret, &self.nonce, &m),
        }
    }

    /// returns the get-domain tag
    fn add(&mut self, r: &mut Report, list: Vec<Rec>, origin: &'static str) -> [u8; 32] {
        let muts = to_mutations(&list);
        let idx = self.lists.len();
        let tags = match report::catch(|| {
            let c = self.helper.borrow_mut().client_hmac(&muts);
            let sv = self.helper.borrow_mut().server_hmac(&muts);
            [c, sv, compute_shared_hmac(&self.secret, &self.nonce, &muts)]
        }) {
            Ok(t) => t,
            Err(p) => {
                r.note(&format!("shared hmac panicked: {}", p));
                return [0; 32];
            }
        };
        r.eval(1);
        r.count("shared.lists");
        r.count(&format!("shared.lists.{}", origin));
        // the honest response must authenticate (otherwise the monitor would be vacuous)
        if self.helper.borrow_mut().check_hmac(&muts, tags[2].to_vec()) {
            r.count("shared.honest_get_tag.accepted");
        } else {
            r.count("shared.honest_get_tag.REFUSED");
        }
        let lss_tag = lss_compute_shared_hmac(&self.secret, &self.nonce, &to_lss(&list));
        if lss_tag.as_slice() == &tags[2][..] {
            r.count("shared.lss_tag_equals_core_tag");
        } else {
            r.count("shared.lss_tag_differs_from_core_tag");
        }
        self.lists.push((list, origin));
        let mut any_collision = false;
        // one report per colliding pair of lists, naming every nonce domain in which it collides
        let mut same_domain: Vec<(usize, Vec<usize>)> = vec![]; // (earlier list, domains)
        for (d, tag) in tags.iter().enumerate() {
            match self.core.get(tag).copied() {
                None => {
                    self.core.insert(*tag, (d, idx));
                }
                Some((d2, j)) if d2 != d => {
                    any_collision |= self.collision(r, "shared-hmac", true, &[d2, d], j, idx, tag);
                }
                Some((_, j)) => match same_domain.iter_mut().find(|(jj, _)| *jj == j) {
                    Some((_, ds)) => ds.push(d),
                    None => same_domain.push((j, vec![d])),
                },
            }
        }
        for (j, ds) in same_domain {
            any_collision |= self.collision(r, "shared-hmac", false, &ds, j, idx, &tags[ds[0]]);
        }
        match self.lss.get(&lss_tag).copied() {
            None => {
                self.lss.insert(lss_tag.clone(), idx);
            }
            Some(j) => {
                self.collision(r, "lss-shared-hmac", false, &[2], j, idx, &lss_tag);
            }
        }
        let l = &self.lists[idx].0;
        r.distinct_str(&format!("C:{}:{}:{}:{}", origin, l.len().min(6), any_collision,
                                l.iter().map(|x| len_class(x.val.len()) as usize).max().unwrap_or(9)));
        tags[2]
    }

    /// `domains`: for a cross-nonce collision [domain of the earlier list, domain of the later one];
    /// otherwise every nonce domain in which the two lists share their tag (`tag` = the first of them)
    fn collision(&self, r: &mut Report, prefix: &str, cross: bool, domains: &[usize], ia: usize, ib: usize, tag: &[u8]) -> bool {
        let (a, oa) = (&self.lists[ia].0, self.lists[ia].1);
        let (b, ob) = (&self.lists[ib].0, self.lists[ib].1);
        if cross {
            let (d_a, d_b) = (domains[0], domains[1]);
            r.count(&format!("{}.collision.cross-nonce", prefix));
            violate(r, &format!("{}:cross-nonce-collision", prefix), || json!({"why": "tags computed under different nonces are equal, so a tag made for one request authenticates under another",
                       "secret_hex": hex::encode(self.secret), "nonce_hex": hex::encode(self.nonce), "tag_hex": hex::encode(tag),
                       "first": {"domain": DOMAIN_NAMES[d_a], "list": list_json(a)}, "second": {"domain": DOMAIN_NAMES[d_b], "list": list_json(b)},
                       "place": self.place}));
            return true;
        }
        if a == b {
            r.count(&format!("{}.same_list_again", prefix));
            return false;
        }
        if as_set(a) == as_set(b) {
            // same set of records listed in another order / multiplicity: not "two different sets"
            r.count(&format!("{}.same_set_other_listing_same_tag(not judged)", prefix));
            return false;
        }
        let shape = classify_lists(a, b);
        r.count(&format!("{}.collision.{}", prefix, shape));
        for d in domains {
            r.count(&format!("{}.collision.{}.{}", prefix, shape, ["client", "server", "get"][*d]));
        }
        r.set_add(&format!("{}.collision_generators", prefix), &format!("{}: {} vs {}", shape, oa, ob));
        r.distinct_str(&format!("C:collision:{}:{}:{}:{}:{}", prefix, shape, domains.len(), a.len().min(5), b.len().min(5)));
        let confirm = if prefix == "shared-hmac" && domains.contains(&2) {
            // observe point: the signer-side check accepts list b with the tag the server made for list a
            let ta = compute_shared_hmac(&self.secret, &self.nonce, &to_mutations(a));
            Some(self.helper.borrow_mut().check_hmac(&to_mutations(b), ta.to_vec()))
        } else {
            None
        };
        violate(r, &format!("{}:{}", prefix, shape), || json!({
                "entry": if prefix == "shared-hmac" { "lightning_signer::persist::{ExternalPersistHelper, compute_shared_hmac}" } else { "lightning_storage_server::util::compute_shared_hmac" },
                "why": "two lists with different sets of (key, version, value) records authenticate under the same tag with the same secret and nonce",
                "observed_by": "tag table over all lists of this (secret, nonce) context",
                "collides_in": domains.iter().map(|d| json!({"domain": DOMAIN_NAMES[*d], "tag_hex": hex::encode(self.tag_in_domain(a, *d))})).collect::<Vec<_>>(),
                "secret_hex": hex::encode(self.secret),
                "nonce_hex": hex::encode(self.nonce),
                "first_list": list_json(a), "first_generator": oa,
                "second_list": list_json(b), "second_generator": ob,
                "same_byte_stream": stream(a) == stream(b),
                "byte_stream_hex_of_first": hex::encode(stream(a)),
                "check_hmac(second_list, tag_of_first_list)": confirm,
                "place": self.place,
            }));
        true
    }
}

/// Targeted mutants of a base list: (kind, list, expected to keep the byte stream)
fn structural_mutants(base: &[Rec], rng: &mut Rng) -> Vec<(&'static str, Vec<Rec>)> {
    let mut out: Vec<(&'static str, Vec<Rec>)> = vec![];
    let n = base.len();
    // merge record i+1 into the value of record i
    for i in 0..n.saturating_sub(1) {
        let mut l = base.to_vec();
        let nx = l.remove(i + 1);
        stream_of(&nx, &mut l[i].val);
        out.push(("merge", l));
    }
    // merge everything into the first record
    if n >= 3 {
        let mut first = base[0].clone();
        for x in &base[1..] {
            stream_of(x, &mut first.val);
        }
        out.push(("merge-all", vec![first]));
    }
    // split a record inside its value
    for i in 0..n {
        let v = &base[i].val;
        if v.len() < 8 {
            continue;
        }
        for _ in 0..3 {
            let j = rng.usize(v.len() - 8 + 1);
            let room = v.len() - 8 - j;
            let lens: Vec<usize> = utf8_prefix_lengths(&v[j..]).into_iter().filter(|m| *m <= room && *m <= 6).collect();
            let m = *rng.pick(&lens);
            let mut vb = [0u8; 8];
            vb.copy_from_slice(&v[j + m..j + m + 8]);
            let mut l = base.to_vec();
            let tail = Rec { key: String::from_utf8(v[j..j + m].to_vec()).unwrap(), ver: u64::from_be_bytes(vb), val: v[j + m + 8..].to_vec() };
            l[i].val.truncate(j);
            l.insert(i + 1, tail);
            out.push(("split", l));
        }
    }
    // move bytes across the boundary between adjacent records
    for i in 0..n.saturating_sub(1) {
        // tail of value i -> head of key i+1
        let v = &base[i].val;
        for t in 1..=v.len().min(4) {
            if let Ok(s) = std::str::from_utf8(&v[v.len() - t..]) {
                let mut l = base.to_vec();
                l[i + 1].key = format!("{}{}", s, l[i + 1].key);
                l[i].val.truncate(v.len() - t);
                out.push(("move-value-tail-to-next-key", l));
            }
        }
        // head of key i+1 -> tail of value i
        let k = &base[i + 1].key;
        let cuts: Vec<usize> = k.char_indices().map(|(p, _)| p).skip(1).chain(std::iter::once(k.len())).filter(|p| *p > 0).collect();
        for t in cuts.into_iter().take(4) {
            let mut l = base.to_vec();
            l[i].val.extend_from_slice(k[..t].as_bytes());
            l[i + 1].key = k[t..].to_string();
            out.push(("move-next-key-head-to-value", l));
        }
    }
    // boundary shift inside one record
    for i in 0..n {
        for p in reparses(&base[i], 4, rng) {
            let mut l = base.to_vec();
            l[i] = p;
            out.push(("reparse-in-record", l));
        }
    }
    // arbitrary other parses of the very same byte stream
    let s = stream(base);
    for _ in 0..4 {
        if let Some(l) = random_parse(&s, rng) {
            out.push(("random-reparse", l));
        }
    }
    // reorderings (same set: generated for the table, never judged against the base)
    if n >= 2 {
        let mut l = base.to_vec();
        l.reverse();
        out.push(("reorder", l));
        let mut l = base.to_vec();
        rng.shuffle(&mut l);
        out.push(("reorder", l));
        // reorder then merge
        let mut l = base.to_vec();
        l.swap(0, n - 1);
        let nx = l.remove(1);
        stream_of(&nx, &mut l[0].val);
        out.push(("reorder-then-merge", l));
    }
    // edits that change the set and must change the tag
    if n >= 1 {
        let i = rng.usize(n);
        let mut l = base.to_vec();
        l[i].ver = l[i].ver.wrapping_add(1);
        out.push(("edit-version", l));
        let mut l = base.to_vec();
        l[i].ver ^= 1 << rng.below(64);
        out.push(("edit-version", l));
        let mut l = base.to_vec();
        if l[i].val.is_empty() {
            l[i].val.push(0);
        } else {
            let p = rng.usize(l[i].val.len());
            l[i].val[p] ^= 1 << rng.below(8);
        }
        out.push(("edit-value", l));
        let mut l = base.to_vec();
        l[i].key.push('a');
        out.push(("edit-key", l));
        let mut l = base.to_vec();
        l[i].val.clear();
        out.push(("empty-value", l));
        let mut l = base.to_vec();
        l[i].key.clear();
        out.push(("empty-key", l));
        let mut l = base.to_vec();
        l.remove(i);
        out.push(("drop-record", l));
        let mut l = base.to_vec();
        l.push(rec("", 0, b""));
        out.push(("append-empty-record", l));
        let mut l = base.to_vec();
        let d = l[i].clone();
        l.push(Rec { ver: d.ver.wrapping_add(1), ..d });
        out.push(("append-next-version", l));
    }
    if n >= 2 {
        let i = rng.usize(n - 1);
        let mut l = base.to_vec();
        let (a, b) = (l[i].key.clone(), l[i + 1].key.clone());
        l[i].key = b;
        l[i + 1].key = a;
        out.push(("swap-keys", l));
        let mut l = base.to_vec();
        let (a, b) = (l[i].ver, l[i + 1].ver);
        l[i].ver = b;
        l[i + 1].ver = a;
        out.push(("swap-versions", l));
        let mut l = base.to_vec();
        let (a, b) = (l[i].val.clone(), l[i + 1].val.clone());
        l[i].val = b;
        l[i + 1].val = a;
        out.push(("swap-values", l));
    }
    out
}

fn gen_list(rng: &mut Rng) -> Vec<Rec> {
    let n = match rng.below(10) {
        0 => 0,
        1 | 2 => 1,
        3 | 4 | 5 => 2,
        6 | 7 => 3,
        _ => rng.range(4, 6),
    } as usize;
    (0..n).map(|_| gen_rec(rng)).collect()
}

fn add_family(r: &mut Report, rng: &mut Rng, c: &mut SharedCtx, base: Vec<Rec>) {
    let base_tag = c.add(r, base.clone(), "base");
    let base_stream = stream(&base);
    for (kind, m) in structural_mutants(&base, rng) {
        if m == base {
            continue;
        }
        let same_set = as_set(&m) == as_set(&base);
        let same_stream = stream(&m) == base_stream;
        r.count(&format!("shared.mutant.{}", kind));
        if same_stream && !same_set {
            r.count("shared.same_stream_pairs_generated");
            r.count(&format!("shared.mutant.{}.same_stream_other_set", kind));
        }
        let tag = c.add(r, m, kind);
        if tag == base_tag {
            r.count(&format!("shared.mutant.{}.tag_equals_base", kind));
        } else {
            r.count(&format!("shared.mutant.{}.tag_differs", kind));
        }
    }
}

fn shared_context(r: &mut Report, rng: &mut Rng, place: Value, families: u64, small: u64) {
    let mut c = SharedCtx::new(r, rng.bytes::<32>(), rng.bytes::<32>(), place);
    for _ in 0..families {
        let base = gen_list(rng);
        add_family(r, rng, &mut c, base);
    }
    for _ in 0..small {
        let n = rng.range(1, 3);
        let l: Vec<Rec> = (0..n).map(|_| gen_small_rec(rng, 2, 10)).collect();
        c.add(r, l, "small-alphabet-random");
    }
    if r.samples.len() < 4 {
        if let Some((l, o)) = c.lists.get(1) {
            r.sample(json!({"monitor": "C shared tag table", "secret_hex": hex::encode(c.secret), "nonce_hex": hex::encode(c.nonce),
                            "lists_in_context": c.lists.len(), "base": list_json(&c.lists[0].0), "one_mutant": {"generator": o, "list": list_json(l)}}));
        }
    }
}

// ---------------------------------------------------------------------------------------------
// D. nonce freshness

struct Production {
    nonce: Vec<u8>,
    list: Vec<Rec>,
    tag: [u8; 32],
    what: &'static str,
}

struct Session<'a> {
    helper: &'a std::cell::RefCell<ExternalPersistHelper>,
    secret: [u8; 32],
    current: [u8; 32],
    produced: &'a [Production],
    place: Value,
    step: u64,
}

/// check_hmac accepted => some production under the *current* nonce with the same record set has that tag
fn show(r: &mut Report, s: &Session, kind: &str, sig: &str, list: &[Rec], tag: &[u8], how: Value) -> Option<bool> {
    r.eval(1);
    r.count(&format!("check.{}.presented", kind));
    let muts = to_mutations(list);
    let res = report::catch(|| s.helper.borrow_mut().check_hmac(&muts, tag.to_vec()));
    let outcome;
    let ret = match res {
        Err(p) => {
            r.count(&format!("check.{}.panic", kind));
            r.note(&format!("check_hmac panicked ({}): {}", kind, p));
            outcome = "panic";
            None
        }
        Ok(false) => {
            r.count(&format!("check.{}.refused", kind));
            outcome = "refused";
            Some(false)
        }
        Ok(true) => {
            let legit = s.produced.iter().any(|p| p.nonce == s.current && p.tag[..] == tag[..] && as_set(&p.list) == as_set(list));
            if legit {
                r.count(&format!("check.{}.accepted_fresh", kind));
                outcome = "accepted-fresh";
            } else {
                r.count(&format!("check.{}.accepted_NOT_fresh", kind));
                outcome = "accepted-not-fresh";
                // a modified list accepted with the honest fresh tag is a tag collision: name its shape
                let sig: String = if kind == "modified-list" {
                    match s.produced.iter().rev().find(|p| p.nonce == s.current && p.tag[..] == tag[..]) {
                        Some(p) => format!("shared-hmac:{}", classify_lists(&p.list, list)),
                        None => sig.to_string(),
                    }
                } else {
                    sig.to_string()
                };
                violate(r, &sig, || json!({
                        "entry": "lightning_signer::persist::ExternalPersistHelper::check_hmac",
                        "why": "accepted a (list, tag) that no holder of the secret produced for the current nonce and this record set",
                        "presentation": kind,
                        "how": how,
                        "secret_hex": hex::encode(s.secret),
                        "current_nonce_hex": hex::encode(s.current),
                        "presented_list": list_json(list),
                        "presented_tag_hex": hex::encode(tag),
                        "productions_with_this_tag": s.produced.iter().filter(|p| p.tag[..] == tag[..]).map(|p| json!({"nonce_hex": hex::encode(&p.nonce), "what": p.what, "list": list_json(&p.list)})).collect::<Vec<_>>(),
                        "step": s.step,
                        "place": s.place,
                    }));
            }
            Some(true)
        }
    };
    r.distinct_str(&format!("D:{}:{}:{}:{}", kind, outcome, list.len().min(4), tag.len().min(40)));
    ret
}

fn nonce_session(r: &mut Report, rng: &mut Rng, place: Value, steps: u64) {
    let secret = rng.bytes::<32>();
    let other_secret = rng.bytes::<32>();
    let helper = std::cell::RefCell::new(ExternalPersistHelper::new(secret));
    let mut produced: Vec<Production> = vec![];
    let mut history: Vec<([u8; 32], Vec<Rec>, [u8; 32])> = vec![]; // (nonce, list, honest tag)
    for step in 0..steps {
        let nonce = rng.bytes::<32>();
        let got = helper.borrow_mut().new_nonce(&FixedEntropy(Mutex::new(vec![nonce])));
        if got != nonce {
            r.inconclusive("new_nonce did not return the entropy source's bytes");
            return;
        }
        r.count("check.requests");
        // what the store holds: usually the same list as last time (stale responses are then
        // byte-identical except for the nonce), sometimes changed
        let list = match history.last() {
            Some((_, l, _)) if rng.chance(1, 2) => l.clone(),
            Some((_, l, _)) if rng.chance(1, 2) && !l.is_empty() => {
                let mut l = l.clone();
                let i = rng.usize(l.len());
                l[i].ver = l[i].ver.wrapping_add(1);
                l[i].val = gen_value(rng);
                l
            }
            _ => gen_list(rng),
        };
        let muts = to_mutations(&list);
        let tag = compute_shared_hmac(&secret, &nonce, &muts); // the honest server
        produced.push(Production { nonce: nonce.to_vec(), list: list.clone(), tag, what: "get response" });
        // tags the client/server legitimately make for puts of the same data
        let ctag = helper.borrow_mut().client_hmac(&muts);
        let stag = helper.borrow_mut().server_hmac(&muts);
        produced.push(Production { nonce: vec![0x01], list: list.clone(), tag: ctag, what: "client_hmac of a put" });
        produced.push(Production { nonce: vec![0x02], list: list.clone(), tag: stag, what: "server_hmac of a put" });

        let s = Session { helper: &helper, secret, current: nonce, produced: &produced, place: place.clone(), step };

        if show(r, &s, "honest", "check-hmac:honest-not-fresh", &list, &tag, json!(null)) != Some(true) {
            r.count("check.honest.NOT_accepted");
        }
        // replays of earlier responses (previous one in particular)
        let hl = history.len();
        for (age, (n_old, l_old, t_old)) in history.iter().rev().enumerate().take(4) {
            let which = if age == 0 { "previous" } else { "older" };
            r.count(&format!("check.stale.{}", which));
            show(r, &s, "stale", "check-hmac:stale-nonce-accepted", l_old, t_old, json!({"age_in_requests": age + 1, "stale_nonce_hex": hex::encode(n_old), "which": which}));
            // old tag with the current list (differs from the above only when the data changed)
            if *l_old != list {
                show(r, &s, "stale", "check-hmac:stale-nonce-accepted", &list, t_old, json!({"age_in_requests": age + 1, "stale_nonce_hex": hex::encode(n_old), "which": which, "with": "current list"}));
            }
        }
        if hl > 6 {
            let (n_old, l_old, t_old) = &history[rng.usize(hl - 4)];
            r.count("check.stale.older");
            show(r, &s, "stale", "check-hmac:stale-nonce-accepted", l_old, t_old, json!({"stale_nonce_hex": hex::encode(n_old), "which": "older"}));
        }
        // put tags offered as get tags
        show(r, &s, "put-tag", "check-hmac:put-tag-accepted-as-get-tag", &list, &ctag, json!({"tag": "client_hmac"}));
        show(r, &s, "put-tag", "check-hmac:put-tag-accepted-as-get-tag", &list, &stag, json!({"tag": "server_hmac"}));
        // tags for other nonces
        let mut others: Vec<(Vec<u8>, &str)> = vec![(vec![0u8; 32], "all-zero (initial last_nonce)"), (rng.vec(32), "random"), (nonce[..31].to_vec(), "current minus last byte"), (vec![], "empty")];
        let mut n1 = nonce.to_vec();
        n1[rng.usize(32)] ^= 1 << rng.below(8);
        others.push((n1, "one bit flipped"));
        let mut n2 = nonce.to_vec();
        n2.push(0);
        others.push((n2, "current plus 0x00"));
        for (n, how) in others {
            if n == nonce {
                continue;
            }
            let t = compute_shared_hmac(&secret, &n, &muts);
            produced.push(Production { nonce: n.clone(), list: list.clone(), tag: t, what: "tag under another nonce" });
            let s = Session { helper: &helper, secret, current: nonce, produced: &produced, place: place.clone(), step };
            show(r, &s, "other-nonce", "check-hmac:other-nonce-accepted", &list, &t, json!({"nonce_used_hex": hex::encode(&n), "nonce_is": how}));
        }
        let s = Session { helper: &helper, secret, current: nonce, produced: &produced, place: place.clone(), step };
        // tag made with another secret under the right nonce
        let t = compute_shared_hmac(&other_secret, &nonce, &muts);
        show(r, &s, "other-secret", "check-hmac:other-secret-accepted", &list, &t, json!({"secret_used_hex": hex::encode(other_secret)}));
        // mangled tags
        let bits: Vec<usize> = if step % 8 == 0 { (0..256).collect() } else {
            vec![rng.usize(128), 128 + rng.usize(128), 0, 255, rng.usize(256)]
        };
        for bit in bits {
            let mut t = tag;
            t[bit / 8] ^= 1 << (bit % 8);
            show(r, &s, "tag-bitflip", "check-hmac:tag-bitflip-accepted", &list, &t, json!({"bit": bit, "tag_half": if bit < 128 { "first-half" } else { "second-half" }}));
        }
        for k in [0usize, 1, 8, 16, 31] {
            show(r, &s, "tag-truncated", "check-hmac:truncated-tag-accepted", &list, &tag[..k], json!({"kept": k}));
        }
        let mut t = tag.to_vec();
        t.push(0);
        show(r, &s, "tag-extended", "check-hmac:extended-tag-accepted", &list, &t, json!({"appended": "00"}));
        let mut t = tag.to_vec();
        t.extend_from_slice(&tag);
        show(r, &s, "tag-extended", "check-hmac:extended-tag-accepted", &list, &t, json!({"appended": "tag again"}));
        let mut t = tag;
        for x in t[16..].iter_mut() {
            *x = 0;
        }
        if t != tag {
            show(r, &s, "tag-bitflip", "check-hmac:tag-bitflip-accepted", &list, &t, json!({"second_half_zeroed": true}));
        }
        // modified lists with the fresh honest tag
        for (kind, m) in structural_mutants(&list, rng) {
            if as_set(&m) == as_set(&list) {
                continue;
            }
            r.count(&format!("check.modified-list.{}", kind));
            if show(r, &s, "modified-list", "check-hmac:modified-list-accepted", &m, &tag, json!({"modification": kind, "honest_list": list_json(&list)})) == Some(true) {
                r.count(&format!("check.modified-list.{}.accepted", kind));
            }
        }
        if step == 1 && r.samples.len() < 6 {
            r.sample(json!({"monitor": "D nonce freshness", "secret_hex": hex::encode(secret), "request": step, "nonce_hex": hex::encode(nonce),
                            "previous_nonce_hex": history.last().map(|h| hex::encode(h.0)), "list": list_json(&list), "honest_tag_hex": hex::encode(tag)}));
        }
        history.push((nonce, list, tag));
    }
}

// ---------------------------------------------------------------------------------------------
// literal cases (readable witnesses, run through the very same monitors before the random work)

// ---------------------------------------------------------------------------------------------
// E: restoring the signer's state from the external store (vls-util ExternalPersistWithHelper::init_state)
// ---------------------------------------------------------------------------------------------

#[derive(Clone, Copy, Debug, PartialEq)]
enum Tamper {
    Honest,
    /// every record stripped from the reply; the server's tag for the full reply kept
    DropAllKeepTag,
    /// every record stripped, tag recomputed by someone without the secret (random)
    DropAllRandomTag,
    /// every record stripped, empty tag
    DropAllEmptyTag,
    DropLast,
    SwapTwoValues,
    OlderVersionOfOne,
    /// the reply the server gave to an earlier request (other nonce)
    StaleReply,
}

struct FakeLss {
    secret: [u8; 32],
    records: Vec<Rec>,
    /// what the store held at the time of an earlier request, with the nonce of that request
    earlier: (Vec<u8>, Vec<Rec>),
    tamper: Tamper,
    rnd: [u8; 32],
}

#[async_trait::async_trait]
impl vls_frontend::external_persist::ExternalPersist for FakeLss {
    async fn put(&self, _mutations: Mutations, _client_hmac: &[u8]) -> Result<Vec<u8>, vls_frontend::external_persist::Error> {
        Err(vls_frontend::external_persist::Error::NotAvailable)
    }

    async fn get(&self, _key_prefix: String, nonce: &[u8]) -> Result<(Mutations, Vec<u8>), vls_frontend::external_persist::Error> {
        let honest = to_mutations(&self.records);
        let honest_tag = compute_shared_hmac(&self.secret, nonce, &honest).to_vec();
        let reply = |l: &[Rec], tag: Vec<u8>| Ok((to_mutations(l), tag));
        match self.tamper {
            Tamper::Honest => Ok((honest, honest_tag)),
            Tamper::DropAllKeepTag => reply(&[], honest_tag),
            Tamper::DropAllRandomTag => reply(&[], self.rnd.to_vec()),
            Tamper::DropAllEmptyTag => reply(&[], vec![]),
            Tamper::DropLast => reply(&self.records[..self.records.len() - 1], honest_tag),
            Tamper::SwapTwoValues => {
                let mut l = self.records.clone();
                let n = l.len();
                let v0 = l[0].val.clone();
                l[0].val = l[n - 1].val.clone();
                l[n - 1].val = v0;
                reply(&l, honest_tag)
            }
            Tamper::OlderVersionOfOne => {
                let mut l = self.records.clone();
                l[0].ver = l[0].ver.wrapping_sub(1);
                l[0].val = self.rnd[..5].to_vec();
                reply(&l, honest_tag)
            }
            Tamper::StaleReply => {
                let m = to_mutations(&self.earlier.1);
                let t = compute_shared_hmac(&self.secret, &self.earlier.0, &m).to_vec();
                Ok((m, t))
            }
        }
    }

    async fn info(&self) -> Result<vls_frontend::external_persist::Info, vls_frontend::external_persist::Error> {
        Err(vls_frontend::external_persist::Error::NotAvailable)
    }
}

/// One restore: the signer asks the store for its whole state under a fresh nonce and installs the reply only if
/// it authenticates.  The host between signer and store may hand over anything; whatever it hands over, the
/// state installed must be exactly what the store holds, or the restore must fail.
fn restore_session(r: &mut Report, rng: &mut Rng, place: Value) {
    let secret = rng.bytes::<32>();
    let mut records: Vec<Rec> = vec![];
    let mut keys = BTreeSet::new();
    for _ in 0..2 + rng.below(4) {
        let mut x = gen_small_rec(rng, 6, 12);
        if x.key.is_empty() || !keys.insert(x.key.clone()) {
            continue;
        }
        x.ver = 1 + rng.below(5);
        records.push(x);
    }
    if records.len() < 2 || records[0].val == records[records.len() - 1].val {
        r.count("restore.generator_skipped");
        return;
    }
    let mut earlier = records.clone();
    earlier[0].ver -= 1;
    earlier[0].val = rng.vec(4);
    let tampers = [Tamper::Honest, Tamper::DropAllKeepTag, Tamper::DropAllRandomTag, Tamper::DropAllEmptyTag, Tamper::DropLast, Tamper::SwapTwoValues, Tamper::OlderVersionOfOne, Tamper::StaleReply];
    for tamper in tampers {
        let lss = FakeLss { secret, records: records.clone(), earlier: (rng.vec(32), earlier.clone()), tamper, rnd: rng.bytes::<32>() };
        let state = std::sync::Arc::new(Mutex::new(std::collections::BTreeMap::new()));
        let st2 = state.clone();
        let res = report::catch(move || {
            let boxed: Box<dyn vls_frontend::external_persist::ExternalPersist> = Box::new(lss);
            let ep = vls_util::persist::ExternalPersistWithHelper {
                persist_client: std::sync::Arc::new(tokio::sync::Mutex::new(boxed)),
                state: st2,
                helper: ExternalPersistHelper::new(secret),
            };
            let rt = tokio::runtime::Builder::new_current_thread().build().expect("runtime");
            rt.block_on(ep.init_state());
        });
        r.eval(1);
        r.count(&format!("restore.{:?}.presented", tamper));
        let installed: Vec<Rec> = state.lock().unwrap_or_else(|e| e.into_inner()).iter().map(|(k, (ver, val))| Rec { key: k.clone(), ver: *ver, val: val.clone() }).collect();
        let mut want = records.clone();
        want.sort();
        let mut got = installed.clone();
        got.sort();
        r.distinct_str(&format!("E:{:?}:{}:{}", tamper, res.is_ok(), records.len().min(4)));
        match (&res, tamper) {
            (Ok(()), Tamper::Honest) => {
                r.count("restore.honest.accepted");
                if got != want {
                    violate(r, "restore:honest-reply-installed-differently", || json!({"place": place, "store": list_json(&records), "installed": list_json(&installed)}));
                }
            }
            (Err(p), Tamper::Honest) => {
                r.count("restore.honest.REFUSED");
                r.note(&format!("honest restore refused: {}", p.chars().take(100).collect::<String>()));
            }
            (Ok(()), t) => {
                // accepted although the reply is not what the store holds
                r.count(&format!("restore.{:?}.accepted", t));
                if got != want {
                    violate(r, &format!("restore:accepted-tampered-get-reply:{:?}", t), || json!({"place": place, "store": list_json(&records), "installed_state": list_json(&installed), "tampering": format!("{:?}", t)}));
                }
            }
            (Err(_), t) => r.count(&format!("restore.{:?}.refused", t)),
        }
    }
}

fn literal_cases(r: &mut Report) {
    let mut rng = Rng::new(17);
    let place = json!({"literal": true});
    // A: ("ab", 5, "Z") and ("a", 5, "hello")
    value_context(r, &mut rng, place.clone(), Some((vec![0x11; 32], vec![rec("ab", 5, b"Z"), rec("a", 5, b"hello")])));
    // B
    let mut t = ValueTable::new(vec![0x11; 32], place.clone());
    t.write(r, rec("ab", 5, b"Z"), "literal");
    t.write(r, rec("a", 0x6200_0000_0000_0000, b"\x05Z"), "literal");
    t.write(r, rec("a", 5, b"hello"), "literal");
    t.write(r, rec("a\0", 0x0568, b"ello"), "literal");
    // C
    let mut c = SharedCtx::new(r, [0x22; 32], [0x33; 32], place.clone());
    let mut merged = b"X".to_vec();
    stream_of(&rec("j", 2, b"Y"), &mut merged);
    c.add(r, vec![rec("k", 1, b"X"), rec("j", 2, b"Y")], "literal");
    c.add(r, vec![rec("k", 1, &merged)], "literal"); // record split / merge
    c.add(r, vec![rec("k", 1, b"Xa"), rec("b", 2, b"Y")], "literal");
    c.add(r, vec![rec("k", 1, b"X"), rec("ab", 2, b"Y")], "literal"); // bytes moved between adjacent records
    c.add(r, vec![rec("ab", 5, b"Z")], "literal");
    c.add(r, vec![rec("a", 0x6200_0000_0000_0000, b"\x05Z")], "literal"); // boundary shift inside a record
    c.add(r, vec![rec("", 7, b"")], "literal");
    c.add(r, vec![], "literal");
    // D
    nonce_session(r, &mut rng, place, 3);
}

fn main() {
    let cli = Cli::parse("C17");
    report::install_quiet_panic_hook();
    let start = Instant::now();
    let quick = cli.tier.is_quick();
    let shards = if quick { 16 } else { 64 };
    let value_ctx = cli.scaled(if quick { 60 } else { 300 });
    let table_ctx = cli.scaled(if quick { 6 } else { 20 });
    let shared_ctx = cli.scaled(if quick { 10 } else { 40 });
    let sessions = cli.scaled(if quick { 12 } else { 60 });

    let mut report = Report::new("C17");
    report.max_samples = 8;
    literal_cases(&mut report);

    let sharded = run_sharded("C17", cli.threads, shards, |i, r| {
        let mut rng = Rng::new(cli.seed.wrapping_mul(1_000_003).wrapping_add(i as u64));
        for c in 0..value_ctx {
            value_context(r, &mut rng, json!({"monitor": "A", "seed": cli.seed, "shard": i, "context": c}), None);
        }
        for c in 0..table_ctx {
            value_table_context(r, &mut rng, json!({"monitor": "B", "seed": cli.seed, "shard": i, "context": c}), 600, 120, 200);
        }
        for c in 0..shared_ctx {
            shared_context(r, &mut rng, json!({"monitor": "C", "seed": cli.seed, "shard": i, "context": c}), 40, 800);
        }
        for c in 0..sessions {
            nonce_session(r, &mut rng, json!({"monitor": "D", "seed": cli.seed, "shard": i, "session": c}), 12);
        }
        for c in 0..sessions * 4 {
            restore_session(r, &mut rng, json!({"monitor": "E", "seed": cli.seed, "shard": i, "session": c}));
        }
    });
    report.merge(sharded);

    // antecedents: every kind of presentation must have been made often enough
    for (k, min) in [
        ("restore.honest.accepted", 200),
        ("restore.DropAllKeepTag.presented", 200),
        ("restore.StaleReply.presented", 200),
        ("value.prepared", 500),
        ("value.honest.accepted_as_written", 500),
        ("value.mac-bitflip.presented", 5000),
        ("value.content-bitflip.presented", 2000),
        ("value.truncation.presented", 5000),
        ("value.extension.presented", 2000),
        ("value.key-swap.presented", 2000),
        ("value.version-swap.presented", 2000),
        ("value.content-swap.presented", 500),
        ("value.forged-other-secret.presented", 500),
        ("value.boundary-shift.presented", 2000),
        ("value.boundary-shift.key-bytes-into-version", 500),
        ("value.boundary-shift.version-bytes-into-key", 500),
        ("valuetable.written", 10_000),
        ("valuetable.same_stream_pairs_generated", 1000),
        ("shared.lists", 20_000),
        ("shared.honest_get_tag.accepted", 20_000),
        ("shared.same_stream_pairs_generated", 2000),
        ("shared.mutant.merge", 300),
        ("shared.mutant.split", 300),
        ("shared.mutant.move-value-tail-to-next-key", 100),
        ("shared.mutant.move-next-key-head-to-value", 300),
        ("shared.mutant.reparse-in-record", 300),
        ("shared.mutant.random-reparse", 300),
        ("shared.mutant.reorder", 300),
        ("shared.mutant.edit-version", 300),
        ("shared.mutant.swap-versions", 100),
        ("shared.lists.small-alphabet-random", 5000),
        ("check.requests", 500),
        ("check.honest.accepted_fresh", 500),
        ("check.stale.previous", 500),
        ("check.stale.older", 500),
        ("check.put-tag.presented", 500),
        ("check.other-nonce.presented", 500),
        ("check.tag-bitflip.presented", 2000),
        ("check.tag-truncated.presented", 500),
        ("check.modified-list.presented", 2000),
    ] {
        report.require(k, min);
    }
    for k in ["value.honest.NOT_accepted", "check.honest.NOT_accepted", "shared.honest_get_tag.REFUSED"] {
        if report.get(k) > 0 {
            report.inconclusive(&format!("'{}' = {}: honest data was refused, the monitors would be vacuous", k, report.get(k)));
        }
    }
    if report.get("value.prepared.not_plain_content_plus_mac") > 0 {
        report.inconclusive("prepare_value_for_put did not produce content||MAC: the crate seems to be built with `crypt`, which is not the workspace's feature set");
    }

    finish(
        report,
        FinishSpec {
            cli: &cli,
            level: "exploration",
            rule: "A: contexts of 3-6 records written with prepare_value_for_put under one secret; every single-bit flip (all bits for short blobs, sampled otherwise, both MAC halves), truncation, extension, key swap, version swap, cross-record swap, other-secret forgery, random blob and every re-reading key'|version'|value' of the same bytes is presented to process_value_from_get; accepted => (key, version, stored bytes) is exactly something written. B/C: tag tables keyed by MAC/tag over all triples/lists of a (secret[,nonce]) context (client_hmac, server_hmac, get tag, LSS compute_shared_hmac); lists = realistic bases + targeted mutants (merge, split, byte moves across record/field boundaries, random re-parse of the same stream, reorder, edits) + random lists over the alphabet {00,'a'}; equal tag with different record sets => violation named by shape. D: sessions of new_nonce/check_hmac; accepted => produced for the current nonce and the same record set. distinct = (monitor, presentation or generator kind, outcome, length classes / list length / collision shape)",
            assumptions: vec![
                "lightning-storage-server is linked with default-features = false (no `crypt`), as every crate of the /repo workspace links it".into(),
                "'the value fetched from storage is exactly what the signer wrote' is read over the stored bytes (content and MAC): a blob whose MAC bytes were altered counts as tampered even though the decoded content is unchanged".into(),
                "two lists that contain the same set of records (other order or multiplicity) are not 'two different sets' and are not judged when their tags are equal".into(),
                "the honest server tag is computed with the code under test (compute_shared_hmac); nonces come from a deterministic EntropySource".into(),
                "a panic on hostile input is reported as a note, not as a C17 violation".into(),
            ],
            start,
            extra_coverage: Default::default(),
        },
    );
}
